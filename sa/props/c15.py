"""C15 - issue reporting is coherent across all services (structural clauses; DESIGN.md section 4, C15)."""
import re

from facts import walk, render, role, is_call, AnalysisBroken
import tables
import issues
from engines import (render_x, ff, path, nth_arg, receiver, is_write_context, enclosing_conditions, enum_consts_in,
                     case_labels_reaching, label_enum, paths, unwrap_defarg, returns)

LEVEL = ('Static rules over the clang AST/CFG of /repo/src decide structural necessary conditions of C15: enum-keyed lookup '
         'tables are exhaustive for every value an issue can carry, the four logger vectors are written only by the three '
         'LoggerImpl primitives which keep them aligned, every created issue is described and reaches addIssue on every path, '
         'the typed item holder casts to the type its setter stored, and failing results of the importer/annotator/parser '
         'pass through an issue. The behaviour (counts after arbitrary call histories) is not executed or claimed.')
ASSUMPTIONS = ['An Issue can only carry a ReferenceRule that some site in src passes to setReferenceRule, or the default member initialiser '
               '(IssueImpl is private to the library).',
               'std::vector/std::map/std::any behave as specified by the C++ standard.']

LOGGER_VECTORS = ('mIssues', 'mErrors', 'mWarnings', 'mMessages')
LEVEL_VECTOR = {'ERROR': 'mErrors', 'WARNING': 'mWarnings', 'MESSAGE': 'mMessages', 'default': 'mMessages'}

# Enumerators that no table row is required for, each with its reason.
TABLE_EXEMPT = {
    ('ruleToInformation', 'UNSPECIFIED'): 'no site in src passes UNSPECIFIED to setReferenceRule and IssueImpl is private, so no issue can carry it '
                                          '(requiring the row would demand more than the property states)',
}

# Descriptions that are forwarded text rather than literals.
DESC_EXEMPT = {
    'Importer::ImporterImpl::fetchModel': 'forwards the description of the parser issue it re-reports (that issue obeys this rule itself)',
    'Parser::ParserImpl::loadModel': 'forwards libxml2 structured-error text collected by XmlDoc (entry.second)',
}


def _local_defs(func, d):
    out = []
    for n in func.walk():
        k = n.get('k')
        c = n.get('c', [])
        if k == 'Var' and n.get('d') == d and c:
            out.append(c[0])
        elif ((k == 'Bin' and n.get('op') == '=') or k == 'CAssign') and c and c[0].get('k') == 'Ref' and c[0].get('d') == d:
            out.append(c[1])
        elif k == 'Call' and n.get('opc') in ('=', '+=') and c and c[0].get('k') == 'Ref' and c[0].get('d') == d and len(c) > 1:
            out.append(c[1])
    return out


def desc_has_text(F, func, e, depth=0):
    if e is None:
        return False
    if issues.has_nonempty_literal(e):
        return True
    if e.get('k') == 'Ref' and depth == 0:
        rc = ff(func).rendered_conds_at(e) or set()
        if (e['n'] + '.empty()', False) in rc:
            return True
    if depth > 3:
        return False
    for r in walk(e):
        if r.get('k') != 'Ref':
            continue
        if r.get('dk') == 'local':
            if any(desc_has_text(F, func, x, depth + 1) for x in _local_defs(func, r['d'])):
                return True
        elif r.get('dk') == 'parm':
            idx = next((i for i, p in enumerate(func.params) if p['d'] == r['d']), None)
            if idx is None:
                continue
            callers = []
            for ck in F.callers.get(func.key, ()):
                g = F.funcs[ck]
                for call in g.walk():
                    if call.get('k') == 'Call' and func.key in F.callee_keys(call):
                        callers.append((g, call))
            if callers and all(desc_has_text(F, g, unwrap_defarg(nth_arg(call, idx)), depth + 1) for g, call in callers):
                return True
    return False


def resolve_enums(F, func, e, depth=0):
    """Set of enumerator names an expression can evaluate to (through locals, parameters and ?:), or None."""
    e = unwrap_defarg(e)
    if e is None or depth > 4:
        return None
    k = e.get('k')
    if k == 'Ref' and e.get('dk') == 'enumc':
        return {e['n']}
    if k == 'Cond':
        a = resolve_enums(F, func, e['c'][1], depth + 1)
        b = resolve_enums(F, func, e['c'][2], depth + 1)
        return a | b if a is not None and b is not None else None
    if k == 'Ref' and e.get('dk') == 'local':
        out = set()
        defs = _local_defs(func, e['d'])
        if not defs:
            return None
        for d in defs:
            r = resolve_enums(F, func, d, depth + 1)
            if r is None:
                return None
            out |= r
        return out
    if k == 'Ref' and e.get('dk') == 'parm':
        idx = next((i for i, p in enumerate(func.params) if p['d'] == e['d']), None)
        out = set()
        n = 0
        for ck in F.callers.get(func.key, ()):
            g = F.funcs[ck]
            for call in g.walk():
                if call.get('k') == 'Call' and func.key in F.callee_keys(call):
                    n += 1
                    r = resolve_enums(F, g, nth_arg(call, idx), depth + 1)
                    if r is None:
                        return None
                    out |= r
        return out if n else None
    return None


def site_key(site, counters):
    rule = '+'.join(site.rules) if site.rules else 'UNDEFINED'
    base = '%s|%s' % (site.func.short, rule)
    counters[base] = counters.get(base, 0) + 1
    return '%s#%d' % (base, counters[base])


def run(F, rep):
    # ------------------------------------------------------------------ T: tables
    rep.rule('C15.T1', 'every global std::map keyed by a libCellML enum (looked up with .at()) has a row for every enumerator')
    rep.rule('C15.T2', 'ruleToInformation has a 4-element row for UNDEFINED and for every ReferenceRule cited by a setReferenceRule site')
    enum_by_q = {q: e for q, e in F.enums.items()}
    n_tables = 0
    rule_rows = None
    for gq, g in sorted(F.globals.items()):
        m = re.match(r'(?:const )?std::map<(libcellml::[\w:]+), ', g['t'])
        if not m or not g.get('init'):
            continue
        eq = m.group(1)
        if eq not in enum_by_q:
            continue
        n_tables += 1
        rows = tables.map_table(g)
        keys = [tables.ename(k) for k, v, node in rows]
        name = g['n']
        if name == 'ruleToInformation':
            rule_rows = rows
        for en in tables.enum_names(enum_by_q[eq]):
            k = '%s@%s|%s' % (name, g['file'].split('/')[-1], en)
            if (name, en) in TABLE_EXEMPT:
                rep.exempt('C15.T1', k, TABLE_EXEMPT[(name, en)])
                continue
            rep.check(en in keys, 'C15.T1', k, '%s:%d' % (g['file'], g['line']),
                      'enumerator %s::%s has no row in %s: a lookup with .at() throws std::out_of_range' % (eq, en, name),
                      'row present')
        dup = {k for k in keys if keys.count(k) > 1}
        rep.check(not dup, 'C15.T1', '%s@%s|unique-keys' % (name, g['file'].split('/')[-1]), '%s:%d' % (g['file'], g['line']),
                  'duplicate keys %s' % sorted(dup), 'keys unique')
    if n_tables < 9:
        raise AnalysisBroken('only %d enum-keyed tables found, 9 confirmed' % n_tables)
    rep.floor('C15.T1', 250)
    if rule_rows is None:
        raise AnalysisBroken('ruleToInformation vanished')
    S = issues.sites(F)
    if len(S) < 150:
        raise AnalysisBroken('only %d issue creation sites found (185 confirmed)' % len(S))
    cited = {}
    for s in S:
        resolved = []
        for r, rn in zip(s.rules, s.rule_nodes):
            if r.startswith('?'):
                rs = resolve_enums(F, s.func, rn)
                if rs:
                    resolved += sorted(rs)
                    continue
            resolved.append(r)
        s.rules = resolved
        for r in s.rules:
            cited.setdefault(r, s)
    rowmap = {tables.ename(k): (v, node) for k, v, node in rule_rows}
    for r in ['UNDEFINED'] + sorted(cited):
        where = cited[r].where if r in cited else None
        if r.startswith('?'):
            rep.fail('C15.T2', 'rule-not-constant|' + r, where, 'setReferenceRule argument is not an enumerator: ' + r)
            continue
        if r not in rowmap:
            rep.fail('C15.T2', r, where, 'ReferenceRule::%s is cited by an issue site but ruleToInformation has no row: referenceHeading()/url() throw' % r)
            continue
        v, node = rowmap[r]
        v = tables.unwrap1(v) if not (isinstance(v, list) and len(v) == 4) else v
        rep.check(isinstance(v, list) and len(v) == 4, 'C15.T2', r, where,
                  'row of %s has %s elements, url()/referenceHeading() index [0..3]' % (r, len(v) if isinstance(v, list) else '?'), '4-element row')
    rep.floor('C15.T2', 100)
    # default member initialiser of the rule is UNDEFINED
    rec = F.record('Issue::IssueImpl')
    fld = next((f for f in rec['fields'] if f['n'] == 'mReferenceRule'), None)
    if fld is None:
        raise AnalysisBroken('IssueImpl::mReferenceRule vanished')
    init_enum = enum_consts_in(fld['init']) if fld.get('init') else []
    rep.check(init_enum and init_enum[0] in rowmap, 'C15.T2', 'default-initialiser', '%s:%d' % (rec['file'], fld['l']),
              'default reference rule %s has no table row' % init_enum, 'default rule %s has a row' % init_enum)

    # ------------------------------------------------------------------ L: logger discipline
    rep.rule('C15.L1', 'only LoggerImpl::addIssue/removeError/removeAllIssues write mIssues/mErrors/mWarnings/mMessages')
    writers_allowed = {'Logger::LoggerImpl::addIssue', 'Logger::LoggerImpl::removeError', 'Logger::LoggerImpl::removeAllIssues'}
    n_acc = 0
    for f in F.funcs.values():
        for n in f.walk():
            if n.get('k') == 'Member' and n.get('field') and n.get('q', '').startswith('libcellml::Logger::LoggerImpl::') and n['n'] in LOGGER_VECTORS:
                n_acc += 1
                w = is_write_context(f, n)
                # non-const reference escapes also count as writes
                p = f.parent(n)
                if not w and p is not None and p.get('k') == 'Call' and p.get('mc') and p['c'][0] is n:
                    w = p.get('fn') not in ('size', 'at', 'empty', 'begin', 'end', 'cbegin', 'cend', 'front', 'back', 'operator[]', 'find')
                    if p.get('fn') in ('begin', 'end'):
                        w = False
                if w:
                    rep.check(f.short in writers_allowed, 'C15.L1', '%s|%s' % (f.short, n['n']), f.where(n),
                              '%s writes logger vector %s outside the three primitives' % (f.short, n['n']), 'allowed writer')
                else:
                    rep.ok('C15.L1', '%s|%s|read' % (f.short, n['n']), f.where(n), 'read access')
    if n_acc < 20:
        raise AnalysisBroken('logger vector accesses: %d found, 25 confirmed' % n_acc)

    rep.rule('C15.L2', 'LoggerImpl::addIssue pushes the issue once and exactly one level index (ERROR->mErrors, WARNING->mWarnings, else mMessages) on every path; the index is mIssues.size() taken before the push')
    add = F.fn1('Logger::LoggerImpl::addIssue')
    cfg = add.cfg()
    pushes = {}
    for n in add.walk():
        if n.get('k') == 'Call' and n.get('fn') in ('push_back', 'emplace_back') and n.get('mc'):
            r = receiver(n)
            if r.get('k') == 'Member' and r['n'] in LOGGER_VECTORS:
                pushes[n['i']] = (r['n'], n)
    if not pushes:
        raise AnalysisBroken('addIssue: no push_back on the logger vectors')
    P = paths(cfg)
    bad = None
    for p in P:
        cnt = {}
        labels = []
        for b in p:
            blk = cfg.blocks[b]
            if blk.get('label'):
                ln = add.nodes.get(blk['label'])
                while ln is not None and ln.get('k') in ('Case', 'Default'):
                    labels.append(label_enum(ln))
                    sub = role(ln, 'sub')
                    ln = sub if sub is not None and sub.get('k') in ('Case', 'Default') else None
            for e in blk['el']:
                if e in pushes:
                    cnt[pushes[e][0]] = cnt.get(pushes[e][0], 0) + 1
        lv = {k: v for k, v in cnt.items() if k != 'mIssues'}
        entered = labels[0] if labels else None
        expect = LEVEL_VECTOR.get(entered) if entered else None
        if cnt.get('mIssues', 0) != 1 or sum(lv.values()) != 1 or (expect and list(lv) != [expect]):
            bad = 'path entering case %s pushes %s' % (entered, cnt)
            break
    rep.check(bad is None, 'C15.L2', 'addIssue|paths', add.where(), bad, '%d paths, each pushes mIssues once and the matching level vector once' % len(P))
    # the dispatch (switch or if-chain) is over issue->level(), and each level files the issue under its own vector: abstract execution per enumerator
    import enumexec

    def _is_level(e):
        if any(is_call(x, 'libcellml::Issue::level') for x in walk(e)):
            return True
        if e.get('k') == 'Ref' and e.get('dk') == 'local':
            defs = _local_defs(add, e['d'])
            return len(defs) == 1 and any(is_call(x, 'libcellml::Issue::level') for x in walk(defs[0]))
        return False

    def _eff(c_):
        if c_.get('fn') in ('push_back', 'emplace_back') and c_.get('mc'):
            r_ = receiver(c_)
            if r_ is not None and r_.get('k') == 'Member' and r_['n'] in LOGGER_VECTORS:
                return r_['n']
        return None
    try:
        eff = enumexec.dispatch_effects(F, add, _is_level, 'libcellml::Issue::Level', _eff)
        wrong = {lv_: e_ for lv_, e_ in eff.items() if sorted(e_) != sorted(['mIssues', LEVEL_VECTOR.get(lv_, 'mMessages')])}
        rep.check(not wrong, 'C15.L2', 'addIssue|switch-on-level', add.where(), 'addIssue files an issue of level %s' % ', '.join('%s under %s' % (k_, v_) for k_, v_ in sorted(wrong.items())), 'per level: %s' % {k_: sorted(v_) for k_, v_ in sorted(eff.items())})
    except enumexec.Unknown as e_:
        raise AnalysisBroken('addIssue: the dispatch on issue->level() is outside the fragment the abstract execution understands (%s)' % e_)
    # index variable = mIssues.size() evaluated before the push into mIssues; level pushes push that variable
    idx_ok = False
    detail = 'no local initialised from mIssues.size()'
    for v in add.walk():
        if v.get('k') == 'Var' and v.get('c') and render(v['c'][0]) == 'mIssues.size()':
            push_issue = [n for (nm, n) in pushes.values() if nm == 'mIssues']
            lvl_push = [n for (nm, n) in pushes.values() if nm != 'mIssues']
            before = all(cfg.node_dominates(v['c'][0], pi) and not cfg.node_dominates(pi, v['c'][0]) for pi in push_issue)
            same = all(render(nth_arg(n, 0)) == v['n'] for n in lvl_push)
            idx_ok = before and same
            detail = 'size() taken before push: %s, level vectors push `%s`: %s' % (before, v['n'], same)
    rep.check(idx_ok, 'C15.L2', 'addIssue|index', add.where(), detail, detail)

    rep.rule('C15.L3', 'removeAllIssues clears all four vectors; removeError erases from mIssues (at the position stored in mErrors) and from mErrors')
    rm = F.fn1('Logger::LoggerImpl::removeAllIssues')
    cleared = {receiver(n)['n'] for n in rm.walk() if n.get('k') == 'Call' and n.get('fn') == 'clear' and receiver(n) is not None and receiver(n).get('k') == 'Member'}
    # other ways of emptying a vector: swap with an empty temporary, assignment of {} / an empty vector, resize(0)
    for n in rm.walk():
        if n.get('k') == 'Call' and n.get('fn') == 'swap' and n.get('mc') and len(n.get('c', [])) == 2:
            a, b = n['c'][0], n['c'][1]
            for x, y in ((a, b), (b, a)):
                while x.get('k') in ('Temp', 'Cast', 'Construct', 'Paren') and len(x.get('c', [])) == 1:
                    x = x['c'][0]
                if y.get('k') == 'Member' and y.get('field') and x.get('k') in ('Construct', 'Temp') and not x.get('c'):
                    cleared.add(y['n'])
        if n.get('k') == 'Call' and n.get('fn') == 'resize' and n.get('mc') and receiver(n) is not None and receiver(n).get('k') == 'Member' and render(nth_arg(n, 0)) == '0':
            cleared.add(receiver(n)['n'])
        if n.get('k') == 'Call' and n.get('opc') == '=' and n['c'][0].get('k') == 'Member' and n['c'][0].get('field'):
            r_ = n['c'][1]
            while r_.get('k') in ('Temp', 'Cast', 'Paren') and len(r_.get('c', [])) == 1:
                r_ = r_['c'][0]
            if r_.get('k') in ('Construct', 'InitList') and not r_.get('c'):
                cleared.add(n['c'][0]['n'])
    for v in LOGGER_VECTORS:
        rep.check(v in cleared, 'C15.L3', 'removeAllIssues|' + v, rm.where(), '%s is not cleared by removeAllIssues' % v, 'cleared')
    re_ = F.fn1('Logger::LoggerImpl::removeError')
    er = {}
    for n in re_.walk():
        if n.get('k') == 'Call' and n.get('fn') == 'erase' and receiver(n).get('k') == 'Member':
            er[receiver(n)['n']] = n
    rep.check('mIssues' in er and 'mErrors' in er and set(er) <= {'mIssues', 'mErrors'}, 'C15.L3', 'removeError|erases', re_.where(),
              'removeError erases from %s' % sorted(er), 'erases from mIssues and mErrors only')
    if 'mIssues' in er and 'mErrors' in er:
        a = render(nth_arg(er['mIssues'], 0))
        rep.check('mErrors.at(index)' in a and re_.cfg().node_dominates(er['mIssues'], er['mErrors']), 'C15.L3', 'removeError|order', re_.where(),
                  'mIssues.erase argument is `%s` / order wrong' % a, 'mIssues erased at mErrors.at(index) before mErrors is edited')

    rep.rule('C15.L4', 'error/warning/message/issue(index) return mIssues.at(<level vector>.at(index)) only under index < <same vector>.size(); the count functions return the same vector size')
    for acc, cnt_fn, vec in (('error', 'errorCount', 'mErrors'), ('warning', 'warningCount', 'mWarnings'), ('message', 'messageCount', 'mMessages'), ('issue', 'issueCount', 'mIssues')):
        f = F.fn1('libcellml::Logger::' + acc)
        sub = {}
        from engines import delegate, subst_names
        dg = delegate(F, f)
        if dg is not None and not any(n.get('k') == 'Call' and n.get('fn') in ('at', 'operator[]') and n.get('mc') for n in f.walk()):
            f, sub = dg    # the accessor forwards to a file-local helper: judge the helper with the arguments spelled out
        ats = [n for n in f.walk() if n.get('k') == 'Call' and n.get('fn') in ('at', 'operator[]') and n.get('mc')]
        if not ats:
            raise AnalysisBroken('Logger::%s has no element access' % acc)
        good = True
        det = ''
        for n in ats:
            rc = {(subst_names(c_, sub), t_) for c_, t_ in (ff(f).rendered_conds_at(n) or set())}
            want = ('index < pFunc()->%s.size()' % vec, True)
            if want not in rc:
                good = False
                det = '`%s` is not guarded by `index < pFunc()->%s.size()` (guards: %s)' % (render(n), vec, sorted(rc))
        outer = [subst_names(render(n), sub) for n in ats]
        shape = ('pFunc()->mIssues.at(index)' in outer) if vec == 'mIssues' else ('pFunc()->mIssues.at(pFunc()->%s.at(index))' % vec in outer)
        rep.check(good and shape, 'C15.L4', 'Logger::%s|bound' % acc, f.where(), det or 'element access is %s' % outer, 'guarded by index < %s.size()' % vec)
        # initial value / fall-through result is null
        rets = returns(f)
        nullret = False
        for r in rets:
            e = r['c'][0] if r.get('c') else None
            if e is not None and e.get('k') == 'Ref' and e.get('dk') == 'local':
                defs = _local_defs(f, e['d'])
                nullret = any(d.get('k') == 'Null_' or render(d) == 'nullptr' for d in defs)
            elif e is not None and e.get('k') == 'Null_':
                nullret = True
        rep.check(nullret, 'C15.L4', 'Logger::%s|null-when-out-of-range' % acc, f.where(), 'no null result for an out-of-range index', 'null result on the unguarded path')
        g = F.fn1('libcellml::Logger::' + cnt_fn)
        rr = [render(r['c'][0]) for r in returns(g) if r.get('c')]
        rep.check(rr == ['pFunc()->%s.size()' % vec], 'C15.L4', 'Logger::%s|vector' % cnt_fn, g.where(), '%s returns %s' % (cnt_fn, rr), 'returns %s.size()' % vec)

    # removeError does not renumber the level vectors: its callers must only ever remove the last issues
    rep.rule('C15.L5', 'removeError(i) erases one issue without renumbering the level vectors: callers remove errors from the last one downwards, and between their errorCount() snapshot and the removal no warning/message may be added after an error (it would keep a stale index)')
    from faillog import _can_reach
    users = [f for f in F.funcs.values() if f.short != 'Logger::LoggerImpl::removeError' and any(n.get('k') == 'Call' and n.get('fn') == 'removeError' for n in f.walk())]
    if len(users) < 2:
        raise AnalysisBroken('callers of removeError: %d found, 2 confirmed' % len(users))
    between = set()
    for f in users:
        for n in f.walk():
            if n.get('k') == 'Call' and n.get('fn') == 'removeError':
                a = render_x(f, nth_arg(n, 0))
                loops = [x for x in f.ancestors(n) if x.get('k') == 'For']
                ok = False
                det = 'removeError(%s) is not inside a descending loop' % a
                if loops:
                    L = loops[0]
                    init, cond, inc = role(L, 'init'), role(L, 'cond'), role(L, 'inc')
                    iv = None
                    if init is not None:
                        for x in walk(init):
                            if x.get('k') == 'Var':
                                iv = x
                    desc = inc is not None and inc.get('k') == 'Un' and inc.get('op') == '--'
                    start = render(iv['c'][0]) if iv is not None and iv.get('c') else None
                    # the start value is a snapshot of errorCount() taken after the calls that may add issues
                    snap = None
                    for v in f.walk():
                        if v.get('k') == 'Var' and v.get('n') == start and v.get('c'):
                            snap = render(v['c'][0])
                    ok = bool(desc and iv is not None and a == iv['n'] + ' - 1' and snap and snap.endswith('errorCount()'))
                    det = 'loop from %s (= %s) downwards: %s, argument %s' % (start, snap, desc, a)
                rep.check(ok, 'C15.L5', '%s|removeError-loop' % f.short, f.where(n), det, det)
        # functions that add issues between the snapshot and the loop: callees that return before the loop
        for n in f.walk():
            if n.get('k') == 'Call' and n.get('fn') in ('fetchImportSource',):
                for ck in F.callee_keys(n):
                    between |= F.reach([ck])
    adders_between = [F.funcs[k] for k in sorted(between) if k in F.funcs and F.funcs[k].file.endswith('importer.cpp') and any(x.get('k') == 'Call' and x.get('fn') == 'addIssue' for x in F.funcs[k].walk())]
    if not adders_between:
        raise AnalysisBroken('no issue-adding function between the errorCount() snapshot and removeError')
    site_by_var = {}
    for sx in S:
        site_by_var[(sx.func.key, sx.var['d'])] = sx
    for g in adders_between:
        adds = []
        for n in g.walk():
            if n.get('k') == 'Call' and n.get('fn') == 'addIssue':
                a = nth_arg(n, 0)
                lvl = '?'
                if a is not None and a.get('k') == 'Ref' and (g.key, a.get('d')) in site_by_var:
                    lvl = site_by_var[(g.key, a['d'])].effective_level
                elif a is not None and any(x.get('k') == 'Call' and x.get('fn') == 'error' for x in walk(a)):
                    lvl = 'ERROR'
                elif a is not None and any(x.get('k') == 'Call' and x.get('fn') in ('warning', 'message') for x in walk(a)):
                    lvl = 'NON-ERROR'
                adds.append((n, lvl))
        cfgg = g.cfg()
        for e, le in adds:
            if le != 'ERROR':
                continue
            for m, lm in adds:
                if m is e or lm == 'ERROR':
                    continue
                after = _can_reach(cfgg, e, m) and not (cfgg.block_of(e) == cfgg.block_of(m))
                rep.check(not after, 'C15.L5', '%s|%s-after-error' % (g.short, lm), g.where(m),
                          'a %s-level issue can be added after an error in %s; fetchComponent/fetchUnits then remove the error with removeError(), which leaves the %s index pointing past the end (message(i)/warning(i) throw or return the wrong issue)' % (lm, g.short, lm),
                          'added before any error')
        if not any(l == 'ERROR' for _, l in adds):
            rep.note('%s adds no error-level issue' % g.short)

    # ------------------------------------------------------------------ I: issue sites
    rep.rule('C15.I1', 'every Issue::IssueImpl::create() result reaches addIssue (or is returned to a caller that adds it) on every path to the function exit')
    rep.rule('C15.I2', 'every created issue gets setDescription with text (an expression containing a non-empty literal, directly or through its local/parameter definitions)')
    rep.rule('C15.I3', 'every issue site cites a constant ReferenceRule enumerator or none (default UNDEFINED) and a constant Level')
    counters = {}
    returning = {}
    for s in S:
        k = site_key(s, counters)
        rep.check(issues.reaches_logger(s) and not s.other_uses, 'C15.I1', k, s.where,
                  'issue created in %s does not reach addIssue on every path (adds: %d, returns: %d, other uses: %s)' % (s.func.short, len(s.add_nodes), len(s.return_nodes), s.other_uses),
                  'reaches addIssue/return on all paths')
        if s.return_nodes:
            returning[s.func.key] = s
        fwd_issue = s.desc is not None and any(x.get('k') == 'Call' and x.get('mc') and x.get('fn') == 'description' and (x.get('cls') or '').endswith('libcellml::Issue') for x in walk(s.desc))
        if fwd_issue and not desc_has_text(F, s.func, s.desc):
            # the text of ANOTHER issue is forwarded (the importer re-reports a parser message): that issue obeys this rule itself - recognised by what is forwarded, wherever the code sits
            rep.exempt('C15.I2', k, 'forwards the description of the issue it re-reports (that issue obeys this rule itself)')
        elif s.func.short in DESC_EXEMPT and not issues.has_nonempty_literal(s.desc) and s.desc is not None and not desc_has_text(F, s.func, s.desc):
            rep.exempt('C15.I2', k, DESC_EXEMPT[s.func.short])
        else:
            rep.check(desc_has_text(F, s.func, s.desc), 'C15.I2', k, s.where,
                      'issue has no description text: %s' % (render(s.desc) if s.desc is not None else 'setDescription never called'), 'described')
        rep.check(s.level != '?' and not any(r.startswith('?') for r in s.rules) and len(s.level_nodes) <= 1, 'C15.I3', k, s.where,
                  'level/rule does not resolve to constants: level=%s rules=%s' % (s.level, s.rules), 'level=%s rule=%s' % (s.effective_level, s.rules))
    # issues handed back to callers
    for fk, s in returning.items():
        callee = F.funcs[fk]
        for ck in sorted(F.callers.get(fk, ())):
            g = F.funcs[ck]
            for call in g.walk():
                if call.get('k') == 'Call' and fk in F.callee_keys(call):
                    p = g.parent(call)
                    while p is not None and p.get('k') == 'Construct':
                        p = g.parent(p)
                    added = p is not None and p.get('k') == 'Call' and p.get('fn') == 'addIssue'
                    if not added and p is not None and p.get('k') == 'Var':
                        d = p['d']
                        adds = [x['i'] for x in g.walk() if x.get('k') == 'Call' and x.get('fn') == 'addIssue'
                                and any(y.get('k') == 'Ref' and y.get('d') == d for y in walk(x))]
                        added = issues.must_pass(g.cfg_for(call), call, adds)
                    rep.check(added, 'C15.I1', '%s|returned-by:%s' % (g.short, callee.short), g.where(call),
                              'issue returned by %s is not added by its caller %s on every path' % (callee.short, g.short), 'caller adds the returned issue')
    rep.floor('C15.I1', 150)
    rep.floor('C15.I2', 150)

    # ------------------------------------------------------------------ A: typed item holder
    rep.rule('C15.A1', 'each AnyCellmlElementImpl setter stores one C++ type per element tag; every AnyCellmlElement accessor any_casts, under a tag test, to exactly the type stored for that tag')
    stored = {}   # tag -> stored type
    impl = 'libcellml::AnyCellmlElement::AnyCellmlElementImpl'
    setters = [f for f in F.funcs.values() if f.cls == impl and f.name.startswith('set')]
    if len(setters) < 15:
        raise AnalysisBroken('AnyCellmlElementImpl setters: %d found, 18 confirmed' % len(setters))

    def tags_of(f, depth=0):
        """(tags, stored type) established by setter f; follows delegation to another setter."""
        tags, typ = [], None
        for n in f.walk():
            if n.get('k') == 'Call' and n.get('opc') == '=' or n.get('k') == 'Bin' and n.get('op') == '=':
                lhs, rhs = n['c'][0], n['c'][1]
                if lhs.get('k') == 'Member' and lhs['n'] == 'mType':
                    if rhs.get('k') == 'Ref' and rhs.get('dk') == 'enumc':
                        tags.append(rhs['n'])
                    elif rhs.get('k') == 'Ref' and rhs.get('dk') == 'parm':
                        idx = next(i for i, p in enumerate(f.params) if p['d'] == rhs['d'])
                        for g in F.funcs.values():
                            for call in g.walk():
                                if call.get('k') == 'Call' and f.key in F.callee_keys(call):
                                    a = unwrap_defarg(nth_arg(call, idx))
                                    if a is not None and a.get('k') == 'Ref' and a.get('dk') == 'enumc':
                                        tags.append(a['n'])
                                    elif a is not None and a.get('k') == 'Ref' and a.get('dk') == 'parm' and depth < 3:
                                        # forwarded tag parameter: resolve through the forwarding setter's callers
                                        sub_idx = next(i for i, p in enumerate(g.params) if p['d'] == a['d'])
                                        for h in F.funcs.values():
                                            for c2 in h.walk():
                                                if c2.get('k') == 'Call' and g.key in F.callee_keys(c2):
                                                    a2 = unwrap_defarg(nth_arg(c2, sub_idx))
                                                    if a2 is not None and a2.get('k') == 'Ref' and a2.get('dk') == 'enumc':
                                                        tags.append(a2['n'])
                                                    else:
                                                        tags.append('?' + render(a2))
                                    else:
                                        tags.append('?' + render(a))
                elif lhs.get('k') == 'Member' and lhs['n'] == 'mItem':
                    src = rhs
                    while src.get('k') == 'Construct' and len(src.get('c', [])) == 1:
                        src = src['c'][0]
                    typ = src.get('t', '?').replace('const ', '')
        return tags, typ

    for f in sorted(setters, key=lambda f: f.line):
        tags, typ = tags_of(f)
        if typ is None:
            continue  # pure delegation to another setter, which is analysed itself
        for t in tags:
            k = '%s|%s' % (f.short.split('::')[-1] + '/%d' % len(f.params), t)
            if t.startswith('?'):
                rep.exempt('C15.A1', k, 'tag supplied by the caller of a public Annotator::assignId overload; a mismatch is caught by the '
                                        'bad_any_cast handlers that rule C15.A1|handler requires on every accessor')
                continue
            if t in stored and stored[t] != typ:
                rep.fail('C15.A1', k, f.where(), 'tag %s is stored both as %s and as %s' % (t, stored[t], typ))
            else:
                stored.setdefault(t, typ)
                rep.ok('C15.A1', k, f.where(), 'tag %s stores %s' % (t, typ))
    enum_tags = [x for x in tables.enum_names(F.enum('libcellml::CellmlElementType')) if x != 'UNDEFINED']
    for t in enum_tags:
        rep.check(t in stored, 'C15.A1', 'tag-has-setter|' + t, None, 'no setter stores an item for tag %s' % t, 'stored as %s' % stored.get(t))
    n_cast = 0
    for f in F.funcs.values():
        if f.cls != 'libcellml::AnyCellmlElement':
            continue
        for n in f.walk():
            if n.get('k') == 'Call' and n.get('callee') == 'std::any_cast':
                n_cast += 1
                tags = []
                for cond, br, st in enclosing_conditions(f, n):
                    if br == 'then' and 'mType' in render(cond):
                        tags += enum_consts_in(cond)
                rt = n.get('rt', '').replace('const ', '')
                k = '%s|any_cast' % f.short
                a0_ = nth_arg(n, 0)
                while a0_ is not None and a0_.get('k') in ('Paren', 'Cast') and len(a0_.get('c', [])) == 1:
                    a0_ = a0_['c'][0]
                ptr_form = a0_ is not None and a0_.get('k') == 'Un' and a0_.get('op') == '&' and rt.rstrip().endswith('*')
                if ptr_form:
                    rt = rt.rstrip()[:-1].rstrip()     # any_cast<T>(&any) returns T* and does not throw: null when the held type differs
                if not tags:
                    rep.fail('C15.A1', k, f.where(n), 'any_cast<%s> in %s is not under a tag test' % (rt, f.short))
                    continue
                badt = [t for t in tags if stored.get(t) != rt]
                rep.check(not badt, 'C15.A1', k, f.where(n), 'accessor %s casts to %s under tags %s but the setters store %s' % (
                    f.short, rt, tags, {t: stored.get(t) for t in badt}), 'tags %s all store %s' % (tags, rt))
                # the cast is inside a handler for bad_any_cast
                if ptr_form:
                    from engines import nonnull_facts as _nnf
                    holder = next((a for a in f.ancestors(n) if a.get('k') == 'Var'), None)
                    derefs = [] if holder is None else [u for u in f.walk() if ((u.get('k') == 'Un' and u.get('op') == '*') or (u.get('k') == 'Member' and u.get('arrow'))) and u.get('c')
                                                         and u['c'][0].get('k') == 'Ref' and u['c'][0].get('d') == holder.get('d')]
                    okp = holder is not None and bool(derefs) and all(holder.get('n') in (_nnf(f, u) or set()) for u in derefs)
                    rep.check(okp, 'C15.A1', k + '|handler', f.where(n), 'the pointer returned by any_cast<T>(&item) in %s is dereferenced without a null test (it is null when the stored type differs)' % f.short,
                              'non-throwing pointer form, result tested before use')
                    continue
                tr = [a for a in f.ancestors(n) if a.get('k') == 'Try']
                caught = [h.get('q') for t_ in tr for h in t_['c'][1:]]
                rep.check(any(c in ('std::bad_any_cast', 'std::bad_cast', 'std::exception', '...') for c in caught), 'C15.A1', k + '|handler', f.where(n),
                          'any_cast in %s is not inside a handler for std::bad_any_cast' % f.short, 'bad_any_cast handled')
    if n_cast < 8:
        raise AnalysisBroken('AnyCellmlElement accessors with any_cast: %d found, 8 confirmed' % n_cast)
    # annotator weak/shared conversion: under case labels, any_cast<WeakPtr<T>> must match the weak form of the stored type
    rep.rule('C15.A2', 'annotator convertToWeak/convertToShared/itemsEqual cast, under each element-tag case, to the weak form of the type the holder stores for that tag')
    n_w = 0
    for f in F.funcs.values():
        if not f.file.endswith('annotator.cpp'):
            continue
        for n in f.walk():
            if n.get('k') == 'Call' and n.get('callee') == 'std::any_cast' and 'weak_ptr' in n.get('rt', ''):
                sw, labels = case_labels_reaching(f, n)
                tags = [label_enum(l) for l in labels]
                tags += [t for cond, br, st in enclosing_conditions(f, n) if br == 'then' for t in enum_consts_in(cond) if t in stored]
                rt = n.get('rt', '').replace('const ', '').replace('std::weak_ptr', 'std::shared_ptr')
                k = '%s|%s' % (f.short, '+'.join(sorted(set(tags))) or 'no-tag')
                n_w += 1
                via_default = 'default' in tags
                if 'default' in tags and sw is not None:
                    # `default` stands for every tag that has no label of its own in this switch
                    explicit = set()
                    for x in walk(sw):
                        if x.get('k') == 'Case':
                            explicit.add(label_enum(x))
                    tags = [t for t in tags if t != 'default'] + [t for t in enum_tags if t not in explicit]
                    k = '%s|%s' % (f.short, '+'.join(sorted(set(tags))) or 'no-tag')
                if not tags:
                    rep.fail('C15.A2', k, f.where(n), 'weak any_cast<%s> in %s is not governed by constant tags (%s)' % (rt, f.short, tags))
                    continue
                if via_default:
                    # the default branch serves "the remaining tag(s)": at least one of them must store this type
                    rep.check(any(stored.get(t) == rt for t in tags), 'C15.A2', '%s|default' % f.short, f.where(n),
                              'default branch casts to weak %s but none of the remaining tags %s stores it' % (rt, tags), 'default branch: one of %s stores %s' % (tags, rt))
                    continue
                badt = sorted({t for t in tags if stored.get(t) != rt})
                rep.check(not badt, 'C15.A2', k, f.where(n), 'casts to weak form of %s under tags %s; holder stores %s' % (rt, tags, {t: stored.get(t) for t in badt}),
                          'tags %s store %s' % (sorted(set(tags)), rt))
    if n_w < 10:
        raise AnalysisBroken('annotator weak any_casts: %d found' % n_w)

    # ------------------------------------------------------------------ F: failing results are explained
    import faillog
    faillog.run_c15(F, rep)
    # the annotator's look-ups answer from an index: replacing the annotated model invalidates it (clause shared with C13) - otherwise every item of the new
    # model "does not exist" (null, wrong type) and no issue says why
    if not getattr(rep, 'nested', False):
        import core as _core15
        import c13 as _c13
        _core15.borrow(F, rep, _c13, only={'C13.R2'})
    # G1: the analysis itself is skipped only because an issue says why
    rep.rule('C15.G1', 'Analyser::analyseModel(model) either runs the internal analysis (which re-creates the AnalyserModel, so type() speaks about THIS model) or has added an issue: every test that guards the call of '
                       'AnalyserImpl::analyseModel is a test of the analyser\'s own issue counters, and every return in front of it follows an addIssue. A further "nothing to analyse" condition leaves the previous call\'s '
                       'AnalyserModel - possibly of a failing type - in place with an empty issue list')
    pam = F.fn1('libcellml::Analyser::analyseModel')
    inner = [c for c in pam.walk() if c.get('k') == 'Call' and c.get('fn') == 'analyseModel' and c.get('cls', '').endswith('AnalyserImpl')]
    if len(inner) != 1:
        raise AnalysisBroken('Analyser::analyseModel: call of AnalyserImpl::analyseModel not found (%d)' % len(inner))
    from engines import _decompose as _dc15
    atoms = []
    from engines import value_of as _vo15, walk_x as _wx15
    for cnd, br, st in enclosing_conditions(pam, inner[0]):
        tmp = []
        _dc15(_vo15(pam, cnd), br == 'then', tmp)
        atoms += [(c_, t_) for c_, t_ in tmp if not (c_.get('k') == 'Bin' and c_.get('op') in ('&&', '||'))]
    if not atoms:
        raise AnalysisBroken('Analyser::analyseModel: the internal analysis is no longer gated on the issue count')
    for c_, t_ in atoms:
        txt = render_x(pam, c_)
        own = any(x.get('k') == 'Call' and x.get('fn') in ('issueCount', 'errorCount') and (not x.get('c') or x['c'][0].get('k') in ('This', 'NoObj') or render(x['c'][0]) in ('this', 'pFunc()')) for x in _wx15(pam, c_))
        rep.check(own, 'C15.G1', 'analyseModel|gate %s' % txt[:50], pam.where(c_), 'the internal analysis also depends on `%s`, which no issue explains: when it fails the AnalyserModel of the previous call stays in place' % txt[:60], 'own issue counter')
    for r in pam.walk():
        if r.get('k') == 'Return' and pam.enclosing_lambda(r) is None and r.get('l', 0) < inner[0].get('l', 0):
            blk = pam.parent(r)
            logged = blk is not None and any(x.get('k') == 'Call' and x.get('fn') == 'addIssue' for x in walk(blk))
            rep.check(logged, 'C15.G1', 'analyseModel|return@%d' % sum(1 for x in pam.walk() if x.get('k') == 'Return' and x.get('l', 0) < r.get('l', 0)), pam.where(r), 'Analyser::analyseModel returns before the analysis without having added an issue in that block', 'after addIssue')

    # ------------------------------------------------------------------ V: the level of an issue is fixed before it is filed
    rep.rule('C15.V1', 'Issue::IssueImpl::setLevel is called only on an issue that has just been created in the same function and has not been handed to addIssue yet: the logger files an issue under errors/warnings/messages '
                       'when it is added, so a level changed afterwards (or on an issue read back from a logger) disagrees with errorCount()/warningCount()/error(i)')
    from faillog import _can_reach as _cr15
    n_v = 0
    for g in F.funcs.values():
        if '/src/' not in g.file:
            continue
        for c in g.walk():
            if not (c.get('k') == 'Call' and c.get('mc') and c.get('fn') == 'setLevel' and (c.get('cls') or '').endswith('IssueImpl')):
                continue
            n_v += 1
            roots = [x for x in walk(c['c'][0]) if x.get('k') == 'Ref' and x.get('dk') in ('local', 'parm')]
            r = roots[0] if roots else None
            fresh = False
            if r is not None and r.get('dk') == 'local':
                inits = [v['c'][0] for v in g.walk() if v.get('k') == 'Var' and v.get('d') == r['d'] and v.get('c')]
                fresh = bool(inits) and all(any(x.get('k') == 'Call' and (x.get('fn') == 'create' and 'Issue' in (x.get('callee') or '') or (x.get('fn') or '').startswith('makeIssue')) for x in walk(i_)) for i_ in inits)
            key = '%s|%s' % (g.short.split('::')[-1], render(c)[:50])
            if not fresh:
                rep.fail('C15.V1', key, g.where(c), '%s changes the level of an issue it did not create (`%s`): an issue that is already filed in a logger keeps its old place in the error/warning/message lists' % (g.short, render(c['c'][0])[:40]))
                continue
            cfg = g.cfg_for(c)
            adds = [a for a in g.walk() if a.get('k') == 'Call' and a.get('fn') == 'addIssue' and any(x.get('k') == 'Ref' and x.get('d') == r['d'] for x in walk(a))]
            from engines import _all_paths_pass as _app15
            decls = [v['i'] for v in g.walk() if v.get('k') == 'Var' and v.get('d') == r['d']] + [p_['i'] for v in g.walk() if v.get('k') == 'Var' and v.get('d') == r['d'] for p_ in [g.parent(v)] if p_ is not None]
            # a path from addIssue(x) back to this setLevel that does not pass the declaration of x (a new issue per loop iteration passes it)
            late = [a for a in adds if cfg is not None and _cr15(cfg, a, c) and not _app15(cfg, a, c, decls)]
            rep.check(not late, 'C15.V1', key, g.where(c), '%s sets the level at line %s after the issue was added at line %s' % (g.short, c.get('l'), late[0].get('l') if late else ''), 'set before addIssue')
    if n_v < 15:
        raise AnalysisBroken('C15.V1: only %d setLevel calls found (21 confirmed)' % n_v)


