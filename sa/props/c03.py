"""C03 - generated code computes what the model's equations say (structural clauses)."""
import re

from facts import walk, render, role, is_call, AnalysisBroken
from engines import ff, nth_arg, receiver, case_labels_reaching, label_enum, enclosing_conditions
import paren_check

LEVEL = ('(P) the parenthesisation logic of the code generator is extracted from the AST of generator.cpp as a decision table (parent type, side, child class) by abstract interpretation of its if-chains and predicate helpers under the flags of the C and Python profiles, '
         'and checked against the precedence/associativity of the operators those profiles emit: where no parentheses are added, the syntactic root of the child\'s text must bind at least as tightly as the parent requires, and `-` must not be glued to text starting with `-` in C; '
         '(D) generateCode dispatches every AST type and uses the profile string of the same stem; (S) unit scaling comes from Units::scalingFactor in both analyser and generator and is applied to every CI node except the computed variable and the variable of integration; '
         '(E) dependencies are emitted before an equation. No code is generated, compiled or run by the check.')
ASSUMPTIONS = ['C and Python operator precedence/associativity as tabulated in sa/paren.py', 'EQUALITY/PIECE/OTHERWISE/BVAR/DEGREE/LOGBASE nodes never are operands of an operator (MathML structure enforced by the validator)',
               'floating-point re-association of +/* chains is not a violation']


def run(F, rep):
    # ------------------------------------------------------------------ D2: once per group means remembering every group
    from engines import rule_last_seen
    rule_last_seen(F, rep, 'C03.D2', lambda g_: g_.file.endswith(('/generator.cpp', '/analyser.cpp', '/analysermodel.cpp')), 'generator.cpp / analyser.cpp')

    # ------------------------------------------------------------------ F: a (re)loaded profile is complete
    rep.rule('C03.F1', 'GeneratorProfileImpl::loadProfile assigns every flag and string of the profile for C and for Python, so that setProfile() yields the same profile whatever the object held before '
                       '(a flag that survives a reload is combined with the reloaded strings, e.g. a power operator with the function name `pow`)')
    from engines import is_write_context
    prec = F.record('GeneratorProfile::GeneratorProfileImpl')
    lps = [g for g in F.funcs.values() if g.name == 'loadProfile' and (g.cls or '').endswith('GeneratorProfileImpl')]
    if len(lps) != 1:
        raise AnalysisBroken('GeneratorProfileImpl::loadProfile vanished')
    lp = lps[0]
    allp = [e['n'] for e in F.enum('libcellml::GeneratorProfile::Profile')['enumerators']]
    written = {p_: set() for p_ in allp}
    for n_ in lp.walk():
        if n_.get('k') == 'Member' and n_.get('field') and is_write_context(lp, n_):
            sw_, labels_ = case_labels_reaching(lp, n_)
            ps = [label_enum(l) for l in labels_]
            if not ps:
                for cnd, br, st in enclosing_conditions(lp, n_):
                    en = [x['n'] for x in walk(cnd) if x.get('k') == 'Ref' and x.get('dk') == 'enumc' and x['n'] in allp]
                    if len(en) == 1 and '==' in render(cnd):
                        ps = en if br == 'then' else [x for x in allp if x not in en]
                        break
            for p_ in (ps or allp):
                written[p_].add(n_['n'])
    F1_EXEMPT = {'mPiecewiseIfString': 'only used when hasConditionalOperator is false; loadProfile sets it to true for both profiles', 'mPiecewiseElseString': 'only used when hasConditionalOperator is false; loadProfile sets it to true for both profiles',
                 'mProfile': 'the profile selector itself, assigned by the caller', 'mProfileContentsString': 'derived text'}
    f1_failed = False
    nf = 0
    for fld in prec['fields']:
        for p_ in allp:
            nf += 1
            key = '%s|%s' % (p_, fld['n'])
            if fld['n'] in written[p_]:
                rep.ok('C03.F1', key, None, 'assigned')
            elif fld['n'] in F1_EXEMPT:
                rep.exempt('C03.F1', key, F1_EXEMPT[fld['n']])
            else:
                f1_failed = True
                rep.fail('C03.F1', key, lp.where(), 'loadProfile does not assign %s for profile %s: after setProfile(%s) the member keeps whatever the object held before' % (fld['n'], p_, p_))
    if nf < 300:
        raise AnalysisBroken('C03.F1: only %d (profile, member) pairs (370+ confirmed)' % nf)
    if f1_failed:
        rep.note('C03.P1 and the other rules were not evaluated: the profile read from loadProfile is incomplete (C03.F1)')
        return
    # ------------------------------------------------------------------ P
    rep.rule('C03.P1', 'for every profile, parent operator, side and child class: if the generator adds no parentheses, the root operator of the child\'s emitted text does not need them under the target language\'s precedence rules (and no `--` is produced in C)')
    n = 0
    for prof, xk, tok, side, yk, bad, glue, line in paren_check.obligations(F):
        n += 1
        ybase = yk.replace('~-', '')
        if glue:
            rep.fail('C03.P1', '%s|%s|%s|%s|glue' % (prof, xk, side, yk), '%s/src/generator.cpp:%s' % (F.root, line),
                     'profile %s: `%s` is written directly in front of an unparenthesised %s operand whose text starts with `-`: the C text contains `--`' % (prof, tok, ybase))
        if bad:
            rep.fail('C03.P1', '%s|%s|%s|%s' % (prof, xk, side, ybase), '%s/src/generator.cpp:%s' % (F.root, line),
                     'profile %s: a %s child whose emitted text has root operator %s is placed as the %s operand of `%s` (%s) without parentheses: the target language re-associates the expression' % (prof, ybase, bad, side, tok, xk))
        if not bad and not glue:
            rep.ok('C03.P1', '%s|%s|%s|%s' % (prof, xk, side, yk), None, 'parenthesised or binding tightly enough')
    if n < 2000:
        raise AnalysisBroken('C03.P1: only %d obligations enumerated (3000+ confirmed)' % n)

    # ------------------------------------------------------------------ D
    rep.rule('C03.D1', 'generateCode has a case for every AnalyserEquationAst::Type enumerator (NAN is the default), and each case emits through the profile string of the same stem')
    gc = F.fn1('Generator::GeneratorImpl::generateCode')
    sw = [s for s in gc.walk() if s.get('k') == 'Switch' and 'type()' in render(role(s, 'cond'))]
    if not sw:
        raise AnalysisBroken('generateCode switch vanished')
    labels = {}
    for c in walk(sw[0]):
        if c.get('k') == 'Case':
            labels[label_enum(c)] = c
    types = [e['n'] for e in F.enum('libcellml::AnalyserEquationAst::Type')['enumerators']]
    for t in types:
        if t == 'NAN':
            rep.exempt('C03.D1', 'case|NAN', 'handled by the default label (nanString)')
            continue
        rep.check(t in labels, 'C03.D1', 'case|' + t, gc.where(), 'generateCode has no case for AST type %s: such a node generates nothing (or NaN)' % t, 'case present')
    SPECIAL = {'EQUALITY': 'equality', 'ABS': 'absoluteValue', 'EXP': 'exponential', 'LN': 'naturalLogarithm', 'LOG': 'commonLogarithm', 'ROOT': 'squareRoot', 'POWER': 'power', 'CI': None, 'CN': None, 'DIFF': None,
               'DEGREE': None, 'LOGBASE': None, 'BVAR': None, 'PIECEWISE': None, 'PIECE': None, 'OTHERWISE': None, 'E': 'e', 'NOT': 'not', 'INF': 'inf', 'PI': 'pi', 'TRUE': 'true', 'FALSE': 'false'}
    for c in gc.walk():
        if c.get('k') == 'Call' and c.get('mc') and c.get('fn', '').endswith('String') and render(c['c'][0]).endswith('mProfile'):
            sw_, ls = case_labels_reaching(gc, c)
            if sw_ is not sw[0] or not ls:
                continue
            ts = [label_enum(l) for l in ls]
            for t in ts:
                want = SPECIAL.get(t, t.lower()) if t in SPECIAL else t.lower()
                if want is None:
                    continue
                stem = c['fn'][:-6]
                if stem in ('nan', 'squareRoot', 'square', 'divide', 'power', 'conditionalOperatorIf', 'conditionalOperatorElse', 'piecewiseIf', 'piecewiseElse', 'indent'):
                    continue
                if t == 'LOG' and stem == 'naturalLogarithm':
                    continue   # log with an explicit base is emitted as ln(x)/ln(base)
                rep.check(stem.lower() == want.lower(), 'C03.D1', 'string|%s|%s' % (t, c['fn']), gc.where(c), 'case %s emits through mProfile->%s()' % (t, c['fn']), 'stem matches')

    # ------------------------------------------------------------------ S
    rep.rule('C03.S1', 'the scaling factor applied by the analyser and by the generator is Units::scalingFactor of the variable\'s units over its primary variable\'s units')
    for nm in ('Analyser::AnalyserImpl::scalingFactor', 'Generator::GeneratorImpl::scalingFactor'):
        f = F.fn1(nm)
        us = [c for c in f.walk() if c.get('k') == 'Call' and c.get('callee') == 'libcellml::Units::scalingFactor']
        rep.check(len(us) == 1 and len(us[0]['c']) >= 2 and all('units()' in render(a) for a in us[0]['c'][:2]) and render(us[0]['c'][0]) != render(us[0]['c'][1]), 'C03.S1', nm.split('::')[0], f.where(),
                  '%s does not derive the factor from Units::scalingFactor(units, units)' % nm, 'Units::scalingFactor(%s)' % ', '.join(render(a) for a in us[0]['c'][:2]) if us else '')
    rep.rule('C03.S2', 'scaleEquationAst scales every CI node except the computed variable (left child of EQUALITY) and the variable of integration (child of BVAR): the guard is true for a variable that is the whole right-hand side')
    se = F.fn1('Analyser::AnalyserImpl::scaleEquationAst')
    sc = [c for c in se.walk() if c.get('k') == 'Call' and c.get('fn') == 'scaleAst' and render(nth_arg(c, 0)) == 'ast']
    if len(sc) != 1:
        raise AnalysisBroken('scaleEquationAst: scaleAst(ast, ...) call not found')
    guard = None

    def local_init(e):
        """initialiser of a bool local that is assigned once (a named sub-condition)"""
        if e.get('k') == 'Ref' and e.get('dk') == 'local':
            inits = [v['c'][0] for v in se.walk() if v.get('k') == 'Var' and v.get('d') == e['d'] and v.get('c')]
            writes = [x for x in se.walk() if x.get('k') in ('Bin', 'CAssign') and x.get('c') and x['c'][0].get('k') == 'Ref' and x['c'][0].get('d') == e['d'] and (x.get('k') == 'CAssign' or x.get('op') == '=')]
            if len(inits) == 1 and not writes:
                return inits[0]
        return None

    def full_text(cnd):
        t = render(cnd)
        for x in walk(cnd):
            i_ = local_init(x)
            if i_ is not None:
                t += ' ' + full_text(i_)
        return t
    for cnd, br, st in enclosing_conditions(se, sc[0]):
        if 'EQUALITY' in full_text(cnd) or 'BVAR' in full_text(cnd):
            guard = (cnd, br)
    if guard is None:
        raise AnalysisBroken('scaleEquationAst: guard on the parent type vanished')

    from engines import single_def as _sd03

    def unalias(x, dp=0):
        """a local that merely names the pimpl of a node (`auto *p = n->mPimpl;`, defined once) is spelled out"""
        if x.get('k') == 'Ref' and x.get('dk') == 'local' and dp < 3 and (x.get('t') or '').endswith('Impl *'):
            i_ = _sd03(se, x.get('d'))
            if i_ is not None and render(i_).endswith('->mPimpl'):
                return unalias(i_, dp + 1)
        if not x.get('c'):
            return x
        y = dict(x)
        y['c'] = [unalias(c_, dp) for c_ in x['c']]
        return y

    def val(e, ptype, is_left):
        k = e.get('k')
        c = e.get('c', [])
        if k == 'Bin' and e.get('op') in ('&&', '||'):
            a, b = val(c[0], ptype, is_left), val(c[1], ptype, is_left)
            return (a and b) if e['op'] == '&&' else (a or b)
        if k == 'Un' and e.get('op') == '!':
            return not val(c[0], ptype, is_left)
        if k in ('Paren', 'Cast', 'Construct') and len(c) == 1:
            return val(c[0], ptype, is_left)
        if local_init(e) is not None:
            return val(local_init(e), ptype, is_left)
        t = render(unalias(e))
        m = re.match(r'astParent->mPimpl->mType (==|!=) libcellml::AnalyserEquationAst::Type::(\w+)$', t)
        if m:
            return (ptype == m.group(2)) == (m.group(1) == '==')
        if t in ('astParent->mPimpl->mOwnedLeftChild != ast', 'ast != astParent->mPimpl->mOwnedLeftChild'):
            return not is_left
        if t in ('astParent->mPimpl->mOwnedLeftChild == ast', 'ast == astParent->mPimpl->mOwnedLeftChild'):
            return is_left
        raise AnalysisBroken('scaleEquationAst guard: cannot interpret `%s`' % t[:60])
    for ptype, is_left, want, what in (('EQUALITY', True, False, 'the computed variable (left of the equation) is not scaled'), ('EQUALITY', False, True, 'a variable that is the whole right-hand side is scaled'),
                                       ('BVAR', True, False, 'the variable of integration under bvar is not scaled'), ('PLUS', True, True, 'a variable inside an expression is scaled'), ('PLUS', False, True, 'a variable inside an expression is scaled')):
        v = val(guard[0], ptype, is_left)
        v = v if guard[1] == 'then' else (not v)
        rep.check(v == want, 'C03.S2', 'parent=%s|%s' % (ptype, 'left' if is_left else 'right'), se.where(sc[0]),
                  'for a CI node that is the %s child of %s the scaling guard is %s, but %s' % ('left' if is_left else 'right', ptype, v, what), what)

    # ------------------------------------------------------------------ S3: direction of the factor
    rep.rule('C03.S3', 'direction of unit scaling: with s = Units::scalingFactor(units of the variable used, units of its primary variable), a variable that is read is multiplied by s, a computed rate by the s of its variable of integration, '
                       'a rate that is read by 1/s of its variable of integration, and an initialising variable by 1/s; the power of s is evaluated symbolically through scalingFactor(), the call-site expression and scaleAst()')

    def summary_sign(nm):
        f = F.fn1(nm)
        us = [c for c in f.walk() if c.get('k') == 'Call' and c.get('callee') == 'libcellml::Units::scalingFactor']
        if len(us) != 1 or not f.params:
            raise AnalysisBroken('%s: Units::scalingFactor call vanished' % nm)
        pn = f.params[0]['n'] if isinstance(f.params[0], dict) else f.params[0]
        a0, a1 = render(us[0]['c'][0]), render(us[0]['c'][1])
        own = lambda t: t == '%s->units()' % pn
        if own(a0) and not own(a1):
            return 1, us[0]
        if own(a1) and not own(a0):
            return -1, us[0]
        if own(a0) and own(a1):
            return 0, us[0]     # degenerate: reported by C03.S1
        raise AnalysisBroken('%s: cannot tell which argument of Units::scalingFactor is the variable itself (%s, %s)' % (nm, a0, a1))

    def sign(e, base):
        k = e.get('k')
        c = e.get('c', [])
        if k in ('Paren', 'Cast', 'Construct') and len(c) == 1:
            return sign(c[0], base)
        if k == 'Ref' and e.get('n') == 'scalingFactor':
            return base
        if k == 'Bin' and e.get('op') == '/' and render(c[0]) in ('1.0', '1'):
            return -sign(c[1], base)
        raise AnalysisBroken('C03.S3: cannot evaluate the power of the scaling factor in `%s`' % render(e)[:60])

    a_sign, a_site = summary_sign('Analyser::AnalyserImpl::scalingFactor')
    g_sign, g_site = summary_sign('Generator::GeneratorImpl::scalingFactor')
    sa = F.fn1('Analyser::AnalyserImpl::scaleAst')
    pops = [c for c in sa.walk() if c.get('k') == 'Call' and c.get('fn') == 'populate']
    types_ = [render(nth_arg(c, 0)).split('::')[-1] for c in pops]
    cn = [c for c in pops if render(nth_arg(c, 0)).endswith('::CN')]
    if sorted(types_) != ['CN', 'TIMES'] or len(cn) != 1 or 'scalingFactor' not in render(nth_arg(cn[0], 1)):
        raise AnalysisBroken('scaleAst: no longer `TIMES(CN(scalingFactor), ast)` (node types %s)' % types_)
    cnv = nth_arg(cn[0], 1)
    inner = [x for x in walk(cnv) if x.get('k') == 'Call' and x.get('fn') == 'convertToString']
    sa_sign = sign(nth_arg(inner[0], 0), 1) if inner else sign(cnv, 1)
    calls = [c for c in se.walk() if c.get('k') == 'Call' and c.get('fn') == 'scaleAst']
    if len(calls) != 4:
        raise AnalysisBroken('scaleEquationAst: %d scaleAst call sites (4 confirmed)' % len(calls))
    seen = set()
    for c in calls:
        conds = [(render(unalias(cnd)), br) for cnd, br, st in enclosing_conditions(se, c)]
        voi = any('astGrandparent' in t for t, br in conds)
        if voi:
            gp = [br for t, br in conds if 'astGrandparent->mPimpl->mType == libcellml::AnalyserEquationAst::Type::EQUALITY' in t]
            if not gp:
                raise AnalysisBroken('scaleEquationAst: rate scaling no longer distinguishes computed/used by the grandparent type')
            inst, want = ('rate-computed', 1) if gp[0] == 'then' else ('rate-used', -1)
        else:
            d = [br for t, br in conds if t == 'astParent->mPimpl->mType == libcellml::AnalyserEquationAst::Type::DIFF']
            inst, want = ('state-under-diff' if d and d[0] == 'then' else 'variable-read'), 1
        seen.add(inst)
        got = a_sign * sa_sign * sign(nth_arg(c, 2), 1)
        if a_sign == 0:
            continue
        rep.check(got == want, 'C03.S3', 'analyser|' + inst, se.where(c), '%s: the expression is multiplied by s^%+d, the equations require s^%+d (s = Units::scalingFactor(used variable, primary variable))' % (inst, got, want), 's^%+d' % want)
    if len(seen) != 4:
        raise AnalysisBroken('scaleEquationAst: scaleAst call sites classify as %s' % sorted(seen))
    gi = F.fn1('Generator::GeneratorImpl::generateInitialisationCode')
    cv = [c for c in gi.walk() if c.get('k') == 'Call' and c.get('fn') == 'convertToString']
    if len(cv) != 1:
        raise AnalysisBroken('generateInitialisationCode: convertToString(scaling factor) vanished')
    got = g_sign * sign(nth_arg(cv[0], 0), 1)
    # ... for EVERY kind of variable that has an initialising variable (states, but also the initial guess of an algebraic variable solved by an NLA system):
    # the factor is Generator::scalingFactor(initialising variable) itself, not an expression that substitutes a constant for some variable types
    from engines import single_def as _sd3
    srcs = []
    for r_ in walk(nth_arg(cv[0], 0)):
        if r_.get('k') == 'Ref' and r_.get('dk') == 'local':
            i_ = _sd3(gi, r_.get('d'))
            while i_ is not None and i_.get('k') in ('Paren', 'Cast', 'Temp', 'Bind') and len(i_.get('c', [])) == 1:
                i_ = i_['c'][0]
            srcs.append((r_, i_))
    direct = [i_ for r_, i_ in srcs if i_ is not None and i_.get('k') == 'Call' and i_.get('fn') == 'scalingFactor']
    cond_on_type = [render(cnd)[:60] for c_ in direct for cnd, br, st in enclosing_conditions(gi, c_)] + [render(cnd)[:60] for cnd, br, st in enclosing_conditions(gi, cv[0]) if 'areNearlyEqual' not in render(cnd)]
    rep.check(bool(direct) and len(direct) == len(srcs) and not cond_on_type, 'C03.S3', 'generator|initialising-variable|every kind of variable', gi.where(cv[0]),
              'generateInitialisationCode does not take the factor from Generator::scalingFactor(initialising variable) for every variable: `%s`%s; an initial value given in other (compatible) units is then copied unscaled for some kinds of variable' % (
                  '; '.join(render(i_)[:80] if i_ is not None else render(r_) for r_, i_ in srcs), (' under ' + ' and '.join(cond_on_type)) if cond_on_type else ''), 'scalingFactor(initialising variable), unconditionally')
    rep.check(got == -1 or g_sign == 0, 'C03.S3', 'generator|initialising-variable', gi.where(cv[0]), 'the initialising variable is multiplied by s^%+d; its value is given in its own units, so the primary variable needs s^-1' % got, 's^-1')

    # ------------------------------------------------------------------ N1: numbers written into the code keep their digits
    rep.rule('C03.N1', 'every double the library itself writes into generated code or into an equation AST (scaling factors, e, pi) is converted with convertToString(value) at full precision '
                       '(15 significant digits; the second argument is absent or true): the 6-digit stream default turns 1/60 into 0.0166667 and the generated program computes with a relative error of 1e-6')
    n_d1 = 0
    for g_ in F.funcs.values():
        if not (g_.file.endswith(('/generator.cpp', '/generatorprofile.cpp')) or g_.name in ('scaleAst', 'scaleEquationAst')):
            continue
        for c in g_.walk():
            if c.get('k') == 'Call' and c.get('fn') == 'convertToString' and not c.get('mc') and 'double' in (c.get('ck') or ''):
                n_d1 += 1
                from engines import value_of as _vo3
                a1 = nth_arg(c, 1)
                a1 = _vo3(g_, a1) if a1 is not None else None
                full = a1 is None or a1.get('k') == 'DefArg' or (a1.get('k') == 'Bool' and a1.get('v'))
                rep.check(full, 'C03.N1', '%s|%s' % (g_.short.split('::')[-1], render(c)[:50]), g_.where(c), '%s writes `%s` with the stream default of 6 significant digits (fullPrecision = %s)' % (g_.short, render(nth_arg(c, 0))[:40], render(a1) if a1 is not None else '?'), 'full precision')
    if n_d1 < 5:
        raise AnalysisBroken('C03.N1: only %d conversions of doubles into code found (6 confirmed: generateInitialisationCode, scaleAst, e and pi of both profiles)' % n_d1)

    # ------------------------------------------------------------------ S4: the AST the analyser scales is the AST it builds
    rep.rule('C03.S4', 'the fields through which scaleEquationAst walks an equation (children of AnalyserEquationAstImpl) are the fields through which analyser.cpp links a child into an AST: '
                       'a subtree attached through another field (the non-owning public setters) is never visited, so the variables in it are not scaled')
    import fields as _fields
    trav = {m['n'] for c in se.walk() if c.get('k') == 'Call' and se.key in F.callee_keys(c) for m in walk(c) if m.get('k') == 'Member' and m.get('field') and 'Child' in m.get('n', '')}
    if not trav:
        raise AnalysisBroken('scaleEquationAst: recursion through child fields not found')
    n_link = 0
    from engines import is_write_context
    for g in F.funcs.values():
        if not g.file.endswith('/analyser.cpp'):
            continue
        for m in g.walk():
            if m.get('k') == 'Member' and m.get('field') and 'Child' in m.get('n', '') and 'AnalyserEquationAstImpl' in (m.get('q') or '') and is_write_context(g, m):
                n_link += 1
                rep.check(m['n'] in trav, 'C03.S4', '%s|%s' % (g.short.split('::')[-1], m['n']), g.where(m), '%s links a child through %s, but scaleEquationAst only walks %s' % (g.short, m['n'], sorted(trav)), 'walked field')
            if m.get('k') == 'Call' and m.get('mc') and m.get('callee') in ('libcellml::AnalyserEquationAst::setLeftChild', 'libcellml::AnalyserEquationAst::setRightChild'):
                callee = F.funcs.get(m.get('ck'))
                w = _fields.this_writes(F, callee) if callee is not None else set()
                n_link += 1
                rep.check(bool(w) and w <= trav, 'C03.S4', '%s|%s' % (g.short.split('::')[-1], render(m)[:40]), g.where(m),
                          '%s links a child with `%s`, which writes %s; scaleEquationAst only walks %s: variables below that child are never scaled' % (g.short, render(m)[:50], sorted(w), sorted(trav)), 'walked field')
    if n_link < 6:
        raise AnalysisBroken('C03.S4: only %d AST links found in analyser.cpp (8 confirmed)' % n_link)

    # ------------------------------------------------------------------ L: which side holds the unknown
    rep.rule('C03.L1', 'the analyser turns an equation round (swapLeftAndRightChildren) exactly when its right-hand side IS its unknown: the variable itself for a non-ODE equation, the derivative of the state for an ODE; '
                       'decided by evaluating the swap condition (through variableOnRhs/variableOnLhsRhs) on the abstract cases (equation type) x (shape of the right-hand side)')
    am = F.fn1('Analyser::AnalyserImpl::analyseModel')
    sw_calls = [c for c in am.walk() if c.get('k') == 'Call' and c.get('fn') == 'swapLeftAndRightChildren']
    if len(sw_calls) != 1:
        raise AnalysisBroken('analyseModel: swapLeftAndRightChildren call vanished (%d)' % len(sw_calls))
    from engines import single_def as _sd3

    def _expanded(cnd):
        out = [cnd]
        for x in walk(cnd):
            if x.get('k') == 'Ref' and x.get('dk') == 'local':
                i_ = _sd3(am, x.get('d'))
                if i_ is not None:
                    out += _expanded(i_)
        return out
    conds = [cnd for cnd, br, st in enclosing_conditions(am, sw_calls[0]) if br == 'then' and any(x.get('k') == 'Call' and (x.get('fn', '').startswith('variableOn') or x.get('fn') == 'rightChild') for e_ in _expanded(cnd) for x in walk(e_))]
    if len(conds) != 1:
        raise AnalysisBroken('analyseModel: the condition of the swap was not found (it consults neither variableOnRhs nor the right-hand side)')

    def ev(f, e, st, depth=0):
        k = e.get('k')
        c = e.get('c', [])
        if depth > 8:
            raise AnalysisBroken('C03.L1: condition too deep')
        if k in ('Paren', 'Cast', 'Construct') and len(c) == 1:
            return ev(f, c[0], st, depth)
        if k == 'Bool':
            return bool(e.get('v'))
        if k == 'Ref' and e.get('dk') == 'local' and _sd3(f, e.get('d')) is not None:
            return ev(f, _sd3(f, e.get('d')), st, depth + 1)
        if k == 'Cond' and len(c) == 3:
            return ev(f, c[1], st, depth + 1) if ev(f, c[0], st, depth + 1) else ev(f, c[2], st, depth + 1)
        if k == 'Bin' and e.get('op') == '&&':
            return ev(f, c[0], st, depth) and ev(f, c[1], st, depth)
        if k == 'Bin' and e.get('op') == '||':
            return ev(f, c[0], st, depth) or ev(f, c[1], st, depth)
        if k == 'Un' and e.get('op') == '!':
            return not ev(f, c[0], st, depth)
        if (k == 'Bin' and e.get('op') in ('==', '!=')) and len(c) == 2:
            en = [x for x in c if x.get('k') == 'Ref' and x.get('dk') == 'enumc']
            ot = [x for x in c if not (x.get('k') == 'Ref' and x.get('dk') == 'enumc')]
            if len(en) == 1 and len(ot) == 1:
                q = en[0].get('q', '')
                t = render(ot[0])
                if 'Equation::Type::' in q and 'Ast' not in q:      # (internal or public) equation type
                    v = (st['eq'] == 'ODE') == (en[0]['n'] == 'ODE') if en[0]['n'] == 'ODE' else None
                    if v is None:
                        raise AnalysisBroken('C03.L1: equation type compared with %s' % en[0]['n'])
                    return v if e['op'] == '==' else not v
                if 'AnalyserEquationAst::Type::' in q and t.endswith('->type()'):
                    node = 'rhs' if 'rightChild()' in t or t.startswith('astChild') else None
                    if node is None:
                        raise AnalysisBroken('C03.L1: type of an unexpected node is tested: %s' % t)
                    kind = {'CI_same': 'CI', 'DIFF_same': 'DIFF', 'DIFF_other': 'DIFF', 'other': '#'}[st['rhs']]
                    v = kind == en[0]['n']
                    return v if e['op'] == '==' else not v
        if k == 'Call' and e.get('opc') == '==' and 'name()' in render(e):
            return st['rhs'] in ('CI_same', 'DIFF_same')        # the names agree exactly in the *_same shapes
        if k == 'Call' and not e.get('opc') and e.get('fn', '').startswith('variableOn'):
            g = F.funcs.get(e.get('ck'))
            if g is None:
                raise AnalysisBroken('C03.L1: %s not resolved' % e.get('fn'))
            sws = [x for x in g.walk() if x.get('k') == 'Switch']
            if sws:
                kind = {'CI_same': 'CI', 'DIFF_same': 'DIFF', 'DIFF_other': 'DIFF', 'other': None}[st['rhs']]
                chosen = None
                dflt = None
                for cs in walk(sws[0]):
                    if cs.get('k') == 'Case' and label_enum(cs) == kind:
                        chosen = cs
                    if cs.get('k') == 'Default':
                        dflt = cs
                tgt = chosen if chosen is not None else dflt
                rets = [r for r in walk(tgt) if r.get('k') == 'Return' and r.get('c')] if tgt is not None else []
                if not rets:
                    raise AnalysisBroken('C03.L1: no return under the case for %s in %s' % (kind, g.short))
                return ev(g, rets[0]['c'][0], st, depth + 1)
            rets = [r for r in g.walk() if r.get('k') == 'Return' and r.get('c')]
            if len(rets) != 1:
                raise AnalysisBroken('C03.L1: %s has %d returns' % (g.short, len(rets)))
            # variableOnRhs(v) = variableOnLhsRhs(v, mAst->rightChild()); variableOnLhsOrRhs is not what the swap may consult
            if 'leftChild()' in render(rets[0]['c'][0]):
                raise AnalysisBroken('C03.L1: the swap consults the left-hand side')
            return ev(g, rets[0]['c'][0], st, depth + 1)
        raise AnalysisBroken('C03.L1: cannot interpret `%s`' % render(e)[:70])
    want = {('ODE', 'CI_same'): False, ('ODE', 'DIFF_same'): True, ('ODE', 'DIFF_other'): False, ('OTHER', 'CI_same'): True, ('ODE', 'other'): False, ('OTHER', 'other'): False}
    for (eqt, rhs), w in want.items():
        got = ev(am, conds[0], {'eq': eqt, 'rhs': rhs})
        what = {'CI_same': 'the variable itself', 'DIFF_same': 'the derivative of the variable', 'DIFF_other': 'the derivative of ANOTHER variable', 'other': 'something else'}[rhs]
        rep.check(got == w, 'C03.L1', '%s|rhs=%s' % (eqt, rhs), am.where(sw_calls[0]),
                  'for %s equation whose right-hand side is %s the sides are %s, but the unknown is %s' % ('an ODE' if eqt == 'ODE' else 'a non-ODE', what, 'swapped' if got else 'not swapped', 'on the left' if not w else 'on the right'),
                  'swapped' if w else 'left as written')

    # ------------------------------------------------------------------ E
    rep.rule('C03.E1', 'generateEquationCode emits every dependency of an equation before the equation itself and drops the equation from the work list before recursing')
    ge = [f for f in F.fn('Generator::GeneratorImpl::generateEquationCode') if len(f.params) == 4]
    if len(ge) != 1:
        raise AnalysisBroken('generateEquationCode/4 vanished')
    ge = ge[0]
    from faillog import _can_reach
    rec = [c for c in ge.walk() if c.get('k') == 'Call' and ge.key in F.callee_keys(c)]
    sw2 = [s for s in ge.walk() if s.get('k') == 'Switch' and 'equation->type()' in render(role(s, 'cond'))]
    er = [c for c in ge.walk() if c.get('k') == 'Call' and c.get('fn') == 'erase' and 'remainingEquations' in render(receiver(c))]
    if not rec or not sw2:
        raise AnalysisBroken('generateEquationCode: recursion / type switch not found')
    cfg = ge.cfg()
    rep.check(not [c for c in rec if _can_reach(cfg, role(sw2[0], 'cond'), c)], 'C03.E1', 'dependencies-first', ge.where(), 'a dependency can be generated after the equation\'s own code', 'all dependencies precede the equation\'s code')
    rep.check(bool(er) and all(cfg.node_dominates(er[0], c) for c in rec), 'C03.E1', 'work-list', ge.where(), 'the equation is not removed from the work list before its dependencies are generated', 'removed before recursing')


    # ------------------------------------------------------------------ H: no generator state survives between calls (clause shared with C12)
    import c12
    c12.rule_h1(F, rep, 'C03.H1', [st for st in c12.STATE if st[0] == 'Generator::GeneratorImpl'])

    # ------------------------------------------------------------------ T: the AST is a tree with consistent parent links
    rep.rule('C03.T1', 'wherever analyser.cpp links an existing node Y into a node X (X->mOwnedLeftChild/mOwnedRightChild = Y), Y is told so (Y->mParent = X, or Y was populated with parent X): scaleAst() replaces a scaled node '
                       'in ITS parent, so a node whose parent link points elsewhere makes the scaling drop what lies between (a + b + c with c scaled loses b)')
    n_t1 = 0
    for g in F.funcs.values():
        if not g.file.endswith('/analyser.cpp'):
            continue
        asg = [a for a in g.walk() if ((a.get('k') == 'Call' and a.get('opc') == '=') or (a.get('k') == 'Bin' and a.get('op') == '=')) and a.get('c') and a['c'][0].get('k') == 'Member']
        for a in asg:
            lhs, rhs = a['c'][0], a['c'][1]
            if lhs.get('n') not in ('mOwnedLeftChild', 'mOwnedRightChild'):
                continue
            r_ = rhs
            while r_.get('k') in ('Cast', 'Construct', 'Temp') and len(r_.get('c', [])) == 1:
                r_ = r_['c'][0]
            if r_.get('k') != 'Ref':
                continue    # a node created on the spot
            owner = render(lhs['c'][0]['c'][0]) if lhs.get('c') and lhs['c'][0].get('c') else None
            if owner is None:
                continue
            n_t1 += 1
            child = render(r_)
            told = [x for x in asg if x['c'][0].get('n') == 'mParent' and render(x['c'][0]).startswith(child + '->') and render(x['c'][1]) == owner]
            populated = [c_ for c_ in g.walk() if c_.get('k') == 'Call' and c_.get('fn') == 'populate' and render(c_['c'][0]).startswith(child + '->') and render(c_['c'][-1]) == owner]
            rep.check(bool(told) or bool(populated), 'C03.T1', '%s|%s' % (g.short.split('::')[-1], render(a)[:60]), g.where(a), '%s links `%s` under `%s` but never sets %s->mParent to %s' % (g.short, child, owner, child, owner), 'parent link set')
    if n_t1 < 4:
        raise AnalysisBroken('C03.T1: only %d links of existing nodes found in analyser.cpp (7 confirmed)' % n_t1)

    # ------------------------------------------------------------------ Q: late requalification of variable-based constants
    import requalify
    requalify.rule_requalify(F, rep, 'C03.Q1', 'C03.Q2')

    # ------------------------------------------------------------------ clauses shared with C08: the scaling factor itself (Units::scalingFactor is what the analyser and the generator insert)
    import core
    import c08
    if not getattr(rep, 'nested', False):
        core.borrow(F, rep, c08, only={'C08.M1', 'C08.M3'})
    # ... and with C09: the units the analyser scales from are those linkUnits() left on the variables; linkUnits() recognises stale units by their owning model,
    # so units removed from a model must lose their parent (every erase/clear of a child container clears the parent of what it removes)
    import c09
    if not getattr(rep, 'nested', False):
        core.borrow(F, rep, c09, only={'C09.P3', 'C09.P4'})
    # ... and with C17: the helper functions the generated equations call (sec, csc, ..., acsch) are defined in the generated code exactly when the model uses them;
    # a helper emitted under the flag of another one leaves a call to an undefined function in the code
    import c17
    if not getattr(rep, 'nested', False):
        core.borrow(F, rep, c17, only={'C17.N1', 'C17.N2', 'C17.N3'})
    # ... and with C20: the order in which the generated code computes things follows the equations' dependencies, which are resolved through a map with one key per variable
    import c20
    if not getattr(rep, 'nested', False):
        core.borrow(F, rep, c20, only={'C20.D1'})
