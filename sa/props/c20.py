"""C20 - external variables turn unknowns into inputs without disturbing the rest (structural clauses)."""
from facts import walk, render, role, is_call, AnalysisBroken
from engines import ff, nth_arg, receiver, enclosing_conditions
import issues
from issues import must_pass
from nullflow import nonnull_at

LEVEL = ('Rules over the external-variable handling of analyser.cpp and generator.cpp (clang AST/CFG): (L) the three external-variable diagnostics are raised as messages, never as errors; (N) null external variables / null variables are refused or skipped before use; '
         '(P) every dependency supplied by the user is translated to its primary variable before it is stored; (A) the pass counter and the NLA-mode flag of the analysis loop are advanced together; '
         '(G) generated code computes every dependency before an equation, removes the equation from the work list before recursing, and reads external values only through the callback string. '
         'Which variables become external and run-time values are not decided.')
ASSUMPTIONS = ['an ERROR-level issue would make the analysed model INVALID at the next errorCount() test (so the level of these diagnostics is behaviourally relevant)']

EXTERNAL_RULES = ('ANALYSER_EXTERNAL_VARIABLE_DIFFERENT_MODEL', 'ANALYSER_EXTERNAL_VARIABLE_VOI', 'ANALYSER_EXTERNAL_VARIABLE_USE_PRIMARY_VARIABLE')


def run(F, rep):
    import sys, os
    from facts import VERIF
    sys.path.insert(0, os.path.join(VERIF, 'sa', 'props'))
    import c15
    am = F.fn1('Analyser::AnalyserImpl::analyseModel')
    # ------------------------------------------------------------------ L
    rep.rule('C20.L1', 'issues citing ANALYSER_EXTERNAL_VARIABLE_DIFFERENT_MODEL / _VOI / _USE_PRIMARY_VARIABLE are given Level::MESSAGE on every path to addIssue')
    S = [s for s in issues.sites(F) if s.func.file.endswith('analyser.cpp')]
    seen = set()
    for s in S:
        rules = set()
        for r, rn in zip(s.rules, s.rule_nodes):
            rules |= set(c15.resolve_enums(F, s.func, rn) or [r]) if r.startswith('?') else {r}
        hit = rules & set(EXTERNAL_RULES)
        if not hit:
            continue
        seen |= hit
        lv = [c for c in s.level_nodes if nth_arg(c, 0) is not None and nth_arg(c, 0).get('n') == 'MESSAGE']
        cfg = s.func.cfg_for(s.create)
        ok = bool(lv) and all(_all_paths_pass(cfg, s.create, a, [c['i'] for c in lv]) for a in s.add_nodes)
        rep.check(ok, 'C20.L1', '%s|%s' % (s.func.name, '+'.join(sorted(hit))), s.where,
                  'the diagnostic %s can be added without Level::MESSAGE: as an error it turns the whole analysed model INVALID' % sorted(hit), 'MESSAGE on every path')
    for r in EXTERNAL_RULES:
        rep.check(r in seen, 'C20.L1', 'cited|' + r, None, 'no analyser issue cites %s any more: that misuse of an external variable is no longer reported' % r, 'reported')

    # ------------------------------------------------------------------ N
    rep.rule('C20.N1', 'Analyser::addExternalVariable refuses a null pointer; the marking loop tests externalVariable->variable() before using it')
    ae = F.fn1('libcellml::Analyser::addExternalVariable')
    pb = [c for c in ae.walk() if c.get('k') == 'Call' and c.get('fn') in ('push_back', 'emplace_back')]
    if not pb:
        raise AnalysisBroken('Analyser::addExternalVariable no longer stores the external variable')
    for c in pb:
        nn = nonnull_at(ae, c) or set()
        rep.check(ae.params[0]['n'] in nn, 'C20.N1', 'addExternalVariable|null-refused', ae.where(c), 'a null external variable is stored and dereferenced later by analyseModel', 'stored only when non-null')
    evv = [v for v in am.walk() if v.get('k') == 'Var' and v.get('c') and render(v['c'][0]).endswith('externalVariable->variable()')]
    if not evv:
        raise AnalysisBroken('marking loop: externalVariable->variable() not found')
    v0 = evv[0]
    uses = [c for c in am.walk() if c.get('k') in ('Call',) and am.enclosing_lambda(c) is None and c is not v0['c'][0] and any(x.get('k') == 'Ref' and x.get('d') == v0['d'] for x in walk(c))
            and (c.get('opc') in ('->', '*') or c.get('fn') in ('owningModel', 'owningComponent', 'internalVariable'))]
    bad = [c for c in uses if v0['n'] not in (nonnull_at(am, c) or set())]
    rep.check(bool(uses) and not bad, 'C20.N1', 'marking-loop|variable-null-tested', am.where(v0), 'externalVariable->variable() is used at line(s) %s without a null test' % sorted({c.get('l') for c in bad}), '%d uses after the null test' % len(uses))

    # ------------------------------------------------------------------ P
    rep.rule('C20.P1', 'external variables are grouped by the primary variable of their equivalence class. (Until repair be580a6 this rule also demanded that every declared dependency be translated to its primary variable when it is '
                       'STORED; the dependencies are now resolved by class where they are USED - rule C20.D3 - so how they are stored no longer matters, and demanding it would report a change that leaves the behaviour unchanged: seed C20-1.)')
    from engines import element_visits
    loops = list(element_visits(am, 'externalVariable->dependencies()'))
    if not loops:
        raise AnalysisBroken('marking loop over externalVariable->dependencies() vanished')
    key_ix = [c for c in am.walk() if c.get('k') == 'Call' and c.get('opc') == '[]' and render(c['c'][0]) == 'primaryExternalVariables']
    rep.check(bool(key_ix) and all(render(c['c'][1]).endswith('->mVariable') for c in key_ix), 'C20.P1', 'primary-key', am.where(), 'external variables are not grouped by their primary variable', 'grouped by internalVariable->mVariable')

    # ------------------------------------------------------------------ A
    rep.rule('C20.A1', 'in the analysis loop every advance of the pass counter is paired (same path, before the next pass) with an assignment of the NLA-mode flag handed to AnalyserInternalEquation::check')
    chk = [c for c in am.walk() if c.get('k') == 'Call' and c.get('fn') == 'check' and len(c.get('c', [])) == 5]
    if not chk:
        raise AnalysisBroken('analysis loop: check(...) call not found')
    flag = chk[0]['c'][4]
    dl = [a for a in am.ancestors(chk[0]) if a.get('k') == 'Do']
    if flag.get('k') != 'Ref' or not dl:
        raise AnalysisBroken('analysis loop shape changed')
    incs = [u for u in walk(dl[0]) if u.get('k') == 'Un' and u.get('op') == '++' and u['c'][0].get('k') == 'Ref' and u['c'][0].get('t') == 'int']
    if len(incs) < 2:
        raise AnalysisBroken('pass counter increments: %d found, 2 confirmed' % len(incs))
    sets = [b for b in walk(dl[0]) if b.get('k') == 'Bin' and b.get('op') == '=' and b['c'][0].get('k') == 'Ref' and b['c'][0].get('d') == flag['d']]
    cfg = am.cfg()
    for j, u in enumerate(incs):
        pos = cfg.block_of(u)
        blk = cfg.blocks[pos[0]]
        same = [b for b in sets if cfg.block_of(b) and cfg.block_of(b)[0] == pos[0]]
        rc = ff(am).rendered_conds_at(u) or set()
        phase = sorted(c for c, t in rc if t and 'loopNumber' in c)
        rep.check(bool(same), 'C20.A1', 'pass-advance#%d|%s' % (j + 1, ';'.join(phase)[:60]), am.where(u),
                  'the pass counter is advanced without setting the NLA-mode flag: the next pass starts in the mode of the previous one (an explicit equation after a non-linear one is then swallowed by an NLA system)', 'flag set to %s with the advance' % render(same[0]['c'][1]) if same else '')

    # ------------------------------------------------------------------ G
    rep.rule('C20.G1', 'generateEquationCode emits the code of every dependency before the equation\'s own code, removes the equation (and its NLA siblings) from the work list before recursing, and an EXTERNAL equation reads its value only through externalVariableMethodCallString')
    ge = [f for f in F.fn('Generator::GeneratorImpl::generateEquationCode') if len(f.params) == 4]
    if len(ge) != 1:
        raise AnalysisBroken('generateEquationCode/4 vanished')
    ge = ge[0]
    rec = [c for c in ge.walk() if c.get('k') == 'Call' and ge.key in F.callee_keys(c)]
    deploop = [l for l in ge.walk() if l.get('k') == 'RangeFor' and render(role(l, 'range')).endswith('equation->dependencies()')]
    index_form = None
    if not deploop and rec:
        # index form: for (i = 0; i < equation->dependencyCount(); ++i) { dependency = equation->dependency(i); ... }
        for l in ge.ancestors(rec[0]):
            if l.get('k') == 'For' and role(l, 'cond') is not None:
                cnd = role(l, 'cond')
                full = cnd.get('k') == 'Bin' and cnd.get('op') in ('<', '!=') and render(cnd['c'][1]).endswith('equation->dependencyCount()')
                iv = cnd['c'][0] if full else None
                zero = iv is not None and any(v.get('k') == 'Var' and v.get('d') == iv.get('d') and v.get('c') and render(v['c'][0]) in ('0', '0U', '0UL') for v in walk(role(l, 'init') or {}))
                step = iv is not None and role(l, 'inc') is not None and role(l, 'inc').get('k') == 'Un' and role(l, 'inc').get('op') == '++'
                if iv is None and cnd.get('k') == 'Bin' and cnd['c'][0].get('k') in ('Ref', 'Cast'):
                    iv = next((x for x in walk(cnd['c'][0]) if x.get('k') == 'Ref' and x.get('dk') == 'local'), None)
                fetch = iv is not None and any(c.get('k') == 'Call' and c.get('fn') == 'dependency' and render(nth_arg(c, 0)) == render(iv) for c in walk(role(l, 'body')))
                if fetch:
                    deploop = [l]
                    index_form = (full, zero, step, render(role(l, 'init') or {})[:30], render(cnd)[:50])
                break
    sw = [s for s in ge.walk() if s.get('k') == 'Switch' and 'equation->type()' in render(role(s, 'cond'))]
    if not rec or not deploop or not sw:
        raise AnalysisBroken('generateEquationCode: dependency loop / type switch not found')
    gcfg = ge.cfg()
    from faillog import _can_reach
    after = [c for c in rec if _can_reach(gcfg, role(sw[0], 'cond'), c)]
    rep.check(all(any(a is deploop[0] for a in ge.ancestors(c)) for c in rec) and not after and all(_can_reach(gcfg, c, role(sw[0], 'cond')) for c in rec), 'C20.G1', 'dependencies-first', ge.where(deploop[0]),
              'the equation\'s own code is not emitted after the loop over its dependencies', 'dependency loop precedes the emission of the equation')
    early = [x for x in walk(role(deploop[0], 'body')) if x.get('k') in ('Break', 'Return')]
    bounds_ok = index_form is None or all(index_form[:3])
    rep.check(not early and bounds_ok, 'C20.G1', 'all-dependencies', ge.where(deploop[0]),
              'the dependency loop can stop early' if early else 'the index loop over the dependencies does not run from 0 to dependencyCount() in steps of one (`%s; %s`): some dependency is never generated' % (index_form[3:] if index_form else ('', '')),
              'every dependency visited')
    er = [c for c in ge.walk() if c.get('k') == 'Call' and c.get('fn') == 'erase' and 'remainingEquations' in render(receiver(c))]
    rep.check(bool(er) and all(gcfg.node_dominates(er[0], c) for c in rec), 'C20.G1', 'removed-before-recursing', ge.where(), 'the equation is still on the work list while its dependencies are generated (mutually dependent equations recurse forever)', 'erased from remainingEquations first')
    ext_calls = [c for c in ge.walk() if c.get('k') == 'Call' and c.get('fn') == 'externalVariableMethodCallString']
    from engines import case_labels_reaching, label_enum
    okx = bool(ext_calls) and all('EXTERNAL' in {label_enum(l) for l in case_labels_reaching(ge, c)[1]} for c in ext_calls)
    rep.check(okx, 'C20.G1', 'external-through-callback', ge.where(ext_calls[0]) if ext_calls else ge.where(), 'the EXTERNAL case does not obtain the value through externalVariableMethodCallString', 'callback string used under case EXTERNAL')
    # nothing else is emitted for an EXTERNAL equation (no generateCode of an AST)
    for c in ge.walk():
        if c.get('k') == 'Call' and c.get('fn') in ('generateCode', 'generateInitialisationCode') and 'EXTERNAL' in {label_enum(l) for l in case_labels_reaching(ge, c)[1]}:
            rep.fail('C20.G1', 'external-case|%s' % c['fn'], ge.where(c), 'the EXTERNAL case also emits `%s`: the value would not come from the callback alone' % render(c)[:50])

    # ------------------------------------------------------------------ E: which variables count as external
    rep.rule('C20.E1', 'whether the analysed model has external variables (extra pass of the analysis loop, AnalyserModel::hasExternalVariables, the callback in the generated code) is derived from the internal variables of THIS model that are marked external, '
                       'not from the list of external variables registered with the analyser (which may belong to another model and are ignored with a message)')
    am = F.fn1('Analyser::AnalyserImpl::analyseModel')
    writes = [a for a in am.walk() if a.get('k') == 'Bin' and a.get('op') == '=' and render(a['c'][0]).endswith('mHasExternalVariables')]
    if len(writes) != 1:
        raise AnalysisBroken('analyseModel: assignment of mHasExternalVariables vanished (%d)' % len(writes))
    src = writes[0]['c'][1]
    exprs = [src]
    if src.get('k') == 'Ref' and src.get('dk') == 'local':
        exprs = [v['c'][0] for v in am.walk() if v.get('k') == 'Var' and v.get('d') == src['d'] and v.get('c')]
    txt = ' '.join(render(e) for e in exprs)
    from engines import walk_pred as _wp20
    members = {m['n'] for e in exprs for m in _wp20(F, e) if m.get('k') == 'Member' and m.get('field')}
    names = members | {m.get('n') for e in exprs for m in _wp20(F, e) if m.get('k') in ('DepMember', 'Member') and m.get('n')}
    if 'mIsExternal' in txt:
        names.add('mIsExternal')
    members = names
    rep.check('mInternalVariables' in members and 'mIsExternal' in members and 'mExternalVariables' not in members, 'C20.E1', 'hasExternalVariables', am.where(writes[0]),
              'hasExternalVariables is computed from %s' % sorted(members), 'some internal variable of this model has mIsExternal')

    rep.rule('C20.V1', 'a variable that is reported as not usable as an external variable (the variable of integration) is unmarked on that path: the branch that cites ANALYSER_EXTERNAL_VARIABLE_VOI clears mIsExternal, '
                       'otherwise it is published as an EXTERNAL variable next to being the variable of integration')
    cites = [a for a in am.walk() if a.get('k') == 'Bin' and a.get('op') == '=' and any(x.get('k') == 'Ref' and x.get('n') == 'ANALYSER_EXTERNAL_VARIABLE_VOI' for x in walk(a['c'][1]))]
    if len(cites) != 1:
        raise AnalysisBroken('analyseModel: citation of ANALYSER_EXTERNAL_VARIABLE_VOI vanished (%d)' % len(cites))
    br = None
    for anc in am.ancestors(cites[0]):
        if anc.get('k') == 'If' and 'isVoi' in render(role(anc, 'cond')) and any(x is cites[0] for x in walk(role(anc, 'then') or {})):
            br = role(anc, 'then')
            break
    if br is None:
        raise AnalysisBroken('analyseModel: the branch of the variable of integration vanished')
    clears = [a for a in walk(br) if a.get('k') == 'Bin' and a.get('op') == '=' and render(a['c'][0]).endswith('mIsExternal') and a['c'][1].get('k') == 'Bool' and not a['c'][1].get('v')]
    rep.check(bool(clears), 'C20.V1', 'voi-unmarked', am.where(cites[0]), 'the variable of integration is reported as unusable but stays marked external', 'mIsExternal cleared in the same branch')
    # the clearing is unconditional within that branch: whichever member of the class was marked, it is the class' internal variable that carries the flag
    for a in clears:
        inner = []
        for anc in am.ancestors(a):
            if anc is br:
                break
            if anc.get('k') in ('If', 'For', 'While', 'Do', 'RangeFor', 'Switch', 'Cond') or (anc.get('k') == 'Bin' and anc.get('op') in ('&&', '||')):
                inner.append(anc)
        rep.check(not inner, 'C20.V1', 'voi-unmarked-unconditionally', am.where(a),
                  'the clearing of mIsExternal in the branch of the variable of integration is itself conditional (`%s`): when the condition is false the variable of integration stays published as an EXTERNAL variable although the message says it cannot be one'
                  % (render(role(inner[0], 'cond'))[:60] if inner and role(inner[0], 'cond') is not None else (inner[0].get('k') if inner else '')), 'cleared on every path through the branch')

    rep.rule('C20.F1', 'a variable of another model that is registered as external is ignored, not analysed: in the marking loop every internalVariable(...) call (which creates and registers an internal variable when none exists) is dominated by the test that the variable belongs to the model being analysed')
    mloops = [l for l in am.walk() if l.get('k') == 'RangeFor' and render(role(l, 'range')).endswith('mExternalVariables')]
    if not mloops:
        raise AnalysisBroken('marking loop over mExternalVariables vanished')
    ivc = [c for c in walk(role(mloops[0], 'body')) if c.get('k') == 'Call' and c.get('fn') == 'internalVariable']
    if not ivc:
        raise AnalysisBroken('marking loop: no internalVariable(...) call')
    vname = v0['n']
    for c in ivc:
        rc = ff(am).rendered_conds_at(c) or set()
        same = any((t is False and cnd.replace(' ', '') in ('owningModel(%s)!=model' % vname, 'model!=owningModel(%s)' % vname))
                   or (t is True and cnd.replace(' ', '') in ('owningModel(%s)==model' % vname, 'model==owningModel(%s)' % vname)) for cnd, t in rc)
        rep.check(same, 'C20.F1', 'same-model-before|%s' % render(c)[:50], am.where(c),
                  '`%s` is evaluated before / without the test owningModel(%s) == model: for a variable of another model it registers a new internal variable in the model being analysed (an extra constant, or an "unknown type" error), although the message says the variable is ignored'
                  % (render(c)[:50], vname), 'only for variables of the analysed model')

    rep.rule('C20.G2', 'inside Analyser::AnalyserImpl::analyseModel the analysis stops early only on errors: every gate that ends the analysis tests errorCount(); a gate on issueCount()/messageCount()/warningCount() would let the MESSAGE about an ignored or '
                       'misused external variable turn a valid model INVALID')
    gates = [c for c in am.walk() if c.get('k') == 'Call' and c.get('mc') and c.get('fn') in ('errorCount', 'issueCount', 'messageCount', 'warningCount') and am.enclosing_lambda(c) is None
             and any(a.get('k') == 'If' and any(y is c for y in walk(role(a, 'cond') or {})) for a in am.ancestors(c))]
    if len(gates) < 4:
        raise AnalysisBroken('analyseModel: only %d gates on the issue counts found (4 confirmed)' % len(gates))
    for j_, c in enumerate(gates):
        rep.check(c['fn'] == 'errorCount', 'C20.G2', 'gate#%d|%s' % (j_ + 1, c['fn']), am.where(c), 'analyseModel stops when `%s` is non-zero: messages and warnings (e.g. "marked as an external variable, but it belongs to a different model and will therefore be ignored") end the analysis with an INVALID model' % render(c)[:40],
                  'errorCount()')

    rep.rule('C20.N2', 'NLA equations are tied into one system by the unknowns they share AFTER the external variables have been taken out of their unknowns (and an equation left without unknowns has been discarded): '
                       'within one pass over the equations the pruning of mUnknownVariables by isExternalVariable precedes the detection of NLA siblings, otherwise two equations that share only an external variable form one overconstrained system')
    prunes = [c for c in am.walk() if c.get('k') == 'Call' and c.get('fn') == 'erase' and 'mUnknownVariables' in render(receiver(c)) and any(x.get('k') == 'Ref' and x.get('n') == 'isExternalVariable' for x in walk(c))]
    sibs = [c for c in am.walk() if c.get('k') == 'Call' and c.get('fn') in ('push_back', 'emplace_back') and 'mNlaSiblings' in render(receiver(c))]
    if not prunes or not sibs:
        raise AnalysisBroken('analyseModel: pruning of external unknowns (%d) / NLA sibling detection (%d) not found' % (len(prunes), len(sibs)))
    for pr in prunes:
        loop = next((a for a in am.ancestors(pr) if a.get('k') in ('RangeFor', 'For') and any(any(y is sb for y in walk(a)) for sb in sibs)), None)
        if loop is None:
            # different loops: the pruning loop must come first
            ok_ = all(pr.get('l', 0) < sb.get('l', 0) for sb in sibs)
            rep.check(ok_, 'C20.N2', 'prune-before-siblings', am.where(pr), 'external unknowns are pruned after the NLA siblings were determined', 'pruned in an earlier loop')
            continue
        body = role(loop, 'body')
        items = body.get('c', []) if body.get('k') == 'Compound' else [body]
        ip = next((k_ for k_, it in enumerate(items) if any(y is pr for y in walk(it))), None)
        isb = min((k_ for k_, it in enumerate(items) for sb in sibs if any(y is sb for y in walk(it))), default=None)
        rep.check(ip is not None and isb is not None and ip < isb, 'C20.N2', 'prune-before-siblings', am.where(pr),
                  'in the pass over the equations the external variables are removed from mUnknownVariables (statement %s of the loop body) after the NLA siblings are determined (statement %s): equations that share only an external variable are tied into one NLA system' % (ip, isb),
                  'pruned (statement %s) before sibling detection (statement %s)' % (ip, isb))

    rep.rule('C20.G3', 'inside the loop over the dependencies of an equation, whether a dependency is generated first is decided from the dependency and from what the caller asked for, not from properties of the equation that depends on it '
                       '(an equation that is not recomputed itself - a constant-like one - may still depend on an external variable whose callback must come first)')
    from engines import single_def as _sd20, enclosing_conditions as _ec20

    def _strip20(e):
        while e is not None and e.get('k') in ('Paren', 'Cast', 'Construct', 'Temp', 'Bind') and len(e.get('c', [])) == 1:
            e = e['c'][0]
        return e
    for c in rec:
        atoms = []
        for cnd, br, st in _ec20(ge, c):
            if any(a is deploop[0] for a in ge.ancestors(st)):
                atoms.append(cnd)
        bad_ = []
        eq_d = ge.params[0]['d']
        # index form of the loop: the local that holds the i-th dependency IS the loop element, not a property of the dependent equation
        elem_ = {v['d'] for v in walk(role(deploop[0], 'body')) if v.get('k') == 'Var' and v.get('c') and any(x.get('k') == 'Call' and x.get('fn') == 'dependency' and x is _strip20(v['c'][0]) for x in walk(v['c'][0]))}
        for cnd in atoms:
            todo = [cnd]
            seen_ = set()
            while todo:
                e_ = todo.pop()
                for x in walk(e_):
                    if x.get('k') == 'Ref' and x.get('d') == eq_d:
                        bad_.append(render(cnd)[:80])
                    if x.get('k') == 'Ref' and x.get('dk') == 'local' and x['d'] not in seen_ and x['d'] not in elem_ and _sd20(ge, x['d']) is not None:
                        seen_.add(x['d'])
                        todo.append(_sd20(ge, x['d']))
        rep.check(not bad_, 'C20.G3', 'dependency-decision|%s' % render(c)[:40], ge.where(c), 'the generation of a dependency depends on the dependent equation itself: `%s`' % (bad_[0] if bad_ else ''), 'decided from the dependency')

    # S1: the profile strings that exist in two versions (selected by a bool / two bools) are read and written through the same selection
    rep.rule('C20.S1', 'every GeneratorProfile string that exists in several versions (for differential / algebraic models, with / without external variables) is written by its setter into the very member its getter returns '
                       'for the same selector values: decided by evaluating getter and setter for every combination of their bool parameters. A setter with the two slots the wrong way round customises the callback call of the '
                       'other kind of model: ODE code keeps a call that no longer matches the customised typedef')
    import itertools as _it20

    def _sel_member(g_, env, want):
        """the member of the profile read (want='ret') or written (want='set') by g_ when its bool parameters have the values env"""
        def truth(e):
            while e.get('k') in ('Paren', 'Cast') and len(e.get('c', [])) == 1:
                e = e['c'][0]
            if e.get('k') == 'Ref' and e.get('dk') == 'parm' and e.get('n') in env:
                return env[e['n']]
            if e.get('k') == 'Un' and e.get('op') == '!':
                v = truth(e['c'][0])
                return None if v is None else (not v)
            if e.get('k') == 'Bin' and e.get('op') in ('&&', '||'):
                a, b = truth(e['c'][0]), truth(e['c'][1])
                if a is None or b is None:
                    return None
                return (a and b) if e['op'] == '&&' else (a or b)
            return None

        def member_of(e):
            while e is not None and e.get('k') in ('Paren', 'Cast', 'Temp', 'Bind', 'Construct') and len(e.get('c', [])) == 1:
                e = e['c'][0]
            if e is None:
                return None
            if e.get('k') == 'Cond' and len(e.get('c', [])) == 3:
                v = truth(e['c'][0])
                return None if v is None else member_of(e['c'][1] if v else e['c'][2])
            if e.get('k') == 'Member' and e.get('field'):
                return e.get('n')
            return None

        def run_(s_):
            k_ = s_.get('k')
            if k_ == 'Compound':
                for c_ in s_.get('c', []):
                    r_ = run_(c_)
                    if r_ is not None:
                        return r_
                return None
            if k_ == 'If':
                v = truth(role(s_, 'cond'))
                if v is None:
                    return ('?',)
                br = role(s_, 'then') if v else role(s_, 'else')
                return run_(br) if br is not None else None
            if k_ == 'Return' and want == 'ret' and s_.get('c'):
                return ('m', member_of(s_['c'][0]))
            if want == 'set' and ((k_ == 'Call' and s_.get('opc') == '=') or (k_ == 'Bin' and s_.get('op') == '=')) and s_.get('c'):
                return ('m', member_of(s_['c'][0]))
            return None
        r_ = run_(g_.body) if g_.body is not None else None
        return r_[1] if r_ and r_[0] == 'm' else None
    n_s1 = 0
    gp_funcs = [g_ for g_ in F.funcs.values() if g_.cls == 'libcellml::GeneratorProfile']
    for st in gp_funcs:
        if not st.name.startswith('set') or not st.name.endswith('String'):
            continue
        bools = [p_['n'] for p_ in st.params if p_['t'] == 'bool']
        if not bools:
            continue
        gname = st.name[3].lower() + st.name[4:]
        gt = [g_ for g_ in gp_funcs if g_.name == gname and [p_['t'] for p_ in g_.params] == ['bool'] * len(bools)]
        if len(gt) != 1:
            continue
        gbools = [p_['n'] for p_ in gt[0].params]
        for vals in _it20.product((False, True), repeat=len(bools)):
            n_s1 += 1
            ms = _sel_member(st, dict(zip(bools, vals)), 'set')
            mg = _sel_member(gt[0], dict(zip(gbools, vals)), 'ret')
            if ms is None or mg is None:
                raise AnalysisBroken('C20.S1: cannot evaluate %s / %s for %s' % (st.name, gname, vals))
            rep.check(ms == mg, 'C20.S1', '%s|%s' % (st.name, ','.join(str(v).lower() for v in vals)), st.where(), '%s(%s, s) writes %s, but %s(%s) returns %s' % (st.name, ', '.join(str(v).lower() for v in vals), ms, gname, ', '.join(str(v).lower() for v in vals), mg),
                      'both use %s' % ms)
    if n_s1 < 20:
        raise AnalysisBroken('C20.S1: only %d (setter, selector values) combinations evaluated (40+ confirmed)' % n_s1)

    # the generator keeps nothing from one AnalyserModel to the next (a memo of analysed variables keyed by Variable outlives a re-analysis with other external variables)
    if not getattr(rep, 'nested', False):
        import c12 as _c12_20
        _c12_20.rule_h1(F, rep, 'C20.H1', [st for st in _c12_20.STATE if st[0] == 'Generator::GeneratorImpl'])
    _borrow_c17(F, rep)   # which models count as "has ODEs" decides whether the callback takes voi/states/rates: clause shared with C17
    rep.rule('C20.R1', 'isStateRateBased marks an equation as checked BEFORE it descends into the equation\'s dependencies (user-supplied dependencies of external variables can be cyclic: a depends on b, b on a)')
    isr = F.fn1('Analyser::AnalyserImpl::isStateRateBased')
    recs = [c for c in isr.walk() if c.get('k') == 'Call' and isr.key in F.callee_keys(c)]
    cont = [p_ for p_ in isr.params if 'std::vector<' in p_['t'] and p_['t'].rstrip().endswith('&')]
    if not recs or len(cont) != 1:
        raise AnalysisBroken('isStateRateBased: recursion / checked-equations parameter vanished')
    marks = [c for c in isr.walk() if c.get('k') == 'Call' and c.get('mc') and c.get('fn') in ('push_back', 'emplace_back', 'insert') and c['c'][0].get('k') == 'Ref' and c['c'][0].get('d') == cont[0]['d']]
    cfg_i = isr.cfg()
    for c in recs:
        rep.check(any(cfg_i.node_dominates(m_, c) for m_ in marks), 'C20.R1', 'mark-before-descend|%s' % render(c)[:40], isr.where(c), 'the recursive call is not dominated by the insertion of the current equation into %s: two equations that depend on each other recurse for ever' % cont[0]['n'], 'marked before descending')

    # ------------------------------------------------------------------ D: dependencies are resolved completely and cleaned unconditionally
    rep.rule('C20.D1', 'a dependency on a variable resolves to every equation that computes it: where analyseModel looks a dependency up in a local map, that map was filled with one key per variable, not with ONE key standing for a '
                       'collection (`unknowns.front()`): with a partial index a declared dependency on the second unknown of an NLA system is silently dropped and the external callback runs before the system is solved')
    am20 = F.fn1('Analyser::AnalyserImpl::analyseModel')
    n_d1 = 0
    for L in am20.walk():
        if L.get('k') != 'RangeFor':
            continue      # every loop of analyseModel whose body looks its element up in a local map (whatever the locals are called)
        lv = L['c'][0].get('d')
        for sub in walk(role(L, 'body')):
            if sub.get('k') == 'Call' and (sub.get('opc') == '[]' or sub.get('fn') in ('at', 'find')) and sub.get('c') and sub['c'][0].get('k') == 'Ref' and sub['c'][0].get('dk') == 'local' \
                    and 'std::map<' in (sub['c'][0].get('t') or '') and any(x.get('k') == 'Ref' and x.get('d') == lv for a_ in sub['c'][1:] for x in walk(a_)):
                md = sub['c'][0]['d']
                fills = [c for c in am20.walk() if c.get('k') == 'Call' and c.get('mc') and c.get('fn') in ('emplace', 'insert', 'try_emplace') and c['c'][0].get('k') == 'Ref' and c['c'][0].get('d') == md]
                n_d1 += 1
                partial = [render(nth_arg(c, 0))[:60] for c in fills if any(x.get('k') == 'Call' and (x.get('fn') in ('front', 'back') or (x.get('fn') == 'at' and render(nth_arg(x, 0)) == '0') or (x.get('opc') == '[]' and render(x['c'][-1]) == '0')) for x in walk(nth_arg(c, 0) or {}))]
                rep.check(bool(fills) and not partial, 'C20.D1', 'analyseModel|%s[%s]' % (sub['c'][0]['n'], render(L['c'][0])[:30] or 'dependency'), am20.where(sub),
                          'dependencies are looked up in `%s`, which is filled with the key `%s`: one element stands for the whole collection, so a dependency on any other element finds nothing' % (sub['c'][0]['n'], '`, `'.join(partial)), 'one key per variable')
    if n_d1 < 1:
        raise AnalysisBroken('C20.D1: the lookup of variable dependencies in a local map was not found in analyseModel')
    rep.rule('C20.D3', 'the dependencies declared for an external variable are recorded (AnalyserInternalVariable::mDependencies) BEFORE the equations are analysed, and the analysis re-points the variable that stands for an equivalence class to the '
                       'component of the equation that computes it (setVariable in AnalyserInternalEquation::check): wherever those recorded variables are read they are resolved again through internalVariable(...) before being '
                       'looked up - a stale representative finds no equation, the dependency is dropped and the callback is called before the variable it depends on has been computed')
    n_d3 = 0
    from engines import is_write_context as _iw20

    def _resolved(g_, node):
        return any(a_.get('k') == 'Call' and a_.get('fn') == 'internalVariable' for a_ in g_.ancestors(node))
    for g_ in F.funcs.values():
        if not g_.file.endswith('/analyser.cpp'):
            continue
        for m_ in g_.walk():
            if not (m_.get('k') == 'Member' and (m_.get('q') or '') == 'libcellml::AnalyserInternalVariable::mDependencies'):
                continue
            par = g_.parent(m_)
            while par is not None and par.get('k') in ('Paren', 'Cast'):
                par = g_.parent(par)
            reads_el = par is not None and par.get('k') == 'Call' and (par.get('opc') == '[]' or par.get('fn') in ('at', 'front', 'back'))
            if _iw20(g_, m_) and not reads_el:
                continue
            elems = []      # nodes that denote ONE recorded variable
            bulk = None
            if par is not None and par.get('k') == 'RangeFor' and any(x is m_ for x in walk(role(par, 'range'))):
                lv = par['c'][0].get('d')
                elems = [r_ for r_ in walk(role(par, 'body')) if r_.get('k') == 'Ref' and r_.get('d') == lv]
            elif reads_el:
                # the element itself, or - when it initialises a local (reference) - every use of that local
                holder = next((a_ for a_ in g_.ancestors(par) if a_.get('k') == 'Var'), None)
                through = holder is not None and all(a_.get('k') in ('Cast', 'Temp', 'Bind', 'Paren', 'Construct') for a_ in g_.ancestors(par) if a_.get('i') != holder.get('i') and any(x is a_ for x in walk(holder)))
                elems = [r_ for r_ in g_.walk() if r_.get('k') == 'Ref' and r_.get('d') == holder.get('d')] if through else [par]
            elif par is not None and par.get('k') == 'Call' and par.get('fn') in ('size', 'empty'):
                continue
            elif par is not None and par.get('k') == 'Call' and par.get('fn') in ('begin', 'end', 'cbegin', 'cend'):
                hdr = next((a_ for a_ in g_.ancestors(par) if a_.get('k') == 'For' and any(x is par for h_ in (role(a_, 'init'), role(a_, 'cond')) if h_ is not None for x in walk(h_))), None)
                if hdr is None:
                    bulk = par
                else:
                    its = [v_.get('d') for v_ in walk(role(hdr, 'init') or {}) if v_.get('k') == 'Var']
                    elems = [u_ for u_ in walk(role(hdr, 'body')) if u_.get('k') in ('Un', 'Call') and (u_.get('op') == '*' or u_.get('opc') in ('*', '->')) and u_.get('c') and u_['c'][0].get('k') == 'Ref' and u_['c'][0].get('d') in its]
            else:
                bulk = m_
            if bulk is not None:
                n_d3 += 1
                rep.fail('C20.D3', '%s|%s@%s' % (g_.short.split('::')[-1], render(g_.parent(bulk) or bulk)[:40], bulk.get('l')), g_.where(bulk),
                         '%s copies the recorded dependencies as they are (`%s`): after the analysis a class may be represented by another variable, so look-ups by these pointers fail' % (g_.short, render(g_.parent(bulk) or bulk)[:60]))
            for r_ in elems:
                n_d3 += 1
                rep.check(_resolved(g_, r_), 'C20.D3', '%s|%s@%s' % (g_.short.split('::')[-1], render(g_.parent(r_) or r_)[:40], r_.get('l')), g_.where(r_),
                          '%s uses a recorded dependency as it is (`%s`): after the analysis the class may be represented by another variable (the one in the component of its equation), so the look-up by this pointer fails' % (
                              g_.short, render(g_.parent(r_) or r_)[:60]), 'resolved again through internalVariable()')
    if n_d3 < 1:
        raise AnalysisBroken('C20.D3: no read of AnalyserInternalVariable::mDependencies found in analyser.cpp')
    rep.rule('C20.D2', 'AnalyserEquationImpl::cleanUpDependencies removes the empty dependencies of EVERY equation: the erase is unconditional (external equations have no AST, their declared dependencies on constants still have to go, '
                       'otherwise dependencies() hands out null entries and the generator dereferences them)')
    cud = F.fn1('AnalyserEquation::AnalyserEquationImpl::cleanUpDependencies')
    er20 = [c for c in cud.walk() if c.get('k') == 'Call' and c.get('mc') and c.get('fn') == 'erase' and 'mDependencies' in render(c['c'][0])]
    if not er20:
        raise AnalysisBroken('cleanUpDependencies no longer erases from mDependencies')
    rets20 = [r for r in cud.walk() if r.get('k') == 'Return']
    rep.check(not enclosing_conditions(cud, er20[0]) and all(cud.cfg().node_dominates(er20[0], r) for r in rets20), 'C20.D2', 'cleanUpDependencies|unconditional', cud.where(er20[0]),
              'cleanUpDependencies skips the clean-up when %s' % ([render(c_)[:40] for c_, b_, s_ in enclosing_conditions(cud, er20[0])] or 'an early return is taken'), 'unconditional erase')


def _all_paths_pass(cfg, start, target, through_ids):
    """Every path from AST node start to AST node target evaluates one of through_ids."""
    ps, pt = cfg.block_of(start), cfg.block_of(target)
    if ps is None or pt is None:
        return False
    through = set(through_ids)

    def hit(blk, a, b):
        return any(e in through for e in blk['el'][a:b])
    if ps[0] == pt[0] and ps[1] <= pt[1]:
        return hit(cfg.blocks[ps[0]], ps[1], pt[1])
    if hit(cfg.blocks[ps[0]], ps[1], None):
        return True
    seen = set()
    st = list(cfg.succ[ps[0]])
    while st:
        b = st.pop()
        if b in seen:
            continue
        seen.add(b)
        if b == pt[0]:
            if not hit(cfg.blocks[b], 0, pt[1]):
                return False
            continue
        if hit(cfg.blocks[b], 0, None):
            continue
        st.extend(cfg.succ[b])
    return True


def _borrow_c17(F, rep):
    if not getattr(rep, 'nested', False):
        import core
        import c17
        core.borrow(F, rep, c17, only={'C17.O1'})
