"""C18 - variable-equivalence queries agree with the connection graph (structural clauses)."""
import re

from facts import walk, render, role, AnalysisBroken
from engines import ff, path, nth_arg, receiver, nonnull_facts

LEVEL = ('Counting argument on types and dataflow read from the clang AST (no execution): the memo of AnalyserModel::areEquivalentVariables '
         'must be keyed injectively by the two variable addresses; the graph search behind hasEquivalentVariable/areEquivalentVariables must carry a visited set; '
         'the pointer arguments are null-tested before they are dereferenced.')
ASSUMPTIONS = ['Object addresses of two live Variable objects are arbitrary distinct multiples of the allocation alignment within the user address space (the property says results must not depend on where objects live).']

INT_BITS = {'unsigned long': 64, 'long': 64, 'unsigned int': 32, 'int': 32, 'unsigned long long': 64, 'long long': 64, 'unsigned short': 16, 'unsigned char': 8}


def ptr_sources(f, e, seen=None):
    """Set of pointer-derived source descriptions (reinterpret_cast<integer>(x.get())) an integer expression depends on."""
    seen = seen or set()
    out = set()
    for n in walk(e):
        if n.get('k') == 'Cast' and 'Reinterpret' in n.get('ck_', ''):
            out.add(render(n['c'][0]))
        elif n.get('k') == 'Ref' and n.get('dk') == 'local' and n['d'] not in seen:
            seen.add(n['d'])
            for v in f.walk():
                c = v.get('c', [])
                if v.get('k') == 'Var' and v.get('d') == n['d'] and c:
                    out |= ptr_sources(f, c[0], seen)
                elif v.get('k') in ('Bin', 'CAssign') and c and c[0].get('k') == 'Ref' and c[0].get('d') == n['d'] and (v.get('k') == 'CAssign' or v.get('op') == '='):
                    out |= ptr_sources(f, c[1], seen)
    return out


def rule_neighbour_accessors(F, rep):
    """equivalentVariableCount() / equivalentVariable(i) are how the network search enumerates the neighbours of a variable."""
    rep.rule('C18.A1', 'the two accessors through which the equivalence search enumerates a variable\'s neighbours agree: equivalentVariableCount() counts the entries of mEquivalentVariables that are still alive, and equivalentVariable(i) '
                       'finds the i-th LIVE entry by scanning that container from the start with the same liveness test; the scan is not bounded by the requested index (how many dead entries precede the i-th live one is not known in advance - '
                       'a bound in terms of i skips live neighbours once two entries have expired)')
    from engines import single_def

    def over_container(f, L):
        hdr = role(L, 'range') if L.get('k') == 'RangeFor' else role(L, 'cond')
        if hdr is None:
            return False
        txt = render(hdr)
        for x in walk(hdr):
            if x.get('k') == 'Ref' and x.get('dk') == 'local':
                i_ = single_def(f, x.get('d'))
                if i_ is not None:
                    txt += ' ' + render(i_)
        return 'mEquivalentVariables' in txt

    def liveness(f, L):
        return {c.get('fn') for c in walk(role(L, 'body')) if c.get('k') == 'Call' and c.get('fn') in ('lock', 'expired')} | \
               {c.get('fn') for c in walk(role(L, 'cond') or {}) if c.get('k') == 'Call' and c.get('fn') in ('lock', 'expired')}
    cnt = F.fn1('libcellml::Variable::equivalentVariableCount')
    acc = [g for g in F.fn('libcellml::Variable::equivalentVariable') if len(g.params) == 1 and g.name == 'equivalentVariable']
    if len(acc) != 1:
        raise AnalysisBroken('Variable::equivalentVariable(index) vanished (%d)' % len(acc))
    acc = acc[0]
    lc = [L for L in cnt.walk() if L.get('k') in ('RangeFor', 'For', 'While') and over_container(cnt, L)]
    la = [L for L in acc.walk() if L.get('k') in ('RangeFor', 'For', 'While') and over_container(acc, L)]
    uses_alg = lambda f: any(c.get('k') == 'Call' and c.get('fn') in ('count_if', 'find_if') for c in f.walk())
    if not la and not uses_alg(acc):
        raise AnalysisBroken('C18.A1: the scan over mEquivalentVariables in equivalentVariable was not found')
    if not lc and not uses_alg(cnt):
        # weak entries expire silently, so the number of live neighbours cannot be known without looking at each entry
        rep.fail('C18.A1', 'equivalentVariableCount|scan', cnt.where(), 'equivalentVariableCount() no longer looks at the entries of mEquivalentVariables: expired entries are counted, and equivalentVariable(i) returns null for the last indices')
    pd = acc.params[0].get('d')
    for L in la:
        if L.get('k') == 'RangeFor':
            rep.ok('C18.A1', 'equivalentVariable|scan-bound', acc.where(L), 'range-for over the whole container')
            continue
        cnd = role(L, 'cond')
        # bounded by the index = a comparison between the requested index and the loop's own position (the variable stepped by the loop);
        # stopping once the number of LIVE entries seen exceeds the index is a different thing and is fine
        steppers = {x.get('d') for x in walk(role(L, 'inc') or {}) if x.get('k') == 'Ref' and x.get('dk') == 'local'}
        by_index = any(b.get('k') == 'Bin' and b.get('op') in ('<', '<=', '>', '>=', '!=') and any(x.get('k') == 'Ref' and x.get('d') == pd for x in walk(b)) and any(x.get('k') == 'Ref' and x.get('d') in steppers for x in walk(b)) for b in walk(cnd))
        rep.check(not by_index, 'C18.A1', 'equivalentVariable|scan-bound', acc.where(L),
                  'the scan for the i-th live neighbour is bounded by the requested index (`%s`): with two expired entries before a live one that neighbour is never returned, so the search misses part of the network from this side only' % render(cnd)[:70],
                  'bounded by the container only')
    if lc and la:
        a, b = set().union(*[liveness(cnt, L) for L in lc]), set().union(*[liveness(acc, L) for L in la])
        rep.check(bool(a) and bool(b), 'C18.A1', 'liveness-test', acc.where(la[0]), 'liveness of an entry is tested by %s in equivalentVariableCount and by %s in equivalentVariable: one of them counts expired entries' % (sorted(a) or 'nothing', sorted(b) or 'nothing'),
                  'both skip expired entries (%s / %s)' % (sorted(a), sorted(b)))


def run(F, rep):
    rule_neighbour_accessors(F, rep)
    rep.rule('C18.K1', 'a memo container keyed by object addresses holds both addresses injectively: key type is a pair/tuple of the operands or has >= 2*bits(uintptr_t) bits')
    f = F.fn1('libcellml::AnalyserModel::areEquivalentVariables')
    rec = F.record('AnalyserModel::AnalyserModelImpl')
    n_k = 0
    for n in f.walk():
        if n.get('k') == 'Call' and n.get('mc') and n.get('fn') in ('find', 'emplace', 'insert', 'count', 'at', 'operator[]', 'try_emplace', 'insert_or_assign'):
            r = receiver(n)
            if r.get('k') != 'Member' or not r.get('field'):
                continue
            fld = next((x for x in rec['fields'] if x['n'] == r['n']), None)
            if fld is None:
                continue
            m = re.match(r'std::(?:unordered_)?map<(.+?), bool', fld['t'])
            if not m:
                continue
            keyt = m.group(1).strip()
            karg = nth_arg(n, 0)
            srcs = ptr_sources(f, karg)
            n_k += 1
            k = '%s|%s.%s' % (f.short, r['n'], n['fn'])
            if len(srcs) < 2:
                rep.ok('C18.K1', k, f.where(n), 'key depends on %d address operand(s)' % len(srcs))
                continue
            if keyt.startswith('std::pair<') or keyt.startswith('std::tuple<'):
                rep.ok('C18.K1', k, f.where(n), 'key type %s keeps the operands apart' % keyt)
                continue
            bits = INT_BITS.get(keyt)
            if bits is None:
                rep.fail('C18.K1', k, f.where(n), 'memo key type `%s` combines %d addresses (%s) and is neither a pair/tuple nor a known integer type' % (keyt, len(srcs), sorted(srcs)))
                continue
            # pigeonhole: user-space addresses span 2^47, 16-byte aligned heap objects give 2^43 values per operand,
            # unordered pairs ~ 2^85 > 2^bits keys
            rep.check(bits >= 128, 'C18.K1', k, f.where(n),
                      'memo %s is keyed by a %d-bit integer computed from %d object addresses (%s): 2^43 aligned user-space addresses per operand give ~2^85 unordered pairs > 2^%d keys, '
                      'so two different variable pairs can share a key and the second query returns the first one\'s cached answer' % (r['n'], bits, len(srcs), sorted(srcs), bits),
                      'key wide enough')
    if n_k < 1:
        rep.ok('C18.K1', 'no pair->verdict memo', f.where(), 'no map<key, bool> member is accessed by AnalyserModel::areEquivalentVariables (see C18.S1 for what it may return)')

    rep.rule('C18.S1', 'every verdict AnalyserModel::areEquivalentVariables returns is either the result of the search (libcellml::areEquivalentVariables) for exactly these two variables or a bool stored earlier for exactly this pair: '
                       'a verdict computed from other cached data (e.g. comparing two cached representatives) answers "not equivalent" without having searched')
    n_s = 0
    for r in f.walk():
        if r.get('k') != 'Return' or not r.get('c'):
            continue
        e = r['c'][0]
        while e.get('k') in ('Construct', 'Cast', 'Paren') and len(e.get('c', [])) == 1:
            e = e['c'][0]
        n_s += 1
        how = None
        if e.get('k') == 'Bool':
            how = 'literal (trivial case)'
        elif e.get('k') == 'Call' and not e.get('opc') and (e.get('callee') or '') == 'libcellml::areEquivalentVariables':
            how = 'the search itself'
        elif e.get('k') == 'Ref' and e.get('dk') == 'local':
            inits = [v['c'][0] for v in f.walk() if v.get('k') == 'Var' and v.get('d') == e['d'] and v.get('c')]
            if inits and all(any(x.get('k') == 'Call' and (x.get('callee') or '') == 'libcellml::areEquivalentVariables' for x in walk(i)) for i in inits):
                how = 'result of the search'
        elif e.get('k') == 'Member' and e.get('n') == 'second':
            # it->second of an iterator obtained from find(key) on a map<pair/tuple/wide key, bool>
            base = [x for x in walk(e) if x.get('k') == 'Ref' and x.get('dk') == 'local']
            for b in base:
                for v in f.walk():
                    if v.get('k') == 'Var' and v.get('d') == b['d'] and v.get('c'):
                        for c_ in walk(v['c'][0]):
                            if c_.get('k') == 'Call' and c_.get('fn') == 'find' and c_.get('mc'):
                                m_ = receiver(c_)
                                fld = next((x for x in rec['fields'] if m_ is not None and x['n'] == m_.get('n')), None)
                                if fld is not None and re.match(r'std::(?:unordered_)?map<.+, bool', fld['t']):
                                    how = 'verdict stored for this key (%s)' % fld['n']
        rep.check(how is not None, 'C18.S1', 'return %s' % render(e)[:40], f.where(r), 'areEquivalentVariables returns `%s`, which is neither the search result nor a stored verdict for this pair' % render(e)[:60], how)
    if n_s < 1:
        raise AnalysisBroken('AnalyserModel::areEquivalentVariables has no return')

    rep.rule('C18.N1', 'areEquivalentVariables (AnalyserModel and utility) dereference their variable parameters only under a non-null test')
    util = F.fn1('libcellml::areEquivalentVariables')
    for g in (util,):
        pnames = {p['n'] for p in g.params if 'shared_ptr' in p['t']}
        n_d = 0
        for n in g.walk():
            if n.get('k') == 'Call' and n.get('opc') in ('->', '*') and n['c'][0].get('k') == 'Ref' and n['c'][0].get('n') in pnames and n['c'][0].get('dk') == 'parm':
                n_d += 1
                nn = nonnull_facts(g, n) or set()
                rep.check(n['c'][0]['n'] in nn, 'C18.N1', '%s|%s' % (g.short, n['c'][0]['n']), g.where(n),
                          'parameter %s of %s is dereferenced without a dominating null test; AnalyserModel::areEquivalentVariables(v, nullptr) and AnalyserExternalVariable::addDependency reach it' % (n['c'][0]['n'], g.short),
                          'null-tested')
        # ... or hands them to a callee that does (summaries over the call graph): the search may have been moved into a helper
        from nullflow import NullSummaries
        us = NullSummaries(F).unsafe.get(g.key, {})
        for idx, (cn, why) in sorted(us.items()):
            if cn.get('k') == 'Call' and cn.get('opc') in ('->', '*'):
                continue    # the direct dereferences were judged above
            n_d += 1
            rep.fail('C18.N1', '%s|%s|via callee' % (g.short, g.params[idx]['n']), g.where(cn), 'parameter %s of %s is %s' % (g.params[idx]['n'], g.short, why))
        if n_d < 1:
            rep.ok('C18.N1', '%s|no parameter is dereferenced here or, unguarded, in a callee' % g.short, g.where(), 'summaries of %d callees consulted' % sum(1 for c in g.walk() if c.get('k') == 'Call' and not c.get('opc')))

    rep.rule('C18.V1', 'the recursive search behind Variable::hasEquivalentVariable(v, true) consults and extends a visited list before recursing')
    cands = [x for x in F.fn('haveEquivalentVariables', required=False)] + [x for x in F.fn('hasEquivalentVariable', required=False)]
    rec_fs = []
    for sc in F.sccs():
        for k in sc:
            g = F.funcs[k]
            if g.file.endswith('variable.cpp') and 'quivalent' in g.name:
                rec_fs.append(g)
    wl_fs = []
    if not rec_fs:
        # the same search written with an explicit work list (while (!todo.empty()) { pop; test; mark; push neighbours })
        for g in F.funcs.values():
            if g.file.endswith('variable.cpp') and 'quivalent' in g.name:
                for w in g.walk():
                    m = re.match(r'^!(\w+)\.empty\(\)$', render(role(w, 'cond')).replace(' ', '')) if w.get('k') == 'While' else None
                    if m:
                        wl_fs.append((g, w, m.group(1)))
        if not wl_fs:
            raise AnalysisBroken('no recursive (or work-list) equivalence search found in variable.cpp')
    for g, w, todo in wl_fs:
        body = role(w, 'body')
        pops = [n for n in walk(body) if n.get('k') == 'Call' and n.get('fn') in ('pop_back', 'pop', 'pop_front', 'erase') and path(receiver(n)) == todo]
        pushes = [n for n in walk(body) if n.get('k') == 'Call' and n.get('fn') in ('push_back', 'emplace_back', 'push', 'insert') and path(receiver(n)) == todo]
        finds = [n for n in walk(body) if n.get('k') == 'Call' and n.get('callee') in ('std::find', 'std::find_if', 'std::count')]
        vnames = {r.get('n') for fn_ in finds for r in walk(fn_) if r.get('k') == 'Ref' and r.get('n') != todo and 'std::vector<' in (r.get('t') or '')}
        marks = [n for n in walk(body) if n.get('k') == 'Call' and n.get('fn') in ('push_back', 'emplace_back', 'insert') and path(receiver(n)) in vnames]
        rep.check(bool(pops) and bool(pushes) and bool(finds) and bool(marks), 'C18.V1', g.short + '|work-list', g.where(w),
                  'work-list search over `%s`: %d pop(s), %d push(es), %d membership test(s), %d mark(s)' % (todo, len(pops), len(pushes), len(finds), len(marks)), 'work list `%s` with visited list %s' % (todo, sorted(vnames)))
        # the search ends only when the target is found (return) or the work list is empty: a break abandons the entries still waiting
        for b in walk(body):
            if b.get('k') != 'Break':
                continue
            near = next((a for a in g.ancestors(b) if a.get('k') in ('While', 'For', 'RangeFor', 'Do', 'Switch')), None)
            if near is w:
                rep.fail('C18.V1', g.short + '|work-list-abandoned', g.where(b), 'a `break` leaves the work-list loop while `%s` may still hold unvisited variables (an entry that was already visited must be skipped with `continue`): '
                         'in a network with a cycle the search answers "not equivalent" for variables that are connected' % todo)
        for r in walk(body):
            if r.get('k') == 'Return' and r.get('c'):
                e = r['c'][0]
                while e.get('k') in ('Construct', 'Cast', 'Paren') and len(e.get('c', [])) == 1:
                    e = e['c'][0]
                if e.get('k') == 'Bool' and not e.get('v'):
                    rep.fail('C18.V1', g.short + '|work-list-abandoned', g.where(r), '`return false` inside the work-list loop abandons the entries still waiting in `%s`' % todo)
    for g in rec_fs:
        vis = [p for p in g.params if 'std::vector<' in p['t'] and p['t'].rstrip().endswith('&') and not p['t'].startswith('const')]
        rec_calls = [n for n in g.walk() if n.get('k') == 'Call' and g.key in F.callee_keys(n)]
        ok = bool(vis)
        det = 'no mutable visited-list parameter'
        if vis:
            vn = vis[0]['n']
            pushes = [n for n in g.walk() if n.get('k') == 'Call' and n.get('fn') in ('push_back', 'emplace_back', 'insert') and path(receiver(n)) == vn]
            finds = [n for n in g.walk() if n.get('k') == 'Call' and n.get('callee') in ('std::find', 'std::find_if', 'std::count') and any(r.get('n') == vn for r in walk(n))]
            ok = bool(pushes) and bool(finds) and all(vn in {r.get('n') for r in walk(c)} for c in rec_calls)
            det = 'visited list `%s`: %d push(es), %d membership test(s), passed on in %d recursive call(s)' % (vn, len(pushes), len(finds), len(rec_calls))
            # each recursive call is control-dependent on a membership test of the visited list
            for c in rec_calls:
                cs = ff(g).conds_at(c) or []
                guarded = any(any(x is fn_ or any(y is fn_ for y in walk(x)) for fn_ in finds) for x, t in cs) or any(any(r.get('n') == vn for r in walk(x)) for x, t in cs)
                if not guarded:
                    # the test result may be stored in a local first
                    guarded = any(True for x, t in cs for r in walk(x) if r.get('k') == 'Ref' and r.get('dk') == 'local' and any(
                        v.get('k') == 'Var' and v.get('d') == r['d'] and any(q.get('n') == vn for q in walk(v)) for v in g.walk()))
                ok = ok and guarded
                if not guarded:
                    det += '; recursive call at line %s is not guarded by a visited-list test' % c.get('l')
        rep.check(ok, 'C18.V1', g.short, g.where(), det, det)

    # ------------------------------------------------------------------ memo wrapper returns only memoised/underlying values
    rep.rule('C18.M1', 'AnalyserModel::areEquivalentVariables returns only the memoised value or the result of the underlying search on the same two variables, and memoises exactly that result')
    util_calls = [c for c in f.walk() if c.get('k') == 'Call' and util.key in F.callee_keys(c)]
    if not util_calls:
        raise AnalysisBroken('AnalyserModel::areEquivalentVariables no longer calls the utility search')
    uc = util_calls[0]
    args_ok = [render(a) for a in uc['c']] == [p['n'] for p in f.params]
    rep.check(args_ok, 'C18.M1', 'search-arguments', f.where(uc), 'the underlying search is called with %s instead of the two parameters' % [render(a) for a in uc['c']], 'search on (variable1, variable2)')
    resvar = f.parent(uc) if f.parent(uc) is not None and f.parent(uc).get('k') == 'Var' else None
    for r in f.walk():
        if r.get('k') != 'Return' or not r.get('c'):
            continue
        e = r['c'][0]
        t = render(e)
        ok = (resvar is not None and e.get('k') == 'Ref' and e.get('d') == resvar['d']) or t.endswith('->second') or any(x is uc for x in walk(e))
        rep.check(ok, 'C18.M1', 'return %s' % t[:40], f.where(r), 'the cached query returns `%s`, which is neither the memo entry nor the result of the search: a shortcut can disagree with the connection graph' % t, 'memo value or search result')
    stores = [c for c in f.walk() if c.get('k') == 'Call' and c.get('mc') and c.get('fn') in ('emplace', 'insert', 'insert_or_assign', 'try_emplace') and receiver(c) is not None and receiver(c).get('n') == 'mCachedEquivalentVariables']
    for c in stores:
        v = c['c'][-1]
        rep.check(resvar is not None and v.get('k') == 'Ref' and v.get('d') == resvar['d'], 'C18.M1', 'memoised-value', f.where(c), 'the memo stores `%s`, not the search result' % render(v), 'stores the search result')

    rep.rule('C18.K2', 'the memo of equivalence answers belongs to one analysed model and is read and written only by AnalyserModel::areEquivalentVariables: no other function copies, seeds or clears it '
                       '(answers carried over from an earlier analysis are stale once the model\'s connections were edited in between)')
    n_u = 0
    for g in F.funcs.values():
        if g.key == f.key:
            continue
        for m_ in g.walk():
            if m_.get('k') == 'Member' and m_.get('n') == 'mCachedEquivalentVariables':
                n_u += 1
                rep.fail('C18.K2', '%s|mCachedEquivalentVariables' % g.short, g.where(m_), '%s touches the memo of AnalyserModel::areEquivalentVariables (`%s`): entries that were not computed by a search on the current connection graph can be returned'
                         % (g.short, render(g.parent(m_) or m_)[:70]))
    own = [m_ for m_ in f.walk() if m_.get('k') == 'Member' and m_.get('n') == 'mCachedEquivalentVariables']
    if own:
        rep.ok('C18.K2', 'owner|%s' % f.short, f.where(own[0]), '%d accesses, all inside the query itself' % len(own))
    else:
        rep.ok('C18.K2', 'owner|no memo', f.where(), 'the query keeps no memo')

    # ------------------------------------------------------------------ iterator validity in the equivalence lists
    rep.rule('C18.I1', 'in Variable::VariableImpl an iterator into mEquivalentVariables is not used after a call that can modify that list (cleanExpiredVariables, erase, push_back) made after the iterator was obtained')
    import fields as _fields
    n_it = 0
    for g in F.funcs.values():
        if g.cls != 'libcellml::Variable::VariableImpl' and g.cls != 'libcellml::Variable':
            continue
        cfg = g.cfg()
        if cfg is None:
            continue
        for v in g.walk():
            if v.get('k') != 'Var' or not v.get('c'):
                continue
            ini = v['c'][0]
            if not (ini.get('k') == 'Call' and ('iterator' in ini.get('rt', '') or ini.get('fn', '').startswith('find'))):
                continue
            # container the iterator points into
            cont = None
            for ck in F.callee_keys(ini):
                h = F.funcs.get(ck)
                if h is not None and 'mEquivalentVariables' in _fields.this_reads(F, h):
                    cont = 'mEquivalentVariables'
            if cont is None and 'mEquivalentVariables' in render(ini):
                cont = 'mEquivalentVariables'
            if cont is None:
                continue
            n_it += 1
            uses = [x for x in g.walk() if x.get('k') == 'Ref' and x.get('d') == v['d'] and g.enclosing_lambda(x) is None]
            muts = []
            for c in g.walk():
                if c.get('k') != 'Call' or c is ini or g.enclosing_lambda(c) is not None:
                    continue
                if c.get('mc') and c.get('fn') in ('erase', 'push_back', 'clear', 'insert', 'emplace_back') and receiver(c) is not None and receiver(c).get('n') == cont:
                    # the erase that consumes the iterator itself is the intended last use
                    if any(x.get('k') == 'Ref' and x.get('d') == v['d'] for x in walk(c)):
                        continue
                    muts.append(c)
                else:
                    for ck in F.callee_keys(c):
                        h = F.funcs.get(ck)
                        if h is not None and c.get('mc') and c.get('c') and (c['c'][0].get('k') in ('This', 'NoObj') or render(c['c'][0]) in ('this', 'pFunc()')) and cont in _fields.this_writes(F, h):
                            muts.append(c)
            from faillog import _can_reach
            bad = None
            for mc in muts:
                if not _can_reach(cfg, ini, mc) or not cfg.node_dominates(ini, mc) and not _can_reach(cfg, ini, mc):
                    continue
                pm = cfg.block_of(mc)
                pi = cfg.block_of(ini)
                if pm is None or pi is None or (pm[0] == pi[0] and pm[1] < pi[1]):
                    continue
                for u in uses:
                    pu = cfg.block_of(u)
                    if pu is None:
                        continue
                    after = (pu[0] == pm[0] and pu[1] > pm[1]) or (pu[0] != pm[0] and _can_reach(cfg, mc, u))
                    if after:
                        bad = (mc, u)
            rep.check(bad is None, 'C18.I1', '%s|%s' % (g.short, v['n']), g.where(v),
                      'iterator `%s` into %s is used at line %s after `%s` (line %s) may have modified the list: the wrong equivalence is erased and the lists of the two variables become asymmetric' % (
                          v['n'], cont, bad[1].get('l') if bad else '?', render(bad[0])[:40] if bad else '?', bad[0].get('l') if bad else '?'), 'no modification between obtaining and using the iterator')
    if n_it < 2:
        raise AnalysisBroken('iterators into mEquivalentVariables: %d found, 3 confirmed' % n_it)

    rep.rule('C18.F1', 'the equivalence queries of Variable answer from the equivalence lists alone: among the data members of VariableImpl, hasEquivalentVariable / hasDirectEquivalentVariable / hasIndirectEquivalentVariable / '
                       'findEquivalentVariable (and what they call on this object) read only mEquivalentVariables - the id maps are bookkeeping for printing and are not cleared when equivalences are removed')
    import fields as _f18
    n_f = 0
    for g in F.funcs.values():
        if g.cls == 'libcellml::Variable::VariableImpl' and g.name in ('hasEquivalentVariable', 'hasDirectEquivalentVariable', 'hasIndirectEquivalentVariable', 'findEquivalentVariable'):
            n_f += 1
            rd = {x for x in _f18.this_reads(F, g) if x.startswith('m')}
            extra = sorted(rd - {'mEquivalentVariables', 'mVariable'})
            rep.check(not extra, 'C18.F1', g.short + '/%d' % len(g.params), g.where(), '%s reads %s: its answer can come from bookkeeping that is not kept in step with the connection graph' % (g.short, extra), 'reads %s' % sorted(rd))
    if n_f < 3:
        raise AnalysisBroken('C18.F1: equivalence queries of VariableImpl: %d found, 4 confirmed' % n_f)
    # ... nor from where a variable sits: the network search (haveEquivalentVariables and what it calls) asks no variable for its parent / owner - a variable that was
    # taken out of its component still links its neighbours, and pruning it makes a~x, x~b true but a~b false
    hev = [g for g in F.funcs.values() if g.name == 'haveEquivalentVariables' and g.file.endswith('/variable.cpp')]
    if not hev:
        raise AnalysisBroken('C18.F1: haveEquivalentVariables vanished')
    for g in hev:
        own = sorted({c.get('fn') for k_ in F.reach([g.key]) if k_ in F.funcs and F.funcs[k_].file.endswith('/variable.cpp') for c in F.funcs[k_].walk()
                      if c.get('k') == 'Call' and c.get('fn') in ('parent', 'hasParent', 'owningComponent', 'owningModel', 'hasAncestor')})
        rep.check(not own, 'C18.F1', 'haveEquivalentVariables|no ownership test', g.where(), 'the network search consults %s: whether two variables are equivalent then depends on where an intermediate variable sits, not only on the equivalence lists' % own, 'follows the lists only')

    rep.rule('C18.Q1', 'the equivalence queries of Variable are pure: no const member function of Variable/VariableImpl writes a data member (a per-variable memo of a property of the whole connection graph is stale as soon as two OTHER variables are connected or disconnected)')
    import fields
    n_q = 0
    for g in F.funcs.values():
        if g.cls in ('libcellml::Variable', 'libcellml::Variable::VariableImpl') and g.j.get('const'):
            n_q += 1
            w = fields.this_writes(F, g)
            rep.check(not w, 'C18.Q1', g.short + '/%d' % len(g.params), g.where(), '%s is const but writes %s' % (g.short, sorted(w)), 'writes nothing')
    if n_q < 15:
        raise AnalysisBroken('C18.Q1: only %d const member functions of Variable found' % n_q)

    # ------------------------------------------------------------------ every entry of an equivalence list is handled
    from engines import rule_take_while
    rule_take_while(F, rep, 'C18.T1', lambda g: '/src/' in g.file, 'the library')



    # ------------------------------------------------------------------ every search over the equivalence graph terminates on rings (clause shared with C01)
    # The connection graph may contain cycles (a-b, b-c, c-a): a recursive walk over equivalentVariable(i) needs a visited set, "do not step back to where
    # I came from" is enough for trees only.  C01.R1 classifies every recursive cycle of the library by the dimension it walks and demands, for the
    # equivalence dimension, a visited list consulted before the recursive call.
    if not getattr(rep, 'nested', False):
        import core
        import c01
        core.borrow(F, rep, c01, only={'C01.R1'})
