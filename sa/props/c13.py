"""C13 - identifier assignment is complete, unique and non-destructive (structural clauses)."""
import re

from facts import walk, render, role, is_call, AnalysisBroken
from engines import ff, nth_arg, receiver, path, strip_arrow, is_this_like, enclosing_conditions
from issues import must_pass

LEVEL = ('Rules over annotator.cpp and the id traversals in utilities.cpp/validator.cpp (clang AST/CFG/call graph): (R) every exported Annotator method from which an id can be generated refreshes the identifier index '
         '(update()) on every path before the first generation, and replacing the model invalidates the cached index; (K) the traversals that list, hash, clear, assign, print-reserve and validate ids visit the same thirteen kinds of identifier; '
         '(N) an id is assigned only where the matching getter returned an empty string; (B) every generated id is entered into the index before the next one is generated. Uniqueness of concrete strings is not executed.')
ASSUMPTIONS = ['an identifier kind is recognised by the getter/setter it goes through (id, encapsulationId, unitId/unitAttributes, equivalenceMappingId, equivalenceConnectionId, testValueId, resetValueId) and the static type of the receiver']

KINDS = ['Model.id', 'Model.encapsulationId', 'ImportSource.id', 'Units.id', 'unit.id', 'Component.id', 'Component.encapsulationId', 'Variable.id', 'mapping', 'connection', 'Reset.id', 'reset.testValueId', 'reset.resetValueId']
READ = {'unitId': 'unit.id', 'unitAttributes': 'unit.id', 'testValueId': 'reset.testValueId', 'resetValueId': 'reset.resetValueId', 'equivalenceMappingId': 'mapping', 'equivalenceConnectionId': 'connection'}
WRITE = {'setUnitId': 'unit.id', 'setTestValueId': 'reset.testValueId', 'setResetValueId': 'reset.resetValueId', 'setEquivalenceMappingId': 'mapping', 'setEquivalenceConnectionId': 'connection',
         'removeUnitId': 'unit.id', 'removeTestValueId': 'reset.testValueId', 'removeResetValueId': 'reset.resetValueId', 'removeEquivalenceMappingId': 'mapping', 'removeEquivalenceConnectionId': 'connection'}
FAMILIES = [
    ('annotator-list', ['Annotator::AnnotatorImpl::listIdsAndItems'], ('annotator.cpp',), 'read', 'ids()/item(id)/duplicateIds() are built from this traversal'),
    ('annotator-hash', ['Annotator::AnnotatorImpl::generateHash'], ('annotator.cpp',), 'read', 'an id kind missing from the hash is not noticed when the model is edited, so the index is not refreshed'),
    ('annotator-assign', ['Annotator::AnnotatorImpl::doSetAllAutomaticIds'], ('annotator.cpp',), 'both', 'assignAllIds must give every kind of item an id'),
    ('annotator-clear', ['libcellml::Annotator::clearAllIds'], ('annotator.cpp',), 'write', 'clearAllIds must clear every kind of id'),
    ('printer-reserve', ['libcellml::listIds'], ('utilities.cpp',), 'read', 'Printer::printModel(model, true) must not generate an id that exists anywhere in the model'),
    ('validator-map', ['Validator::ValidatorImpl::buildModelIdMap'], ('validator.cpp',), 'read', 'the validator must see every id to report duplicates'),
]


def rtype(n):
    r = strip_arrow(n)
    t = (r.get('t') or r.get('rt') or '')
    m = re.search(r'libcellml::(\w+)>?', t)
    return m.group(1) if m else t


def kinds_of(F, roots, files):
    reads, writes = {}, {}
    seen = set()
    st = list(roots)
    while st:
        f = st.pop()
        if f.key in seen:
            continue
        seen.add(f.key)
        for n in f.walk():
            if n.get('k') != 'Call':
                continue
            fn = n.get('fn')
            if fn in ('id', 'encapsulationId') and n.get('mc'):
                reads.setdefault('%s.%s' % (rtype(n['c'][0]), fn), f)
            elif fn in READ:
                reads.setdefault(READ[fn], f)
            elif fn in ('setId', 'removeId') and n.get('mc') and not is_this_like(n['c'][0]):
                writes.setdefault('%s.id' % rtype(n['c'][0]), f)
            elif fn in ('setEncapsulationId', 'removeEncapsulationId') and n.get('mc'):
                writes.setdefault('%s.encapsulationId' % rtype(n['c'][0]), f)
            elif fn in WRITE:
                writes.setdefault(WRITE[fn], f)
            for ck in F.callee_keys(n):
                g = F.funcs.get(ck)
                if g is not None and g.file.split('/')[-1] in files and g.name not in ('makeUniqueId',):
                    st.append(g)
    return reads, writes


def reaches(F, key, target_name, memo={}):
    if key in memo:
        return memo[key]
    memo[key] = any(F.funcs[k].name == target_name and F.funcs[k].cls == 'libcellml::Annotator::AnnotatorImpl' for k in F.reach([key]))
    return memo[key]


def run(F, rep):
    impl = 'libcellml::Annotator::AnnotatorImpl'
    upd = F.fn1('Annotator::AnnotatorImpl::update')
    gen = [f for f in F.fn('Annotator::AnnotatorImpl::makeUniqueId')]
    if len(gen) != 1:
        raise AnalysisBroken('AnnotatorImpl::makeUniqueId vanished')
    gen = gen[0]

    # ------------------------------------------------------------------ R
    rep.rule('C13.R1', 'every exported Annotator method from which makeUniqueId() is reachable calls update() on every path before the first call that can generate an id')

    def refreshed(f, depth=0):
        """Every call in f that can generate an id is dominated by update() in f, or is itself refreshed inside the callee."""
        bad = []
        cfg = f.cfg()
        ups = [c for c in f.walk() if c.get('k') == 'Call' and upd.key in F.callee_keys(c) and f.enclosing_lambda(c) is None]
        for c in f.walk():
            if c.get('k') != 'Call' or f.enclosing_lambda(c) is not None:
                continue
            keys = [k for k in F.callee_keys(c) if k in F.funcs]
            gk = [k for k in keys if k == gen.key or reaches(F, k, 'makeUniqueId')]
            if not gk:
                continue
            if any(cfg.node_dominates(u, c) for u in ups):
                continue
            if depth < 4 and all(k != gen.key and not refreshed(F.funcs[k], depth + 1) for k in gk):
                continue
            bad.append(c)
        return bad
    n_exp = 0
    for f in sorted(F.funcs.values(), key=lambda f: f.line):
        if f.cls != 'libcellml::Annotator' or f.j.get('access', 0) != 0:
            continue
        if not reaches(F, f.key, 'makeUniqueId'):
            continue
        n_exp += 1
        bad = refreshed(f)
        rep.check(not bad, 'C13.R1', '%s/%d' % (f.short, len(f.params)), f.where(bad[0]) if bad else f.where(),
                  '%s can reach makeUniqueId() through `%s` without update() having refreshed the identifier index: after the model was edited an id that already exists can be handed out' % (f.short, render(bad[0])[:50] if bad else ''),
                  'update() precedes every generating call')
    if n_exp < 10:
        raise AnalysisBroken('exported generating Annotator methods: %d found, 14 confirmed' % n_exp)
    rep.rule('C13.R2', 'update() rebuilds the index whenever the hash differs, and every replacement of the annotated model resets the cached hash (or rebuilds unconditionally) before update()')
    def _rebuilds(g_):
        """the events that rebuild the index in g_: a call of buildIdList(), or the assignment of listIdsAndItems(...) to mIdList itself (buildIdList inlined)"""
        out_ = [c for c in g_.walk() if c.get('k') == 'Call' and c.get('fn') == 'buildIdList']
        for a_ in g_.walk():
            c_ = a_.get('c', [])
            if ((a_.get('k') == 'Call' and a_.get('opc') == '=') or (a_.get('k') == 'Bin' and a_.get('op') == '=')) and len(c_) == 2 and c_[0].get('k') == 'Member' and c_[0].get('n') == 'mIdList' \
                    and any(x.get('k') == 'Call' and x.get('fn') == 'listIdsAndItems' for x in walk(c_[1])):
                out_.append(a_)
        return out_
    bl = _rebuilds(upd)
    okb = bool(bl) and any(('mHash != hash', True) in (ff(upd).rendered_conds_at(c) or set()) or ('hash != mHash', True) in (ff(upd).rendered_conds_at(c) or set()) for c in bl)
    hs = [c for c in upd.walk() if c.get('k') == 'Call' and c.get('fn') == 'generateHash']
    rep.check(okb and bool(hs), 'C13.R2', 'update|rebuild-on-change', upd.where(), 'update() does not rebuild the id list exactly when the freshly generated hash differs from the stored one', 'buildIdList under mHash != generateHash()')
    n_w = 0
    for f in F.funcs.values():
        if not (f.cls or '').startswith('libcellml::Annotator') or f.j.get('ctor'):
            continue
        for n in f.walk():
            if n.get('k') == 'Member' and n.get('n') == 'mModel' and n.get('q', '').startswith(impl):
                p = f.parent(n)
                if p is not None and p.get('k') == 'Call' and p.get('opc') == '=' and p['c'][0] is n:
                    n_w += 1
                    def is_reset(g, x):
                        return (x.get('k') == 'Bin' and x.get('op') == '=' and x['c'][0].get('k') == 'Member' and x['c'][0].get('n') == 'mHash' and render(x['c'][1]) == '0') or any(x is y for y in _rebuilds(g))
                    resets = [x for x in f.walk() if is_reset(f, x)]
                    # a callee that clears the index and resets the hash itself (clearAllIds())
                    for x in f.walk():
                        if x.get('k') == 'Call':
                            for ck in F.callee_keys(x):
                                g = F.funcs.get(ck)
                                if g is not None and (g.cls or '').startswith('libcellml::Annotator') and any(is_reset(g, y) for y in g.walk()) and any(
                                        y.get('k') == 'Call' and y.get('fn') == 'clear' and receiver(y) is not None and receiver(y).get('n') == 'mIdList' for y in g.walk()):
                                    resets.append(x)
                    ok = bool(resets) and must_pass(f.cfg(), p, [x['i'] for x in resets])
                    rep.check(ok, 'C13.R2', '%s|model-replaced' % f.short, f.where(p),
                              '%s replaces the annotated model without invalidating the cached hash: two models with the same id layout (a clone, a re-parse) keep the index of the old model, so item(id) returns objects of the previous model' % f.short,
                              'cached hash reset after the model is replaced')
    if n_w < 1:
        raise AnalysisBroken('no assignment to AnnotatorImpl::mModel found')
    bils = [g_ for g_ in F.funcs.values() if g_.file.endswith('/annotator.cpp') and any(a_.get('k') in ('Call', 'Bin') for a_ in _rebuilds(g_) if a_.get('fn') != 'buildIdList')]
    rep.check(bool(bils), 'C13.R2', 'buildIdList|from-traversal', bils[0].where() if bils else upd.where(), 'the index (mIdList) is no longer rebuilt from listIdsAndItems anywhere in annotator.cpp', 'index rebuilt from the model traversal (in %s)' % (bils[0].name if bils else ''))

    # ------------------------------------------------------------------ K
    rep.rule('C13.K1', 'the traversals that list, hash, assign, clear, print-reserve and validate identifiers visit the same thirteen kinds of id')
    for name, roots, files, mode, why in FAMILIES:
        rs = [f for r in roots for f in F.fn(r)]
        reads, writes = kinds_of(F, rs, files)
        for k in KINDS:
            if mode in ('read', 'both'):
                rep.check(k in reads, 'C13.K1', '%s|reads|%s' % (name, k), rs[0].where(), 'the %s traversal never reads the `%s` identifier: %s' % (name, k, why), 'read')
            if mode in ('write', 'both'):
                rep.check(k in writes, 'C13.K1', '%s|writes|%s' % (name, k), rs[0].where(), 'the %s traversal never writes the `%s` identifier: %s' % (name, k, why), 'written')

    # ------------------------------------------------------------------ N / B
    rep.rule('C13.N1', 'inside the assign traversal an id setter is reached only where the matching getter on the same object returned an empty string (existing ids are never overwritten)')
    rep.rule('C13.B1', 'every id returned by makeUniqueId() is inserted into mIdList before the next call of makeUniqueId() and before the function returns')
    assign = [f for f in F.funcs.values() if f.cls == impl and (f.name.startswith('doSet'))]
    n_set = 0
    for f in sorted(assign, key=lambda f: f.line):
        for n in f.walk():
            if n.get('k') != 'Call':
                continue
            fn = n.get('fn')
            kind = None
            if fn == 'setId' and n.get('mc') and not is_this_like(n['c'][0]):
                kind = ('id', render(strip_arrow(n['c'][0])))
            elif fn == 'setEncapsulationId':
                kind = ('encapsulationId', render(strip_arrow(n['c'][0])))
            elif fn in ('setUnitId', 'setTestValueId', 'setResetValueId'):
                kind = (fn[3].lower() + fn[4:], render(strip_arrow(n['c'][0])))
            elif fn in ('setEquivalenceMappingId', 'setEquivalenceConnectionId'):
                kind = (fn[3].lower() + fn[4:], None)
            if kind is None:
                continue
            n_set += 1
            rc = ff(f).rendered_conds_at(n) or set()
            getter, obj = kind
            ok = False
            for c, t in rc:
                if not t or not c.endswith('.empty()'):
                    continue
                if obj is not None and c.startswith('%s->%s(' % (obj, getter)):
                    ok = True
                if obj is None and getter in c:
                    a1 = [render(x) for x in n['c'][:2]]
                    ok = all(a in c for a in a1)
                if 'assignEncapsulationId(' in c:
                    ok = True
            if not ok and getter == 'encapsulationId':
                # delegated test: assignEncapsulationId(component, ...) returns true only for an empty encapsulation id
                ok = any(t and c.startswith('assignEncapsulationId(') for c, t in rc)
            rep.check(ok, 'C13.N1', '%s|%s' % (f.short.split('::')[-1], render(n)[:50]), f.where(n), '`%s` is not guarded by an empty test of the same identifier: an existing id can be overwritten' % render(n)[:60], 'guarded by the empty test')
        # bookkeeping
        gens = [v for v in f.walk() if v.get('k') == 'Var' and v.get('c') and v['c'][0].get('k') == 'Call' and gen.key in F.callee_keys(v['c'][0])]
        for v in gens:
            ins = [x for x in f.walk() if x.get('k') == 'Call' and x.get('fn') in ('insert', 'emplace') and receiver(x) is not None and receiver(x).get('n') == 'mIdList' and any(y.get('k') == 'Ref' and y.get('d') == v['d'] for y in walk(x))]
            other = [x['c'][0]['i'] for x in gens if x is not v]
            cfg = f.cfg_for(v)
            ok = bool(ins) and must_pass(cfg, v['c'][0], [x['i'] for x in ins])
            # and no other generation can happen before the insertion
            if ok:
                from faillog import _can_reach
                for o in gens:
                    if o is v:
                        continue
                    if _can_reach(cfg, v['c'][0], o['c'][0]) and not any(_can_reach(cfg, i_, o['c'][0]) and cfg.node_dominates(v['c'][0], i_) for i_ in ins):
                        ok = False
            rep.check(ok, 'C13.B1', '%s|%s@%d' % (f.short.split('::')[-1], v['n'], gens.index(v) + 1), f.where(v), 'the generated id is not entered into mIdList before the next generation / the exit: the next makeUniqueId() can return the same string', 'inserted before the next generation')
    if n_set < 13:
        raise AnalysisBroken('id setters in the assign traversal: %d found, 13 confirmed' % n_set)
    aei = F.fn('assignEncapsulationId', required=False)
    if aei:
        g = aei[0]
        rr = [render(r['c'][0]) for r in g.walk() if r.get('k') == 'Return' and r.get('c')]
        rep.check(any('encapsulationId().empty()' in x for x in rr), 'C13.N1', 'assignEncapsulationId|empty-test', g.where(), 'assignEncapsulationId does not require an empty encapsulation id: %s' % rr, 'requires an empty encapsulation id')
    # setAutoId: refresh, generate, then index
    sa = F.fn1('Annotator::AnnotatorImpl::setAutoId')
    g1 = [c for c in sa.walk() if c.get('k') == 'Call' and gen.key in F.callee_keys(c)]
    ins = [x for x in sa.walk() if x.get('k') == 'Call' and x.get('fn') in ('insert', 'emplace') and receiver(x) is not None and receiver(x).get('n') == 'mIdList']
    rep.check(bool(g1) and bool(ins) and must_pass(sa.cfg(), g1[0], [x['i'] for x in ins]), 'C13.B1', 'setAutoId|indexed', sa.where(), 'setAutoId does not index the id it generated on every path', 'generated id indexed')
    um = F.fn1('libcellml::makeUniqueId')
    ins = [x for x in um.walk() if x.get('k') == 'Call' and x.get('fn') == 'insert']
    rets = [r for r in um.walk() if r.get('k') == 'Return']
    rep.check(bool(ins) and all(um.cfg().node_dominates(ins[0], r) for r in rets) and render(nth_arg(ins[0], 0)) == render(rets[0]['c'][0]), 'C13.B1', 'utilities makeUniqueId|reserves', um.where(),
              'the printer-side makeUniqueId(idList) does not insert the id it returns', 'returned id inserted into the list')
    def _unused_at_exit(g, lst):
        """at every return of the generator the returned id is known to be absent from the list (fact of the loop exit, however the loop is
        written: `while (list.count(id) != 0)`, `while (true) { ...; if (list.count(id) == 0) break; }`, a find() == end() test)"""
        from engines import facts_x
        loops = [w for w in g.walk() if w.get('k') in ('While', 'Do', 'For')]
        rets_ = [r for r in g.walk() if r.get('k') == 'Return' and r.get('c') and g.enclosing_lambda(r) is None]
        if not loops or not rets_:
            return False
        for r in rets_:
            v = render(r['c'][0])
            good = {('%s.count(%s) != 0' % (lst, v), False), ('%s.count(%s) == 0' % (lst, v), True), ('%s.count(%s) > 0' % (lst, v), False),
                    ('%s.find(%s) == %s.end()' % (lst, v, lst), True), ('%s.find(%s) != %s.end()' % (lst, v, lst), False), ('%s.count(%s)' % (lst, v), False)}
            fx = facts_x(F, g, r) or set()
            if not (fx & good):
                return False
        return True
    rep.check(_unused_at_exit(um, 'idList'), 'C13.B1', 'utilities makeUniqueId|collision-loop', um.where(), 'the id returned is not known to be absent from idList (no loop exit on idList.count(id) == 0)', 'advances until the id is unused')
    rep.check(_unused_at_exit(gen, 'mIdList'), 'C13.B1', 'AnnotatorImpl::makeUniqueId|collision-loop', gen.where(), 'the id returned is not known to be absent from mIdList (no loop exit on mIdList.count(id) == 0)', 'advances until the id is unused')

    # ------------------------------------------------------------------ X: indexed traversals
    rep.rule('C13.X1', 'in annotator.cpp every child read inside an index loop (i < owner->kindCount()) is read with that loop\'s own index: with another index the hash / id list is built from the wrong child, '
                       'an edited id goes unnoticed and is handed out a second time')
    from engines import indexed_child_accesses
    n_x = 0
    for g in F.funcs.values():
        if not g.file.endswith(('/annotator.cpp',)) and g.name not in ('listIds', 'listComponentIds', 'makeUniqueId'):
            continue
        for loop, c, ivar, uses in indexed_child_accesses(g):
            n_x += 1
            rep.check(uses, 'C13.X1', '%s|%s' % (g.short.split('::')[-1], render(c)[:50]), g.where(c), '%s: inside `for (%s)` the child is read by `%s`, which does not use %s' % (g.short, render(role(loop, 'cond')), render(c)[:60], ivar), 'indexed by ' + ivar)
    if n_x < 20:
        raise AnalysisBroken('C13.X1: only %d indexed child accesses in annotator.cpp (40+ confirmed)' % n_x)

    # ------------------------------------------------------------------ L: the index records every id
    rep.rule('C13.L1', 'the index builders (listIdsAndItems and its helpers) record an id whenever it is non-empty: each insertion into the id list depends on non-empty / non-null tests (and found-once bookkeeping) only, '
                       'never on where the entity sits in the model - an id that is carried but not indexed is invisible to makeUniqueId() and is handed out a second time')
    from engines import ff as _ff
    from facts import null_test as _nt
    n_l = 0
    for g in F.funcs.values():
        if not g.file.endswith('/annotator.cpp') or not g.name.startswith('list'):
            continue
        for c in g.walk():
            if c.get('k') == 'Call' and c.get('mc') and c.get('fn') in ('insert', 'emplace') and render(receiver(c)) in ('idList', 'mIdList'):
                n_l += 1
                extra = []
                for cn, tr in (_ff(g).conds_at(c) or []):
                    t = render(cn)
                    if _nt(cn) is not None or t.endswith('.empty()') or 'found' in t.lower() or t.startswith('reportedConnections') or '.count(' in t or 'isStandardUnit' in t or t.endswith('->isImport()'):
                        continue
                    # loop conditions (index < count) are not conditions on the entity
                    if cn.get('k') == 'Bin' and cn.get('op') == '<':
                        continue
                    # found-once bookkeeping done by a predicate helper of this file that is handed the id list (judged by rule L2)
                    if cn.get('k') == 'Call' and not cn.get('opc') and any(F.funcs[ck_].file == g.file and (F.funcs[ck_].j.get('ret') or '') == 'bool' for ck_ in F.callee_keys(cn) if ck_ in F.funcs) \
                            and any(render(a_) in ('idList', 'mIdList') for a_ in cn.get('c', [])):
                        continue
                    extra.append((t, tr))
                rep.check(not extra, 'C13.L1', '%s|%s' % (g.name, render(c)[:50]), g.where(c), '%s records this id only when %s' % (g.short, ' and '.join('`%s` is %s' % e for e in extra)[:160]), 'recorded whenever the id is non-empty')
    if n_l < 10:
        raise AnalysisBroken('C13.L1: only %d id-list insertions found (13 confirmed)' % n_l)

    rep.rule('C13.L2', 'where an index builder skips an id because "it has been recorded already", that verdict is about the very entity it is about to record: the flag that suppresses the insertion is raised only under a test that mentions '
                       'that entity (or the entities it is made of); a test on the id and the kind of item alone merges two different entities that carry the same id, and the duplicate is then invisible')
    from engines import enclosing_conditions as _enc13
    n_l2 = 0
    for g in F.funcs.values():
        if not g.file.endswith('/annotator.cpp') or not g.name.startswith('list'):
            continue
        for c in g.walk():
            if not (c.get('k') == 'Call' and c.get('mc') and c.get('fn') in ('insert', 'emplace') and render(receiver(c)) in ('idList', 'mIdList')):
                continue
            flags = {}
            for cn, br, st in _enc13(g, c):
                for x in walk(cn):
                    if x.get('k') == 'Ref' and x.get('dk') == 'local' and x.get('t') == 'bool':
                        flags[x['d']] = x['n']
            # ... or the verdict of a predicate helper of this file (`if (!isConnectionListed(idList, id, variable, equivalentVariable))`)
            helpers = []
            for cn, br, st in _enc13(g, c):
                for x in walk(cn):
                    if x.get('k') == 'Call' and not x.get('opc') and not x.get('mc'):
                        for ck in F.callee_keys(x):
                            h_ = F.funcs.get(ck)
                            if h_ is not None and h_.file == g.file and (h_.j.get('ret') or '') == 'bool' and any('idList' in render(a_) or 'IdList' in render(a_) for a_ in x.get('c', [])):
                                helpers.append((x, h_))
            if not flags and not helpers:
                continue
            # the entities the recorded entry is made of: arguments of the set<Kind>() call on the entry in the same block
            blk = g.parent(c)
            while blk is not None and blk.get('k') != 'Compound':
                blk = g.parent(blk)
            ents = set()
            for s_ in walk(blk or {}):
                if s_.get('k') == 'Call' and s_.get('mc') and (s_.get('fn') or '').startswith('set') and 'entry' in render(s_['c'][0]):
                    for a in s_['c'][1:]:
                        for x in walk(a):
                            if x.get('k') == 'Ref' and x.get('dk') in ('local', 'parm'):
                                ents.add(x['d'])
            for x, h_ in helpers:
                n_l2 += 1
                # which parameters of the helper receive the entity, and does a positive verdict of the helper depend on them?
                pos = [i_ for i_, a_ in enumerate(x.get('c', [])) if any(y.get('k') == 'Ref' and y.get('d') in ents for y in walk(a_))]
                pds = {h_.params[i_]['d'] for i_ in pos if i_ < len(h_.params)}
                evid_h = []
                for a_ in h_.walk():
                    if (a_.get('k') == 'Bin' and a_.get('op') == '=' and a_['c'][0].get('k') == 'Ref' and (a_['c'][0].get('t') or '') == 'bool' and not (a_['c'][1].get('k') == 'Bool' and not a_['c'][1].get('v'))) \
                            or (a_.get('k') == 'Return' and a_.get('c') and not (a_['c'][0].get('k') == 'Bool' and not a_['c'][0].get('v'))):
                        evid_h += [cn2 for cn2, br2, st2 in _enc13(h_, a_)] + ([a_['c'][0]] if a_.get('k') == 'Return' else [a_['c'][1]])
                about_h = bool(pds) and any(y.get('k') == 'Ref' and y.get('d') in pds for e_ in evid_h for y in walk(e_))
                rep.check(about_h or not ents, 'C13.L2', '%s|%s|%s' % (g.name, h_.name, render(c)[:40]), g.where(c),
                          '%s suppresses the insertion on the verdict of %s, but that verdict does not depend on the entity being recorded: two different entities with the same id and kind are merged into one index entry' % (g.short, h_.name),
                          'the already-recorded test (%s) looks at the entity being recorded' % h_.name)
            for d, nm in flags.items():
                n_l2 += 1
                evid = [v['c'][0] for v in g.walk() if v.get('k') == 'Var' and v.get('d') == d and v.get('c')]
                for a in g.walk():
                    if a.get('k') == 'Bin' and a.get('op') == '=' and a['c'][0].get('k') == 'Ref' and a['c'][0].get('d') == d and not (a['c'][1].get('k') == 'Bool' and not a['c'][1].get('v')):
                        evid.append(a['c'][1])
                        evid += [cn for cn, br, st in _enc13(g, a)]
                about = any(x.get('k') == 'Ref' and x.get('d') in ents for e in evid for x in walk(e))
                rep.check(about or not ents, 'C13.L2', '%s|%s|%s' % (g.name, nm, render(c)[:40]), g.where(c),
                          '%s suppresses the insertion when `%s` is set, but nothing that sets it looks at the entity being recorded: two different entities with the same id and kind are merged into one index entry' % (g.short, nm),
                          'the already-recorded test mentions the entity being recorded')
    if n_l2 < 2:
        raise AnalysisBroken('C13.L2: only %d found-once flags guard id-list insertions (2 confirmed: mappings, connections)' % n_l2)

    rep.rule('C13.H1', 'the change-detection hash of the annotator is stored only where the index has just been rebuilt (AnnotatorImpl::update) or the model replaced: any other writer marks a hand-patched index as fresh')
    n_h = 0
    from engines import is_write_context as _iw
    for g in F.funcs.values():
        if not g.file.endswith('/annotator.cpp'):
            continue
        for m_ in g.walk():
            if m_.get('k') == 'Member' and m_.get('field') and m_.get('n') == 'mHash' and _iw(g, m_):
                n_h += 1
                p_ = g.parent(m_)
                rhs = p_['c'][1] if p_ is not None and len(p_.get('c', [])) > 1 else None
                if rhs is not None and rhs.get('k') == 'Int' and rhs.get('v') == 0:
                    rep.ok('C13.H1', '%s|mHash = 0' % g.short, g.where(m_), 'invalidates the index')
                    continue
                rep.check(g.name in ('update', 'AnnotatorImpl', 'Annotator'), 'C13.H1', '%s|mHash' % g.short, g.where(m_), '%s stores the hash although it does not rebuild the index' % g.short, 'written by %s' % g.name)
    if n_h < 1:
        raise AnalysisBroken('C13.H1: no writer of AnnotatorImpl::mHash found')

    # ------------------------------------------------------------------ M1: what is walked is read from the model now
    rep.rule('C13.M1', 'every loop of annotator.cpp over entities of the model walks what the model holds NOW (a collection obtained from mModel.lock(), a parameter or a local in the same call): no loop runs over a data member of '
                       'AnnotatorImpl other than the id index itself (mIdList, whose freshness the hash guards). A list of entities stored when the index was built is not covered by the hash - entities without an id do not enter it - '
                       'so an import source, component or units that replaced another one since then would be skipped and its detached predecessor given the id')
    from engines import single_def as _sd13, is_this_like as _itl13
    n_m1 = 0

    def _members(g_, e, depth=0):
        out = []
        for x in walk(e):
            if x.get('k') == 'Member' and x.get('field') and 'AnnotatorImpl' in (x.get('q') or '') and _itl13((x.get('c') or [None])[0]):
                out.append(x['n'])
            elif x.get('k') == 'Ref' and x.get('dk') == 'local' and depth < 4:
                i_ = _sd13(g_, x.get('d'))
                if i_ is not None:
                    out += _members(g_, i_, depth + 1)
        return out
    for g in F.funcs.values():
        if not g.file.endswith('/annotator.cpp'):
            continue
        for L in g.walk():
            if L.get('k') == 'RangeFor':
                src = role(L, 'range')
            elif L.get('k') == 'For' and role(L, 'cond') is not None:
                src = role(L, 'cond')
            else:
                continue
            n_m1 += 1
            stored = sorted(set(m_ for m_ in _members(g, src) if m_ not in ('mModel', 'mIdList', 'mAnnotator')))
            rep.check(not stored, 'C13.M1', '%s|loop@%s' % (g.short.split('::')[-1], render(src)[:40]), g.where(L),
                      '%s walks `%s`, which is (derived from) the data member %s filled by an earlier call, not what the model holds now' % (g.short, render(src)[:50], stored), 'walks the model / a parameter / the id index')
    if n_m1 < 15:
        raise AnalysisBroken('C13.M1: only %d loops found in annotator.cpp (15 confirmed)' % n_m1)

    # ------------------------------------------------------------------ A: flags gathered over loops
    from engines import rule_accumulators
    rule_accumulators(F, rep, 'C13.A1', lambda g: g.file.endswith('/annotator.cpp'), 2, 'annotator.cpp', 'whether an entry was already recorded must not depend on the last entry compared')

    # ------------------------------------------------------------------ W: walks over the component tree are complete
    import recursion as _recw
    _recw.rule_walkers(F, rep, 'C13.W1', ['listComponentIdsAndItems', 'doClearComponentIds', 'doSetComponentTreeTypeIds', 'doUpdateComponentHash', 'listComponentIds'], 5, 'indexing, assigning and clearing ids')

    # ------------------------------------------------------------------ loop-carried locals
    from engines import rule_loop_state
    rule_loop_state(F, rep, 'C13.S1', lambda g: g.file.endswith('/annotator.cpp'), 'annotator.cpp')

    # ------------------------------------------------------------------ every element of a collection is handled
    from engines import rule_visit_all
    rule_visit_all(F, rep, 'C13.Y1', lambda g: g.file.endswith('/annotator.cpp'), 15, 'annotator.cpp')

    # ------------------------------------------------------------------ no id is read and then forgotten
    rep.rule('C13.V1', 'an id that has been read from the model into a local is looked at (tested, recorded) before that local is given another value: a local that is reused for the next id '
                       'before the first one was recorded makes the collectors of ids in use (annotator index, the printer\'s listIds) miss ids, and those ids are then handed out a second time')
    from engines import lost_values

    def _is_id_read(e):
        return any(x.get('k') == 'Call' and x.get('mc') and (x.get('fn') in ('id', 'encapsulationId', 'testValueId', 'resetValueId') or (x.get('fn') or '').endswith('Id')) and not (x.get('fn') or '').startswith(('set', 'remove', 'assign', 'make')) for x in walk(e))
    n_v1 = 0
    for g in F.funcs.values():
        if not g.file.endswith(('/annotator.cpp', '/utilities.cpp', '/printer.cpp')):
            continue
        reads_ = [a for a in g.walk() if ((a.get('k') == 'Call' and a.get('opc') == '=') or a.get('k') == 'Var') and a.get('c') and _is_id_read(a['c'][-1])]
        n_v1 += len(reads_)
        for a, x in lost_values(g, _is_id_read):
            rep.fail('C13.V1', '%s|%s' % (g.short.split('::')[-1], render(a)[:50]), g.where(a), '%s: the id read by `%s` can be overwritten at line %s before anything looked at it' % (g.short, render(a)[:60], x.get('l')))
    rep.ok('C13.V1', 'scan', None, '%d reads of an id into a local in annotator.cpp, utilities.cpp and printer.cpp; none can be overwritten unread' % n_v1)
    if n_v1 < 20:
        raise AnalysisBroken('C13.V1: only %d reads of ids into locals found (40+ confirmed)' % n_v1)


