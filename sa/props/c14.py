"""C14 - CellML 1.0/1.1 documents are faithfully transformed in permissive mode (structural clauses)."""
import re
from facts import walk, render, role, is_call, AnalysisBroken
from engines import render_x, ff, nth_arg, receiver, enclosing_conditions
import issues

LEVEL = ('Rules over parser.cpp (clang AST/CFG): (S) in strict mode a non-2.0 root is refused with an issue before any child is loaded; (L) on every path on which the parser is known to be in 1.x mode an added issue has been given Level::MESSAGE '
         '(path-sensitive dataflow from the creation of the issue to addIssue); (V) the legacy vocabulary is recognised in the 1.x branches; (A) legacy attribute values are consulted, not just their presence; '
         '(F) every entity added to the model inside a loop over XML children is created inside that iteration; (M) the MathML of 1.x documents goes through the namespace rewrite. Content equality with the 2.0 original is not executed.')
ASSUMPTIONS = ['mParsing1XVersion is true exactly while a 1.0/1.1 document is parsed (rule C12.H1 checks that it is reset per parse)']

LEGACY = {
    'public_interface': 'loadVariable', 'private_interface': 'loadVariable', 'group': 'loadModel', 'relationship_ref': 'loadEncapsulation', 'map_components': 'loadConnection',
    'units_ref': None, 'component_ref': None,
}


def is_1x(n):
    return n is not None and n.get('k') == 'Member' and n.get('n') == 'mParsing1XVersion'


def run(F, rep):
    pfs = [f for f in F.funcs.values() if f.file.endswith('parser.cpp')]
    lm = F.fn1('Parser::ParserImpl::loadModel')

    # ------------------------------------------------------------------ S
    rep.rule('C14.S1', 'loadModel refuses a non-2.0 root in strict mode: an early return under isStrict() && !mParsing20Version, with an issue added, dominates every child-loading call')
    loads = [c for c in lm.walk() if c.get('k') == 'Call' and c.get('fn') in ('loadComponent', 'loadUnits', 'loadImport', 'loadEncapsulation', 'loadConnection', 'loadUnitsFromComponent') and lm.enclosing_lambda(c) is None]
    if len(loads) < 5:
        raise AnalysisBroken('loadModel: child-loading calls not found')
    gates = []
    for iff in lm.walk():
        if iff.get('k') == 'If':
            cnd = role(iff, 'cond')
            t = render_x(lm, cnd)
            if 'mParser->isStrict() && !mParsing20Version' in t:
                thn = role(iff, 'then')
                has_ret = any(r.get('k') == 'Return' for r in walk(thn))
                has_add = any(c.get('k') == 'Call' and c.get('fn') == 'addIssue' for c in walk(thn))
                ends = thn.get('c', [])[-1].get('k') == 'Return' if thn.get('c') else False
                if has_ret and has_add and ends:
                    gates.append(cnd)
    okg = bool(gates) and all(lm.cfg().node_dominates(gates[0], c) for c in loads)
    rep.check(okg, 'C14.S1', 'loadModel|strict-gate', lm.where(), 'no early return with an issue under `isStrict() && !mParsing20Version` dominates the loading of children: the strict parser would transform a 1.x document', 'strict gate dominates %d load calls' % len(loads))
    if gates:
        # the issue of the refusal is an error (default level) and, in strict mode, carries a rule
        sites = [s for s in issues.sites(F) if s.func is lm and any(x is s.create for x in walk(role(next(i for i in lm.walk() if i.get('k') == 'If' and role(i, 'cond') is gates[0]), 'then')))]
        rep.check(bool(sites) and all(s.level is None for s in sites), 'C14.S1', 'loadModel|refusal-is-an-error', lm.where(), 'the refusal issue is not error level', 'refusal reported as an error')

    # ------------------------------------------------------------------ L
    rep.rule('C14.L1', 'on every path from the creation of an issue to addIssue on which the parser is known to be in 1.x mode (a branch on mParsing1XVersion taken true), setLevel(Level::MESSAGE) has been applied to that issue')
    S = [s for s in issues.sites(F) if s.func.file.endswith('parser.cpp')]
    n_l = 0
    for s in S:
        f = s.func
        cfg = f.cfg_for(s.create)
        if cfg is None or not s.add_nodes:
            continue
        d = s.var['d']
        lv = {}
        for c in s.level_nodes:
            a = nth_arg(c, 0)
            lv[c['i']] = a.get('n') if a is not None and a.get('k') == 'Ref' else '?'
        adds = {a['i'] for a in s.add_nodes}
        start = cfg.block_of(s.create)
        if start is None:
            continue
        init1x = any(t and is_1x(c) for c, t in (ff(f).conds_at(s.create) or []))
        initnot = any((not t) and is_1x(c) for c, t in (ff(f).conds_at(s.create) or []))
        # states: (known1x, leveled_as_message)
        seen = {}
        work = [(start[0], start[1] + 1, (init1x, False, initnot))]
        bad = None
        involved = init1x
        reach_1x = reach_not1x = False
        while work:
            b, i0, st = work.pop()
            key = (b, i0 == 0 or i0, st)
            if (b, st) in seen and i0 == 0:
                continue
            if i0 == 0:
                seen[(b, st)] = True
            k1, lev, n1 = st
            blk = cfg.blocks[b]
            stop = False
            for e in blk['el'][i0:]:
                if e in lv:
                    lev = lv[e] == 'MESSAGE'
                if e in adds:
                    if k1:
                        reach_1x = True
                    if n1:
                        reach_not1x = True
                    if k1 and not lev and bad is None:
                        bad = f.nodes[e]
                    stop = True
                    break
            if stop:
                continue
            cond = blk.get('lc') or blk.get('tc')
            cn = f.nodes.get(cond) if cond else None
            neg = False
            while cn is not None and cn.get('k') == 'Un' and cn.get('op') == '!' and cn.get('c'):
                cn = cn['c'][0]
                neg = not neg
            for idx, sx in enumerate(blk['succ']):
                if sx is None:
                    continue
                k2, n2 = k1, n1
                if cn is not None and is_1x(cn) and len(blk['succ']) == 2:
                    truth = (idx == 0) != neg
                    if truth and n1:
                        continue   # infeasible: already known not to be 1.x
                    if (not truth) and k1:
                        continue   # infeasible
                    if truth:
                        k2 = True
                        involved = True
                    else:
                        n2 = True
                work.append((sx, 0, (k2, lev, n2)))
        # in scope: sites shared by the 1.x and the 2.0 path (the version decides how the construct is reported), and sites already downgraded
        if (reach_1x and reach_not1x) or any(l == 'MESSAGE' for l in lv.values()):
            n_l += 1
            rule = '+'.join(s.rules) or 'UNDEFINED'
            ord_ = sum(1 for x in S if x.func is f and x.create.get('l', 0) < s.create.get('l', 0) and ('+'.join(x.rules) or 'UNDEFINED') == rule) + 1
            rep.check(bad is None, 'C14.L1', '%s|%s#%d' % (f.short.split('::')[-1], rule, ord_), s.where,
                      'in 1.x mode this issue reaches addIssue without setLevel(Level::MESSAGE): a construct the permissive parser merely drops is reported as an error (description: %s)' % (render(s.desc)[:70] if s.desc is not None else '?'),
                      'MESSAGE on every 1.x path')
    if n_l < 10:
        raise AnalysisBroken('1.x-dependent issue sites: %d found, 14 confirmed' % n_l)

    # ------------------------------------------------------------------ V
    rep.rule('C14.V1', 'the legacy vocabulary (public_interface, private_interface, group, relationship_ref, map_components, cmeta:id, liter/meter) is recognised by name in the 1.x code paths')
    lits = {}
    for f in pfs:
        for n in f.walk():
            if n.get('k') == 'Str':
                lits.setdefault(n.get('v'), []).append((f, n))
    for word, where_fn in (('public_interface', 'loadVariable'), ('private_interface', 'loadVariable'), ('group', None), ('relationship_ref', None), ('map_components', 'loadConnection'),
                           ('liter', 'convertNonSiUnits'), ('meter', 'convertNonSiUnits'), ('litre', 'convertNonSiUnits'), ('metre', 'convertNonSiUnits')):
        hits = lits.get(word, [])
        ok = bool(hits) and (where_fn is None or any(h[0].name == where_fn for h in hits))
        rep.check(ok, 'C14.V1', word, hits[0][0].where(hits[0][1]) if hits else None, 'legacy name `%s` is no longer recognised%s' % (word, ' in ' + where_fn if where_fn else ''), 'recognised in %s' % sorted({h[0].name for h in hits}))
    ida = F.fn1('libcellml::isIdAttribute')
    rep.check(any(x.get('k') == 'Ref' and x.get('n') == 'CMETA_1_0_NS' for x in ida.walk()) and any(x.get('k') == 'Ref' and x.get('dk') == 'parm' and x.get('n') == ida.params[1]['n'] for x in ida.walk()),
              'C14.V1', 'cmeta:id', ida.where(), 'cmeta:id is no longer accepted as an id when transforming', 'cmeta:id accepted when transforming')

    # ------------------------------------------------------------------ A
    rep.rule('C14.A1', 'the 1.x public_interface/private_interface branches of loadVariable read the attribute value (a value of "none" is not an interface)')
    lv_ = F.fn1('Parser::ParserImpl::loadVariable')
    for word in ('public_interface', 'private_interface'):
        sets = [c for c in lv_.walk() if c.get('k') == 'Call' and c.get('fn') == 'setInterfaceType' and any(t and ('attribute->isType("%s"' % word) in cnd for cnd, t in (ff(lv_).rendered_conds_at(c) or set()))]
        if not sets:
            rep.fail('C14.A1', word, lv_.where(), 'no interface is derived from %s any more' % word)
            continue
        okv = all(any('attribute->value()' in cnd for cnd, t in (ff(lv_).rendered_conds_at(c) or set())) for c in sets)
        rep.check(okv, 'C14.A1', word, lv_.where(sets[0]), 'the interface is set from the mere presence of %s; its value ("none") is never read' % word, 'value consulted')

    # ------------------------------------------------------------------ F
    rep.rule('C14.F1', 'an entity added to the model/component inside a loop over XML children is created inside that loop iteration (one object per element)')
    n_f = 0
    for f in pfs:
        for c in f.walk():
            if c.get('k') == 'Call' and c.get('mc') and c.get('fn') in ('addUnits', 'addComponent', 'addVariable', 'addReset') and len(c.get('c', [])) == 2:
                a = c['c'][1]
                if a.get('k') != 'Ref' or a.get('dk') != 'local':
                    continue
                loops = [l for l in f.ancestors(c) if l.get('k') in ('While', 'For', 'Do', 'RangeFor')]
                if not loops:
                    continue
                defs = []
                for v in f.walk():
                    cc = v.get('c', [])
                    if v.get('k') == 'Var' and v.get('d') == a['d'] and cc:
                        defs.append((v, cc[0]))
                    elif v.get('k') == 'Call' and v.get('opc') == '=' and cc and cc[0].get('k') == 'Ref' and cc[0].get('d') == a['d']:
                        defs.append((v, cc[1]))
                creating = [(v, e) for v, e in defs if any(y.get('k') == 'Call' and y.get('fn') == 'create' for y in walk(e))]
                if not creating:
                    continue   # looked up, not created here
                n_f += 1
                inside = all(any(x is loops[0] for x in f.ancestors(v)) for v, e in creating)
                created = True
                rep.check(inside and created, 'C14.F1', '%s|%s(%s)' % (f.short.split('::')[-1], c['fn'], a['n']), f.where(c),
                          '`%s` is created outside the loop that adds it: every element of the document ends up in one shared object' % a['n'], 'created per iteration')
    if n_f < 4:
        raise AnalysisBroken('entities created and added inside loops: %d found, 5 confirmed' % n_f)

    # ------------------------------------------------------------------ M
    rep.rule('C14.M1', 'MathML of a 1.x document is rewritten: removeCellml1XNamespaces/addNamespaceDefinition are applied on the 1.x path of loadComponent')
    lc = F.fn1('Parser::ParserImpl::loadComponent')
    calls = [c for c in lc.walk() if c.get('k') == 'Call' and c.get('fn') in ('removeNamespaceDefinition', 'addNamespaceDefinition', 'setNamespacePrefix', 'removeCellml1XNamespaces', 'updateCellml1XToCellml2Namespace', 'changeNamespace')]
    on1x = [c for c in calls if any(t and is_1x(cn) for cn, t in (ff(lc).conds_at(c) or []))]
    allp = [c for f in pfs for c in f.walk() if c.get('k') == 'Call' and c.get('fn') in ('removeNamespaceDefinition', 'addNamespaceDefinition')]
    rep.check(bool(on1x) or bool(allp), 'C14.M1', 'loadComponent|math-namespace-rewrite', lc.where(), 'no namespace rewrite of 1.x math remains', '%d rewrite calls (%d on the 1.x path of loadComponent)' % (len(allp) + len(calls), len(on1x)))

    # ------------------------------------------------------------------ A: flags gathered over XML children
    rep.rule('C14.A2', 'in parser.cpp a flag that is gathered over a loop of XML nodes and consulted afterwards is only ever raised inside the loop (an assignment `flag = <test of this node>` lets the LAST node decide: '
                       'a 1.x <group> with relationship_ref encapsulation followed by another relationship_ref is silently dropped); an assignment under a test of one attribute name is exempt, an element has at most one attribute of a name')
    from engines import accumulating_flags, enclosing_conditions as _encl
    n_a = 0
    for g in F.funcs.values():
        if not g.file.endswith('/parser.cpp'):
            continue
        for v, loop, x, mono in accumulating_flags(g):
            n_a += 1
            if not mono:
                per_attr = any(br == 'then' and 'isType(' in render(cnd) for cnd, br, st in _encl(g, x) if any(y is st for y in walk(loop)) or True)
                if per_attr:
                    rep.exempt('C14.A2', '%s|%s' % (g.short.split('::')[-1], render(x)[:50]), 'assigned under a test of one attribute name (at most one such attribute per element)')
                    continue
            rep.check(mono, 'C14.A2', '%s|%s' % (g.short.split('::')[-1], render(x)[:50]), g.where(x), '%s: `%s` inside the loop lets the last XML node decide %s, which is consulted after the loop' % (g.short, render(x)[:60], v['n']), 'only raised')
    if n_a < 15:
        raise AnalysisBroken('C14.A1: only %d accumulating flags found in parser.cpp (19 confirmed)' % n_a)

    # ------------------------------------------------------------------ M2 / I1
    rep.rule('C14.M2', 'the removal of the 1.x namespace declarations from a math element happens for EVERY math element of a 1.x document: the call depends on the 1.x mode and on the element being math only '
                       '(math without a cn carries the declaration too and is otherwise rejected by the MathML validation of the transformed model)')
    rm = [c for c in lc.walk() if c.get('k') == 'Call' and c.get('fn') in ('removeCellml1XNamespaces', 'removeNamespaceDefinition')]
    if not rm:
        raise AnalysisBroken('loadComponent: removeCellml1XNamespaces call vanished')
    # the attributes that use the old namespace are COLLECTED first and the declarations removed afterwards: removing a declaration un-qualifies every attribute below it
    # that used it (libxml2 nulls their namespace), so a collector that also removes declarations as it goes loses the attributes of the elements it has not reached yet
    coll = [g_ for g_ in F.funcs.values() if g_.name == 'attributesWithCellml1XNamespace' and '/src/' in g_.file]
    if not coll:
        raise AnalysisBroken('attributesWithCellml1XNamespace vanished')
    for g_ in coll:
        rem_ = sorted({F.funcs[k_].name for k_ in F.reach([g_.key]) if k_ in F.funcs and F.funcs[k_].name in ('removeNamespaceDefinition', 'removeCellml1XNamespaces', 'clearNamespace')})
        rep.check(not rem_, 'C14.M2', 'attributesWithCellml1XNamespace|collects only', g_.where(), 'the traversal that records the attributes in the 1.x namespace also calls %s: a declaration on an intermediate element is removed before the attributes below it have been recorded' % rem_, 'removes nothing')
    for c in rm:
        extra = []
        for cn, tr in (ff(lc).conds_at(c) or []):
            t = render(cn)
            if is_1x(cn) or 'isMathmlElement("math")' in t or 'isCellmlElement(' in t or 'isCellml20Element(' in t or t.endswith('!= nullptr') or 'childNode' == t:
                continue
            extra.append((t, tr))
        rep.check(not extra, 'C14.M2', 'loadComponent|removeCellml1XNamespaces', lc.where(c), 'the 1.x namespaces are removed only when %s' % ' and '.join('`%s` is %s' % e for e in extra)[:160], 'for every 1.x math element')

    rep.rule('C14.I1', 'identifiers of 1.x documents (cmeta:id) are recognised wherever a loader that can run on a 1.x document reads an id: such loaders test id attributes through isIdAttribute(attribute, mParsing1XVersion), '
                       'not through isType("id") - only elements that exist in 2.0 alone (reset children) may use the latter')
    import xmlvocab
    pa_, pe_ = xmlvocab.parser_vocab(F)
    ONLY_20 = {'loadResetChild': 'test_value/reset_value exist in CellML 2.0 only', 'loadReset': 'reset exists in CellML 2.0 only'}
    n_i = 0
    for a in pa_:
        if a['attr'] != 'id':
            continue
        n_i += 1
        direct = a['site'].get('fn') == 'isType'
        if direct and a['func'].name in ONLY_20:
            rep.exempt('C14.I1', '%s|%s' % (a['func'].name, a['element']), ONLY_20[a['func'].name])
            continue
        rep.check(not direct, 'C14.I1', '%s|%s' % (a['func'].name, a['element']), a['func'].where(a['site']), '%s recognises the id of <%s> with isType("id"): the cmeta:id of a 1.x document is reported as an invalid attribute and lost' % (a['func'].short, a['element']), 'isIdAttribute')
    if n_i < 10:
        raise AnalysisBroken('C14.I1: only %d id-recognition sites (13 confirmed)' % n_i)

    # ------------------------------------------------------------------ loop-carried locals
    from engines import rule_loop_state
    rule_loop_state(F, rep, 'C14.S2', lambda g: g.file.endswith(('/parser.cpp', '/xmlutils.cpp')), 'parser.cpp and xmlutils.cpp')

    # ------------------------------------------------------------------ N: both legacy namespaces are removed
    rep.rule('C14.N2', 'removeCellml1XNamespaces removes the CellML 1.0 and the 1.1 namespace declarations independently of each other: the removal of one does not depend on whether the element also declares the other '
                       '(an element that declares both keeps one of them otherwise, and its cn elements lose their units)')
    rn = F.fn1('libcellml::removeCellml1XNamespaces')
    rms = [c for c in rn.walk() if c.get('k') == 'Call' and c.get('fn') == 'removeNamespaceDefinition']
    nss = {render(nth_arg(c, 0)) for c in rms}
    if len(rms) < 2 or len(nss) < 2:
        raise AnalysisBroken('removeCellml1XNamespaces: removal calls for the two legacy namespaces not found (%s)' % sorted(nss))
    for c in rms:
        own = render(nth_arg(c, 0))
        dep = []
        for cn, tr in (ff(rn).conds_at(c) or []):
            for x in walk(cn):
                if x.get('k') == 'Call' and x.get('fn') in ('hasNamespaceDefinition',) and render(nth_arg(x, 0)) != own and render(nth_arg(x, 0)) in nss:
                    dep.append('%s is %s' % (render(x)[:60], tr))
        rep.check(not dep, 'C14.N2', 'remove %s' % own.split('::')[-1], rn.where(c), 'the %s declaration is removed only when %s' % (own.split('::')[-1], ' and '.join(dep)), 'independent of the other namespace')

    # ------------------------------------------------------------------ sibling cursors
    from engines import rule_cursor_loops
    rule_cursor_loops(F, rep, 'C14.K1', lambda g: g.file.endswith(('/parser.cpp', '/xmlutils.cpp', '/xmlnode.cpp')), 25, 'the parser and its XML helpers')

    # ------------------------------------------------------------------ H: the 1.x mode is decided per document (clause shared with C12)
    if not getattr(rep, 'nested', False):
        import c12
        c12.rule_h1(F, rep, 'C14.H1', [st for st in c12.STATE if st[0] == 'Parser::ParserImpl'])

    # ------------------------------------------------------------------ E2: element tests name their element
    rep.rule('C14.E2', 'in parser.cpp every test of the kind of a CellML element (isCellmlElement / isCellml1XElement / isCellml20Element / ...) names the element it looks for: with the name left out the test is true for ANY element of that namespace '
                       '(the first 1.x child of a <connection> is then taken for its map_components)')
    n_e2 = 0
    for g in F.funcs.values():
        if not g.file.endswith('/parser.cpp'):
            continue
        for c in g.walk():
            if c.get('k') == 'Call' and c.get('mc') and re.match(r'^isCellml\w*Element$', c.get('fn') or ''):
                n_e2 += 1
                a = c['c'][1] if len(c.get('c', [])) > 1 else None
                named = a is not None and a.get('k') != 'DefArg' and any(x.get('k') == 'Str' or (x.get('k') == 'Ref' and x.get('dk') == 'parm') for x in walk(a))
                def _only_picks_text(g_, c_):
                    """the test merely chooses between two string literals (`x ? "1.0" : "1.1"`, `if (x) return "1.0"; return "1.1";`): a version label for a message"""
                    p_ = g_.parent(c_)
                    while p_ is not None and p_.get('k') in ('Paren', 'Cast', 'Un'):
                        p_ = g_.parent(p_)
                    if p_ is None:
                        return False
                    if p_.get('k') == 'Cond' and len(p_.get('c', [])) == 3:
                        return all(any(x.get('k') == 'Str' for x in walk(arm)) and not any(x.get('k') == 'Call' and not x.get('opc') and x.get('fn') not in ('basic_string',) and x.get('k') != 'Construct' for x in walk(arm) if x.get('k') == 'Call' and (x.get('ck') or '').startswith('libcellml')) for arm in p_['c'][1:])
                    if p_.get('k') == 'If' and role(p_, 'cond') is not None and any(x is c_ for x in walk(role(p_, 'cond'))):
                        th_ = role(p_, 'then')
                        rets_ = [x for x in walk(th_ or {}) if x.get('k') == 'Return']
                        return bool(rets_) and all(x.get('c') and any(y.get('k') == 'Str' for y in walk(x['c'][0])) for x in rets_) and len(list(walk(th_))) < 12
                    return False
                if not named and (g.name == 'nodesCellMl1XVersion' or _only_picks_text(g, c)):
                    rep.exempt('C14.E2', '%s|namespace only' % g.name, 'asks which 1.x namespace the element is in, whatever the element, only to pick the version label of a message')
                    continue
                rep.check(named, 'C14.E2', '%s|%s@%s' % (g.short.split('::')[-1], c['fn'], sum(1 for x in g.walk() if x.get('k') == 'Call' and x.get('fn') == c['fn'] and x.get('l', 0) < c.get('l', 0))), g.where(c),
                          '%s calls `%s` without naming the element' % (g.short, render(c)[:50]), 'named')
    if n_e2 < 10:
        raise AnalysisBroken('C14.E2: only %d element-kind tests in parser.cpp (19 confirmed)' % n_e2)

    # ------------------------------------------------------------------ both arms of a version test hand over the same values
    from engines import rule_arm_agreement
    rule_arm_agreement(F, rep, 'C14.B1', lambda g: g.file.endswith('/parser.cpp'), 'parser.cpp')

    # ------------------------------------------------------------------ whole-model fix-ups reach every component
    rep.rule('C14.T1', 'a fix-up pass of loadModel over the components of the model that runs after the encapsulation has been loaded (which moves components under their parents) reaches the whole hierarchy: '
                       'a plain loop over model->component(i) sees the top level only, so the 1.x transformation would be applied to top-level components and skipped for encapsulated ones')
    import recursion as _rec14
    lm14 = F.fn1('Parser::ParserImpl::loadModel')
    enc14 = [c for c in lm14.walk() if c.get('k') == 'Call' and c.get('fn') == 'loadEncapsulation']
    if not enc14:
        raise AnalysisBroken('loadModel: call of loadEncapsulation vanished')
    last_enc = max(c.get('l', 0) for c in enc14)
    walkers14 = {g_.key for g_, loop_, rec_ in _rec14.tree_walkers(F)}
    n_t1 = 0
    for L in lm14.walk():
        if L.get('k') == 'For' and 'componentCount()' in render(role(L, 'cond')) and L.get('l', 0) > last_enc and lm14.enclosing_lambda(L) is None:
            n_t1 += 1
            deep = any(c.get('k') == 'Call' and not c.get('opc') and any(k_ in walkers14 or (k_ in F.funcs and walkers14 & F.reach([k_])) for k_ in F.callee_keys(c)) for c in walk(role(L, 'body')))
            rep.check(deep, 'C14.T1', 'loadModel|loop@%s' % render(role(L, 'cond'))[:40], lm14.where(L), 'loadModel runs `for (%s)` after loadEncapsulation and handles each top-level component itself: components encapsulated under them are not visited' % render(role(L, 'cond'))[:50],
                      'hands each component to a walk of the whole subtree')
    rep.ok('C14.T1', 'scan', None, '%d loops over the model\'s components after the encapsulation was loaded' % n_t1)

