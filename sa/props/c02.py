"""C02 - printing then parsing a model preserves its content (structural clauses)."""
import re

from facts import walk, render, role, AnalysisBroken
from engines import ff, nth_arg, receiver, enclosing_conditions, render_x
import core
import fields
import xmlvocab

LEVEL = ('(V) the (element, attribute) vocabulary written by printer.cpp and the CellML 2.0 vocabulary recognised by parser.cpp are read from the two ASTs and must be equal; '
         '(M) for every attribute, the entity fields the printer reads for it and the fields the parser writes for it intersect, and the positional unit attributes agree between Units::unitAttributes and Units::addUnit; '
         '(G) the printer reads every serialisable field of every entity class; (E) every string spliced into an attribute value passes through the XML escaper (or is numeric / a generated id); '
         '(O) printed connections keep (component_1, variable_1) and (component_2, variable_2) together and the parser resolves them the same way; (L) the parser creates a placeholder variable only where the lookup by that name failed; '
         '(H) every parser state field is re-initialised per document; (N) doubles are written with full default precision; (R) printModel yields an empty string only for a null model or ill-formed text. '
         'Equality of the re-parsed model is not executed.')
ASSUMPTIONS = ['libxml2 unescapes what the escaper escapes (XML 1.0 predefined entities)', 'a getter/setter reads/writes a field when its body (transitively through calls on this) does']

ENT = ['Model', 'Component', 'Units', 'Variable', 'Reset', 'ImportSource', 'ImportedEntity']
ENTITY_FILES = ('model.cpp', 'component.cpp', 'componententity.cpp', 'variable.cpp', 'units.cpp', 'reset.cpp', 'importsource.cpp', 'entity.cpp', 'namedentity.cpp', 'importedentity.cpp', 'parentedentity.cpp')
NOT_SERIALISED = {
    'mParent': 'the parent is expressed by nesting / encapsulation, not by an attribute',
    'mModel': 'the resolved model of an import source is not part of the document',
    'mComponent': 'back pointer to the public object',
    'mVariable@Variable': 'back pointer to the public object',
    'mUnits@Units': 'back pointer to the public object',
}


def q_reads(F, g, depth=0, seen=None):
    """Qualified names of the data members an entity method reads: on this, on other entities (any Member node), and through the
    entity methods it calls.  `mPimpl` itself is not a content member."""
    seen = seen if seen is not None else set()
    if g.key in seen or depth > 4:
        return set()
    seen.add(g.key)
    out = set()
    for n in g.walk():
        if n.get('k') == 'Member' and n.get('field') and n.get('q') and n.get('n') != 'mPimpl':
            p = g.parent(n)
            if p is not None and ((p.get('k') == 'Bin' and p.get('op') == '=' and p['c'][0] is n) or (p.get('k') == 'Call' and p.get('opc') == '=' and p['c'][0] is n)):
                continue
            out.add(n['q'])
        if n.get('k') == 'Call' and not n.get('opc'):
            for ck in F.callee_keys(n):
                h = F.funcs.get(ck)
                if h is not None and h.file.split('/')[-1] in ENTITY_FILES:
                    out |= q_reads(F, h, depth + 1, seen)
    return out


def q_writes(F, g, depth=0, seen=None):
    from engines import is_write_context
    seen = seen if seen is not None else set()
    if g.key in seen or depth > 5:
        return set()
    seen.add(g.key)
    out = set()
    for n in g.walk():
        if n.get('k') == 'Member' and n.get('field') and n.get('q') and n.get('n') != 'mPimpl' and is_write_context(g, n):
            out.add(n['q'])
    for c in g.walk():
        if c.get('k') == 'Call' and not c.get('opc'):
            for ck in F.callee_keys(c):
                h = F.funcs.get(ck)
                if h is not None and h.file.split('/')[-1] in ENTITY_FILES:
                    out |= q_writes(F, h, depth + 1, seen)
    return out


def entity_calls(F, f, node):
    """Entity-class methods called inside `node` (resolved)."""
    out = []
    for c in walk(node):
        if c.get('k') == 'Call' and not c.get('opc'):
            for ck in F.callee_keys(c):
                g = F.funcs.get(ck)
                if g is not None and g.file.split('/')[-1] in ENTITY_FILES:
                    out.append((c, g))
    return out


def value_sources(F, f, v, depth=0, use=None):
    """Expressions a printed value is computed from: (function, node) pairs - the value itself, the definitions of every local it
    mentions that can reach the use (a definition overwritten on every path before the use is dropped; out-parameters of
    ...Attributes calls count as definitions) and, for parameters, the arguments at the call sites in printer.cpp."""
    if v is None or depth > 4:
        return []
    use = use if use is not None else v
    out = [(f, v)]
    cfg = f.cfg()
    for r in walk(v):
        if r.get('k') != 'Ref':
            continue
        if r.get('dk') == 'local':
            defs = []
            for n in f.walk():
                c = n.get('c', [])
                if n.get('k') == 'Var' and n.get('d') == r['d'] and c:
                    defs.append((n, c[0], False))
                elif n.get('k') == 'Call' and n.get('opc') == '=' and c and c[0].get('k') == 'Ref' and c[0].get('d') == r['d']:
                    defs.append((n, c[1], False))
                elif n.get('k') == 'Call' and n.get('mc') and not n.get('opc') and any(a.get('k') == 'Ref' and a.get('d') == r['d'] for a in c[1:]) and n.get('fn', '').endswith('Attributes'):
                    defs.append((n, n, True))
                elif n.get('k') == 'RangeFor' and len(c) >= 2 and c[0].get('k') == 'Var' and c[0].get('d') == r['d']:
                    defs.append((c[0], c[1], False))
            alive = []
            for a_n, a_rhs, whole in defs:
                killed = any(b_n is not a_n and cfg.node_dominates(b_n, use) and cfg.node_dominates(a_n, b_n) for b_n, _, _ in defs)
                if not killed:
                    alive.append((a_n, a_rhs, whole))
            for a_n, a_rhs, whole in alive:
                if whole:
                    out.append((f, a_rhs))
                else:
                    out += value_sources(F, f, a_rhs, depth + 1, use=a_n)
        elif r.get('dk') == 'parm':
            pi = [i for i, p in enumerate(f.params) if p['d'] == r['d']]
            for g in F.funcs.values():
                if not g.file.endswith('/printer.cpp'):
                    continue
                for c in g.walk():
                    if c.get('k') == 'Call' and f.key in F.callee_keys(c) and pi:
                        a = nth_arg(c, pi[0])
                        if a is not None and g.key != f.key:
                            out += value_sources(F, g, a, depth + 1)
    return out


def branch_locals(then):
    """Locals that receive the attribute value inside the recognising branch: assignment targets and out-arguments of conversions fed with ->value()."""
    locs = {}
    for x in walk(then):
        c = x.get('c', [])
        if ((x.get('k') == 'Call' and x.get('opc') == '=') or (x.get('k') == 'Bin' and x.get('op') == '=')) and c and c[0].get('k') == 'Ref' and c[0].get('dk') == 'local':
            locs.setdefault(c[0]['d'], c[0]['n'])
        if x.get('k') == 'Call' and not x.get('opc') and not x.get('mc') and any('->value()' in render(a) for a in c):
            for a in c:
                if a.get('k') == 'Ref' and a.get('dk') == 'local':
                    locs.setdefault(a['d'], a['n'])
        # ... or of a helper of the loader that is handed the attribute itself (`loadUnitRealAttribute(units, node, attribute, ..., exponent)`)
        if x.get('k') == 'Call' and not x.get('opc') and x.get('mc') and c and c[0].get('k') in ('This', 'NoObj') and any('XmlAttribute' in (a.get('t') or '') for a in c[1:]):
            for a in c[1:]:
                if a.get('k') == 'Ref' and a.get('dk') == 'local' and 'XmlAttribute' not in (a.get('t') or '') and (a.get('t') or '') in ('double', 'int', 'std::basic_string<char>', 'unsigned long'):
                    locs.setdefault(a['d'], a['n'])
    return locs


def run(F, rep):
    # ------------------------------------------------------------------ F1: fallbacks test the result
    from engines import rule_fallback_guards
    rule_fallback_guards(F, rep, 'C02.F1', lambda g_: '/src/' in g_.file and not g_.file.endswith('.h'), 'the library', floor=2)

    pv = xmlvocab.printer_vocab(F)
    pa, pe = xmlvocab.parser_vocab(F)

    # ------------------------------------------------------------------ V
    rep.rule('C02.V1', 'every (element, attribute) pair written by printer.cpp is recognised by the CellML 2.0 branches of parser.cpp and vice versa; the element sets agree (math is passed through)')
    P = {(p['element'], p['attr']) for p in pv}
    R = {(a['element'], a['attr']) for a in pa if not a['legacy']}
    for pair in sorted(P | R):
        site = next((p for p in pv if (p['element'], p['attr']) == pair), None)
        rsite = next((a for a in pa if (a['element'], a['attr']) == pair and not a['legacy']), None)
        where = site['func'].where(site['lit']) if site else rsite['func'].where(rsite['site'])
        rep.check(pair in P and pair in R, 'C02.V1', 'attr|%s@%s' % (pair[1], pair[0]), where,
                  ('the printer writes %s="..." on <%s> but the 2.0 parser does not recognise it: the value is dropped (and reported as invalid) on re-reading' if pair in P else
                   'the 2.0 parser reads %s on <%s> but the printer never writes it: that content is lost on printing') % (pair[1], pair[0]), 'written and read')
    pel = xmlvocab.printer_elements(F) - {'math_wrap_as_single_root_element'}
    rel = {e['element'] for e in pe if not e['legacy']} - {'math'}
    for e in sorted(pel | rel):
        rep.check(e in pel and e in rel, 'C02.V1', 'element|' + e, None, ('<%s> is written but not read' if e in pel else '<%s> is read but never written') % e, 'written and read')
    if len(P) < 30:
        raise AnalysisBroken('C02.V1: only %d printer pairs (35 confirmed)' % len(P))

    # ------------------------------------------------------------------ E
    rep.rule('C02.E1', 'every value spliced into an attribute (`attr="` + value + `"`) in printer.cpp is the result of the XML escaper, a number (convertToString), a generated id (makeUniqueId) or a literal')
    esc = []
    for g in F.funcs.values():
        if g.file.endswith(('/printer.cpp', '/utilities.cpp', '/xmlutils.cpp')):
            lits = {x.get('v') for x in g.walk() if x.get('k') == 'Str'}
            if {'&amp;', '&lt;', '&quot;'} <= lits and g.params and 'basic_string' in g.params[0]['t']:
                esc.append(g)
    n_e = 0
    for p in pv:
        v = p['value']
        if v is None:
            continue
        n_e += 1
        while v.get('k') in ('Construct', 'Cast', 'Paren') and len(v.get('c', [])) == 1:
            v = v['c'][0]
        def safe(fn_, x, use, depth=0):
            while x.get('k') in ('Construct', 'Cast', 'Paren') and len(x.get('c', [])) == 1:
                x = x['c'][0]
            if x.get('k') == 'Str':
                return 'literal'
            if x.get('k') == 'Call' and x.get('fn') in ('convertToString', 'makeUniqueId'):
                return x['fn']
            if x.get('k') == 'Call' and any(ck in {g.key for g in esc} for ck in F.callee_keys(x)):
                return 'escaped by ' + x.get('fn', '')
            if x.get('k') == 'Ref' and x.get('dk') == 'local' and depth < 3:
                # a local that only ever holds safe values (definitions that reach the use)
                cfg_ = fn_.cfg()
                defs = []
                for n_ in fn_.walk():
                    cc = n_.get('c', [])
                    if n_.get('k') == 'Var' and n_.get('d') == x['d'] and cc:
                        defs.append((n_, cc[0]))
                    elif n_.get('k') == 'Call' and n_.get('opc') == '=' and cc and cc[0].get('k') == 'Ref' and cc[0].get('d') == x['d']:
                        defs.append((n_, cc[1]))
                alive = [(a, r) for a, r in defs if not any(b is not a and cfg_.node_dominates(b, use) and cfg_.node_dominates(a, b) for b, _ in defs)]
                hows = [safe(fn_, r, a, depth + 1) for a, r in alive]
                if alive and all(hows):
                    return 'local holding ' + ', '.join(sorted(set(hows)))
            return None
        okk = safe(p['func'], v, p['lit'])
        rep.check(okk is not None, 'C02.E1', '%s|%s@%s|%s' % (p['func'].name, p['attr'], p['element'], render(v)[:40]), p['func'].where(p['lit']),
                  '%s: `%s` is spliced into %s="..." of <%s> unescaped: a value containing & < or " makes the document ill-formed and printModel returns an empty string' % (p['func'].short, render(v)[:50], p['attr'], p['element']), okk)
    if n_e < 45:
        raise AnalysisBroken('C02.E1: only %d sinks (54 confirmed)' % n_e)
    if esc:
        e = esc[0]
        lits = {x.get('v') for x in e.walk() if x.get('k') == 'Str'}
        chars = {x.get('v') for x in e.walk() if x.get('k') in ('Char', 'Int')}
        rep.check({'&amp;', '&lt;', '&quot;'} <= lits, 'C02.E1', 'escaper|entities', e.where(), 'the escaper does not produce &amp; &lt; &quot;', 'produces %s' % sorted(l for l in lits if l and l.startswith('&')))

    # ------------------------------------------------------------------ E2: sign-safe character tests
    rep.rule('C02.E2', 'text is classified byte by byte only through sign-safe tests: no ordering comparison (< <= > >=) on a plain `char` (non-ASCII UTF-8 bytes are negative there) in the printer, the parser, the XML wrappers and the string utilities')

    def char_order_cmps(f):
        out = []
        for b in f.walk():
            if b.get('k') == 'Bin' and b.get('op') in ('<', '<=', '>', '>=') and len(b.get('c', [])) == 2:
                for x in b['c']:
                    if x.get('k') in ('Ref', 'Member') and (x.get('t') or '') in ('char', 'const char'):
                        out.append(b)
                        break
                    if x.get('k') == 'Call' and x.get('opc') in ('[]', '*') and (x.get('rt') or '').replace('&', '').strip() in ('char', 'const char', 'const std::basic_string<char>::value_type', 'std::basic_string<char>::value_type'):
                        out.append(b)
                        break
        return out
    import facts as _facts
    fx = _facts.fixture_funcs('charcmp')
    if len(char_order_cmps(fx['fixtureEscapeBad'])) != 1 or char_order_cmps(fx['fixtureEscapeGood']):
        raise AnalysisBroken('C02.E2: the detector does not separate the two fixture functions (sa/fixtures/src/charcmp.cpp)')
    scope = [f for f in F.funcs.values() if f.file.split('/')[-1] in ('printer.cpp', 'parser.cpp', 'utilities.cpp', 'xmldoc.cpp', 'xmlnode.cpp', 'xmlattribute.cpp', 'xmlutils.cpp', 'commonutils.cpp')]
    bad = [(f, b) for f in scope for b in char_order_cmps(f)]
    for f, b in bad:
        rep.fail('C02.E2', '%s|%s' % (f.short, render(b)[:40]), f.where(b), '%s orders a plain char: `%s` is also true/false for every non-ASCII byte, so names and ids with non-ASCII characters are mangled' % (f.short, render(b)[:50]))
    if not bad:
        rep.ok('C02.E2', 'scan', None, 'no ordering comparison on plain char in %d functions (fixture: 1 of 2 functions flagged, as expected)' % len(scope))

    # ------------------------------------------------------------------ G
    rep.rule('C02.G1', 'the printer (printer.cpp and the utilities it calls) reads every serialisable data member of Model, Component, Units, Variable, Reset, ImportSource and ImportedEntity through some entity method')
    pf = [f for f in F.funcs.values() if f.file.endswith('/printer.cpp')]
    seen = {f.key for f in pf}
    work = list(pf)
    reads = set()
    while work:
        f = work.pop()
        for n in f.walk():
            if n.get('k') != 'Call':
                continue
            for ck in F.callee_keys(n):
                g = F.funcs.get(ck)
                if g is None:
                    continue
                if g.file.split('/')[-1] in ENTITY_FILES:
                    reads |= q_reads(F, g)
                elif g.key not in seen and g.file.split('/')[-1] in ('utilities.cpp', 'printer.cpp'):
                    seen.add(g.key)
                    work.append(g)
    n_g = 0
    for cls in ENT:
        rec = fields.impl_record(F, cls)
        for name, q, fld in fields.impl_fields(F, cls):
            key = '%s|%s' % (cls, name)
            why = NOT_SERIALISED.get('%s@%s' % (name, cls)) or NOT_SERIALISED.get(name)
            if why and (name in ('mParent', 'mModel', 'mComponent') or '%s@%s' % (name, cls) in NOT_SERIALISED):
                rep.exempt('C02.G1', key, why)
                continue
            n_g += 1
            rep.check('%s::%s' % (q, name) in reads, 'C02.G1', key, None, 'no entity method called by the printer reads %s::%s: that attribute of a %s is never written to the document' % (q.split('::')[-1], name, cls), 'read')
    if n_g < 30:
        raise AnalysisBroken('C02.G1: only %d fields (35+ confirmed)' % n_g)

    # ------------------------------------------------------------------ M
    rep.rule('C02.M1', 'for every attribute: the entity data members the printer reads to produce its value and the data members the parser writes when it recognises it have a member in common (the loader mirrors the writer)')
    n_m = 0
    by_pair = {}
    for p in pv:
        by_pair.setdefault((p['element'], p['attr']), []).append(p)
    for pair, sinks in sorted(by_pair.items()):
        wr = set()
        for p in sinks:
            for g, src in value_sources(F, p['func'], p['value']):
                for c, h in entity_calls(F, g, src):
                    wr |= q_reads(F, h)
        rd = set()
        how = []
        for a in pa:
            if (a['element'], a['attr']) != pair or a['legacy']:
                continue
            f = a['func']
            # the branch taken when the attribute is recognised
            st = None
            for cnd, br, s in enclosing_conditions(f, a['site']):
                pass
            p_ = f.parent(a['site'])
            while p_ is not None and p_.get('k') != 'If':
                p_ = f.parent(p_)
            if p_ is None:
                continue
            then = role(p_, 'then')
            for c, h in entity_calls(F, f, then):
                rd |= q_writes(F, h)
                how.append(h.name)
            # value kept in a local and handed to an entity method later in the function
            locs = set(branch_locals(then))
            # one more step: locals computed from those locals (pairs, vectors of names)
            for _ in range(2):
                for x in f.walk():
                    c = x.get('c', [])
                    tgt = None
                    if x.get('k') == 'Var' and c:
                        tgt, rhs = x['d'], c[0]
                    elif x.get('k') == 'Call' and x.get('opc') == '=' and c and c[0].get('k') == 'Ref' and c[0].get('dk') == 'local':
                        tgt, rhs = c[0]['d'], c[1]
                    elif x.get('k') == 'Call' and x.get('mc') and x.get('fn') in ('push_back', 'emplace_back') and c and c[0].get('k') == 'Ref' and c[0].get('dk') == 'local':
                        tgt, rhs = c[0]['d'], {'k': 'Tmp', 'c': c[1:]}
                    elif x.get('k') == 'RangeFor' and len(c) >= 2 and c[0].get('k') == 'Var':
                        tgt, rhs = c[0]['d'], c[1]
                    if tgt is not None and any(r.get('k') == 'Ref' and r.get('d') in locs for r in walk(rhs)):
                        locs.add(tgt)
            for x in f.walk():
                if x.get('k') == 'Call' and not x.get('opc') and any(r.get('k') == 'Ref' and r.get('d') in locs for a2 in (x['c'][1:] if x.get('mc') else x['c']) for r in walk(a2)):
                    for ck in F.callee_keys(x):
                        h = F.funcs.get(ck)
                        if h is not None and h.file.split('/')[-1] in ENTITY_FILES:
                            rd |= q_writes(F, h) | q_reads(F, h)      # stored, or used to look the referenced entity up
                            how.append(h.name)
        if not wr and all((p['value'] is None or render(p['value']).startswith(('makeUniqueId', 'convertToString'))) for p in sinks):
            continue
        n_m += 1
        common = wr & rd
        site = sinks[0]
        rep.check(bool(common), 'C02.M1', '%s@%s' % (pair[1], pair[0]), site['func'].where(site['lit']),
                  'the printer produces %s of <%s> from %s but the parser stores it into %s (%s): what is read back is not what was written' % (
                      pair[1], pair[0], sorted(x.split('::')[-1] for x in wr)[:5], sorted(x.split('::')[-1] for x in rd)[:5], sorted(set(how))[:4]),
                  'common member(s): %s' % sorted(x.split('::')[-1] for x in common)[:3])
    if n_m < 28:
        raise AnalysisBroken('C02.M1: only %d attributes compared (33 confirmed)' % n_m)

    rep.rule('C02.M2', 'the attributes of <unit> reach the same named parameters on both sides: what the printer takes from the `exponent` out-parameter of Units::unitAttributes is written as exponent=, '
                       'and the parser hands the value of exponent= to the `exponent` parameter of Units::addUnit (likewise reference/units, prefix, multiplier, id)')
    pu = F.fn1('Printer::PrinterImpl::printUnits')
    ua = [c for c in pu.walk() if c.get('k') == 'Call' and c.get('fn') == 'unitAttributes']
    lu = F.fn1('Parser::ParserImpl::loadUnit')
    au = [c for c in lu.walk() if c.get('k') == 'Call' and c.get('fn') == 'addUnit']
    if len(ua) != 1 or len(au) != 1:
        raise AnalysisBroken('printUnits/loadUnit: unitAttributes/addUnit call vanished')

    def pnames(call):
        g = F.funcs.get(call.get('ck'))
        if g is None:
            raise AnalysisBroken('callee of %s not resolved' % render(call)[:40])
        return [p['n'] for p in g.params]
    ATTR_OF_PARAM = {'reference': 'units', 'prefix': 'prefix', 'exponent': 'exponent', 'multiplier': 'multiplier', 'id': 'id'}
    wmap = {}
    for p in pv:
        if p['element'] == 'unit' and p['value'] is not None:
            for r in walk(p['value']):
                if r.get('k') == 'Ref' and r.get('dk') == 'local':
                    for i, a in enumerate(ua[0]['c'][1:]):
                        if a.get('k') == 'Ref' and a.get('d') == r['d']:
                            wmap[p['attr']] = pnames(ua[0])[i]
    rmap = {}
    for a in pa:
        if a['func'] is lu and not a['legacy']:
            p_ = lu.parent(a['site'])
            while p_ is not None and p_.get('k') != 'If':
                p_ = lu.parent(p_)
            then = role(p_, 'then') if p_ is not None else None
            if then is None:
                continue
            for d in branch_locals(then):
                for i, arg in enumerate(au[0]['c'][1:]):
                    if any(r.get('k') == 'Ref' and r.get('d') == d for r in walk(arg)):
                        rmap.setdefault(a['attr'], pnames(au[0])[i])
    for attr in sorted(set(wmap) | set(rmap)):
        okk = ATTR_OF_PARAM.get(wmap.get(attr)) == attr and ATTR_OF_PARAM.get(rmap.get(attr)) == attr
        rep.check(okk, 'C02.M2', 'unit|' + attr, pu.where(ua[0]),
                  'attribute %s of <unit> is taken from parameter `%s` of unitAttributes by the printer and handed to parameter `%s` of addUnit by the parser' % (attr, wmap.get(attr), rmap.get(attr)), 'parameter `%s` on both sides' % wmap.get(attr))
    if len(set(wmap) | set(rmap)) < 5:
        raise AnalysisBroken('C02.M2: unit attributes matched: %s / %s' % (sorted(wmap), sorted(rmap)))

    rep.rule('C02.I1', 'inside a loop over the children of an entity by index (i < xCount()), what is printed for child i is fetched with that index: an accessor that looks the child up by name/reference returns the first match, not child i')
    n_i = 0
    for f in xmlvocab.printer_functions(F):
        for loop in f.walk():
            if loop.get('k') != 'For':
                continue
            cond = role(loop, 'cond')
            m = re.match(r'(\w+) < (.+)->(\w+)Count\(\)$', render(cond) or '')
            if not m:
                continue
            ivar, owner, kind = m.group(1), m.group(2), m.group(3)
            for c in walk(role(loop, 'body')):
                if c.get('k') == 'Call' and c.get('mc') and not c.get('opc') and render(receiver(c)) == owner and c.get('fn', '').lower().startswith(kind.lower()) and c.get('fn') != kind + 'Count':
                    args = c['c'][1:]
                    n_i += 1
                    uses_index = any(r.get('k') == 'Ref' and r.get('n') == ivar for a in args for r in walk(a))
                    rep.check(uses_index, 'C02.I1', '%s|%s' % (f.name, render(c)[:50]), f.where(c),
                              '%s: inside `for (%s ...)` the child is read by `%s`, which does not use the loop index: for two children with the same reference the first one is printed twice' % (f.short, render(cond), render(c)[:60]), 'indexed by ' + ivar)
    if n_i < 8:
        raise AnalysisBroken('C02.I1: %d indexed child accesses found in printer.cpp (10+ confirmed)' % n_i)

    # ------------------------------------------------------------------ O
    rep.rule('C02.O1', 'a printed connection keeps pairs together: the component pair is (owner of variable 1, owner of variable 2) in the order of the variable pair, component_1/variable_1 are printed from the first and component_2/variable_2 from the second member; '
                       'the parser resolves variable_1 in component_1 and variable_2 in component_2 and links exactly those two')
    bm = F.fn1('libcellml::buildMapsForComponentsVariables')
    vp = [c for c in bm.walk() if c.get('k') == 'Call' and c.get('fn') == 'create' and 'VariablePair' in (c.get('callee') or '')]
    mp = [c for c in bm.walk() if c.get('k') == 'Call' and c.get('fn') == 'make_pair']
    if len(vp) != 1 or len(mp) != 1:
        raise AnalysisBroken('buildMapsForComponentsVariables: VariablePair::create / make_pair vanished')

    def owner_of(f, e):
        for g, src in value_sources(F, f, e):
            for c in walk(src):
                if c.get('k') == 'Call' and c.get('fn') in ('owningComponent',):
                    return render(nth_arg(c, 0))
        return None
    a1, a2 = render(nth_arg(vp[0], 0)), render(nth_arg(vp[0], 1))
    o1, o2 = owner_of(bm, nth_arg(mp[0], 0)), owner_of(bm, nth_arg(mp[0], 1))
    rep.check((o1, o2) == (a1, a2), 'C02.O1', 'printer|pair order', bm.where(mp[0]), 'variable pair (%s, %s) is stored next to the component pair (owner of %s, owner of %s)' % (a1, a2, o1, o2), 'component pair = (owner(%s), owner(%s))' % (a1, a2))
    for p in pv:
        if p['attr'] in ('variable_1', 'variable_2', 'component_1', 'component_2') and p['value'] is not None:
            t = render(p['value'])
            idx = p['attr'][-1]
            if p['attr'].startswith('variable'):
                okk = ('variable%s()' % idx) in t
            else:
                srcs = [render(s2) for g2, s2 in value_sources(F, p['func'], p['value'])]
                okk = any(('first' if idx == '1' else 'second') in s for s in srcs)
                t = t + ' <- ' + '; '.join(srcs)
            rep.check(okk, 'C02.O1', 'printer|' + p['attr'], p['func'].where(p['lit']), '%s is printed from `%s`' % (p['attr'], t[:80]), 'from member %s of the pair' % idx)
    lc = F.fn1('Parser::ParserImpl::loadConnection')
    n_o = 0
    for c in lc.walk():
        if c.get('k') == 'Call' and c.get('mc') and c.get('fn') in ('variable', 'hasVariable', 'addVariable') and c.get('cls', '').endswith('Component'):
            rcv = render(receiver(c))
            arg = nth_arg(c, 0)
            m = re.match(r'component([12])$', rcv)
            if not m or arg is None:
                continue
            t = render_x(lc, arg)
            want = {'1': ('iterInfo[0]', 'variable1'), '2': ('iterInfo[1]', 'variable2')}[m.group(1)]
            n_o += 1
            rep.check(any(w in t for w in want), 'C02.O1', 'parser|%s->%s(%s)' % (rcv, c['fn'], t[:20]), lc.where(c), 'component_%s is searched for / given `%s`' % (m.group(1), t), 'same index')
    ae = [c for c in lc.walk() if c.get('k') == 'Call' and c.get('fn') == 'addEquivalence']
    if len(ae) != 1 or n_o < 6:
        raise AnalysisBroken('loadConnection: addEquivalence / per-component lookups vanished (%d lookups)' % n_o)
    args = [render_x(lc, a) for a in ae[0]['c']]
    rep.check(args[:2] == ['variable1', 'variable2'] and 'connectionId' in args[3] and '[2]' in args[2], 'C02.O1', 'parser|addEquivalence', lc.where(ae[0]), 'the equivalence is made with %s' % args, 'variable1, variable2, mapping id, connection id')
    # the component names: first/second of the pair come from component_1/component_2
    cp = {}
    for a in pa:
        if a['func'] is lc and a['attr'] in ('component_1', 'component_2') and not a['legacy']:
            p_ = lc.parent(a['site'])
            while p_ is not None and p_.get('k') != 'If':
                p_ = lc.parent(p_)
            for x in walk(role(p_, 'then')):
                c = x.get('c', [])
                if x.get('k') == 'Call' and x.get('opc') == '=' and c and c[0].get('k') == 'Ref':
                    cp[a['attr']] = c[0]['n']
                    break
    mk = [c for c in lc.walk() if c.get('k') == 'Call' and c.get('fn') == 'make_pair' and any(cp.get('component_1', '#') in render(a) for a in c['c'])]
    rep.check(bool(mk) and [render(a) for a in mk[0]['c']][:2] == [cp.get('component_1'), cp.get('component_2')], 'C02.O1', 'parser|component pair', lc.where(mk[0]) if mk else lc.where(),
              'the component name pair is built as %s' % ([render(a) for a in mk[0]['c']] if mk else None), '(component_1, component_2)')

    # ------------------------------------------------------------------ L
    rep.rule('C02.L1', 'the parser creates a variable for a name referenced by a connection only on a path where the lookup of that name in that component failed (a variable mapped twice is one variable)')
    n_l = 0
    for c in lc.walk():
        if c.get('k') == 'Call' and c.get('mc') and c.get('fn') == 'addVariable':
            rcv = render(receiver(c))
            conds = ff(lc).rendered_conds_at(c) or set()
            n_l += 1
            v = render(nth_arg(c, 0))
            names = [render(nth_arg(s, 0)) for s in lc.walk() if s.get('k') == 'Call' and s.get('fn') == 'setName' and render(receiver(s)) == v]
            okk = any((t == '%s->hasVariable(%s)' % (rcv, nm) and truth is False) or (t in ('%s->variable(%s) == nullptr' % (rcv, nm),) and truth is True) for t, truth in conds for nm in names)
            rep.check(okk, 'C02.L1', '%s->addVariable(%s)' % (rcv, v), lc.where(c),
                      'a placeholder variable named %s is added to %s although nothing on this path says that %s has no variable of that name: a variable that takes part in two mappings is split in two' % (names, rcv, rcv),
                      'only where %s->hasVariable(%s) is false' % (rcv, names[0] if names else '?'))
    if n_l < 2:
        raise AnalysisBroken('loadConnection: placeholder creation sites vanished')

    # ------------------------------------------------------------------ R
    rep.rule('C02.R1', 'Printer::printModel returns a literal empty string only for a null model; otherwise it returns what libxml2 makes of the assembled text')
    pm = F.fn1('libcellml::Printer::printModel')
    for r in pm.walk():
        if r.get('k') == 'Return' and r.get('c'):
            v = r['c'][0]
            while v.get('k') in ('Construct', 'Cast') and len(v.get('c', [])) == 1:
                v = v['c'][0]
            if v.get('k') == 'Str' and v.get('v') == '':
                conds = ff(pm).rendered_conds_at(r) or set()
                rep.check(('model == nullptr', True) in conds, 'C02.R1', 'return ""|l%s' % '', pm.where(r), 'printModel gives up with an empty string under %s' % sorted(conds), 'only for a null model')
            else:
                rep.check('prettyPrint' in render(v), 'C02.R1', 'return|%s' % render(v)[:30], pm.where(r), 'printModel returns `%s`' % render(v)[:40], 'the pretty-printed document')

    # ------------------------------------------------------------------ H, N (clauses shared with C12 / C16)
    import c12
    c12.rule_h1(F, rep, 'C02.H1', [s for s in c12.STATE if s[0] in ('Parser::ParserImpl', 'Printer::PrinterImpl')])
    import c16
    if not getattr(rep, 'nested', False):
        core.borrow(F, rep, c16, only={'C16.P1'})
        # printing (and the parse that follows) must return at all: std::regex over model text recurses once per repetition (clause shared with C01)
        import c01
        core.borrow(F, rep, c01, only={'C01.X6'})

    # ------------------------------------------------------------------ A: flags gathered over loops
    from engines import rule_accumulators
    rule_accumulators(F, rep, 'C02.A1', lambda g: g.file.endswith('/printer.cpp'), 1, 'printer.cpp', 'whether a component pair was already printed must not depend on the last pair compared (a connection would be printed twice or not at all)')

    # ------------------------------------------------------------------ T: the 1.x transformation leaves 2.0 documents alone
    rep.rule('C02.T1', 'the helpers that transform CellML 1.x content (unit-name respelling, 1.x namespace handling, units lifted out of components, 1.x encapsulation relationships) are called in parser.cpp only under the 1.x mode '
                       '(mParsing1XVersion / isCellml1XElement): applied to a 2.0 document they change what was written (a 2.0 model may define its own units called "meter" or "liter")')
    ONLY_1X = {'convertNonSiUnits': 'respells meter/liter: a 2.0 model may define units of those names',
               'removeCellml1XNamespaces': 'rewrites namespace declarations of math', 'attributesWithCellml1XNamespace': 'collects 1.x-namespaced attributes for rewriting',
               'loadUnitsFromComponent': 'lifts units out of 1.x components', 'isEncapsulationRelationship': '1.x <group> relationship_ref', 'nodesCellMl1XVersion': 'names the 1.x version in messages'}
    n_t = 0
    seen_t = set()
    for g in F.funcs.values():
        if not g.file.endswith('/parser.cpp'):
            continue
        for c in g.walk():
            if c.get('k') == 'Call' and not c.get('opc') and c.get('fn') in ONLY_1X:
                n_t += 1
                seen_t.add(c['fn'])
                rc = ff(g).rendered_conds_at(c) or set()
                ok = any(t and ('mParsing1XVersion' in cnd or 'isCellml1XElement' in cnd) and not cnd.replace(' ', '').startswith('!') for cnd, t in rc)
                rep.check(ok, 'C02.T1', '%s|%s' % (g.short.split('::')[-1], c['fn']), g.where(c), '`%s` (%s) runs whatever the version of the document: CellML 2.0 content is rewritten on reading, so print -> parse no longer preserves it'
                          % (render(c)[:50], ONLY_1X[c['fn']]), 'under the 1.x mode')
    if n_t < 6 or len(seen_t) < 5:
        raise AnalysisBroken('C02.T1: 1.x transformation helpers called at %d sites (%s); 8 sites of 6 helpers confirmed' % (n_t, sorted(seen_t)))

    # ------------------------------------------------------------------ W: walks over the component tree are complete
    import recursion as _recw
    _recw.rule_walkers(F, rep, 'C02.W1', ['buildMaps', 'printComponent'], 2, 'collecting and printing the components')

    # ------------------------------------------------------------------ sibling cursors
    from engines import rule_cursor_loops
    rule_cursor_loops(F, rep, 'C02.K1', lambda g: g.file.endswith(('/parser.cpp', '/xmlutils.cpp', '/xmlnode.cpp')), 25, 'the parser and its XML helpers')

    # ------------------------------------------------------------------ duplicates
    from engines import rule_unique_sorted
    rule_unique_sorted(F, rep, 'C02.U1', lambda g: '/src/' in g.file, 'the library')

    # ------------------------------------------------------------------ content of repeated child elements
    rep.rule('C02.N1', 'in the parser, text taken from a child ELEMENT (XmlNode::convertToString / convertToStrippedString) is used in the iteration that reads it: it is not parked in a local that the next matching sibling '
                       'overwrites before anything read it (elements can repeat - several <math> blocks in a test_value/reset_value/component - so "hand it over once after the loop" keeps only the last one)')
    from engines import lost_values

    def _node_text(e):
        return any(c.get('k') == 'Call' and c.get('mc') and c.get('cls') == 'libcellml::XmlNode' and c.get('fn') in ('convertToString', 'convertToStrippedString') for c in walk(e))
    n_v = 0
    for g in F.funcs.values():
        if not g.file.endswith('/parser.cpp'):
            continue
        reads = [c for c in g.walk() if c.get('k') == 'Call' and c.get('mc') and c.get('cls') == 'libcellml::XmlNode' and c.get('fn') in ('convertToString', 'convertToStrippedString')]
        n_v += len(reads)
        for a, x in lost_values(g, _node_text, self_overwrite=True):
            rep.fail('C02.N1', '%s|%s' % (g.short.split('::')[-1], render(a)[:50]), g.where(a), '%s: the element text stored by `%s` is overwritten (line %s) before it was used: when the element occurs more than once only the last occurrence is loaded' % (
                g.short, render(a)[:60], x.get('l')))
        if reads:
            rep.ok('C02.N1', '%s|%d element-text reads' % (g.short.split('::')[-1], len(reads)), g.where(reads[0]), 'each read is consumed before the next one')
    if n_v < 8:
        raise AnalysisBroken('C02.N1: only %d reads of element text in parser.cpp (8 confirmed)' % n_v)

    # ------------------------------------------------------------------ which libxml2 getters hand text to the library
    rep.rule('C02.X2', 'every libxml2 call through which text enters the library (a call returning xmlChar*) is one that returns the PARSED value, entities substituted: xmlGetProp / xmlGetNsProp / xmlGetNoNsProp / xmlNodeGetContent, '
                       'or xmlNodeListGetString with inLine = 1; the "external form" getters (xmlNodeListGetString(.., 0), xmlNodeListGetRawString, xmlEncodeEntitiesReentrant ...) return & < > re-escaped, so every print/parse cycle would escape an '
                       'attribute value once more')
    PARSED = {'xmlGetProp', 'xmlGetNsProp', 'xmlGetNoNsProp', 'xmlNodeGetContent', 'xmlNodeGetBase', 'xmlNodeGetLang'}
    NAMES = {'xmlBuildQName', 'xmlStrdup', 'xmlCharStrdup', 'xmlBufferContent', 'xmlBufContent'}
    ESCAPED = {'xmlNodeListGetRawString', 'xmlEncodeEntitiesReentrant', 'xmlEncodeSpecialChars', 'xmlEncodeEntities'}
    n_x2 = 0
    for g in F.funcs.values():
        if '/src/' not in g.file:
            continue
        for n in g.walk():
            if n.get('k') != 'Call' or not (n.get('callee') or '').startswith('xml') or 'char *' not in (n.get('rt') or ''):
                continue
            cal = n['callee']
            key = '%s|%s' % (g.short, cal)
            if cal in NAMES:
                continue
            n_x2 += 1
            if cal in PARSED:
                rep.ok('C02.X2', key, g.where(n), 'returns the parsed value')
            elif cal == 'xmlNodeListGetString':
                a2 = nth_arg(n, 2)
                while a2 is not None and a2.get('k') in ('Paren', 'Cast') and len(a2.get('c', [])) == 1:
                    a2 = a2['c'][0]
                rep.check(a2 is not None and a2.get('k') == 'Int' and str(a2.get('v')) == '1', 'C02.X2', key, g.where(n),
                          '%s reads text with `%s`: with inLine = %s libxml2 returns the external form (& < > escaped again), not the parsed value' % (g.short, render(n)[:70], render(a2) if a2 is not None else '?'), 'inLine = 1: entities substituted')
            elif cal in ESCAPED:
                rep.fail('C02.X2', key, g.where(n), '%s reads text with %s, which returns markup characters escaped (the external form), not the parsed value' % (g.short, cal))
            else:
                raise AnalysisBroken('C02.X2: libxml2 text getter %s (in %s) is not in the table of getters whose escaping behaviour was confirmed' % (cal, g.short))
    if n_x2 < 2:
        raise AnalysisBroken('C02.X2: only %d libxml2 text getters found (xmlGetProp in XmlAttribute::value and XmlNode::attribute confirmed)' % n_x2)

