"""C09 - ownership invariants survive any API history; bad arguments never crash (structural clauses)."""
from facts import walk, render, role, is_call, AnalysisBroken
from engines import is_this_like, ff, nth_arg, receiver, path, unwrap_defarg, is_write_context
import fields
from nullflow import NullSummaries, nonnull_at

LEVEL = ('Rules over the object model and the services that accept entities (clang AST/CFG + call graph): (N) no exported method dereferences a shared_ptr parameter, directly or through a callee, '
         'except under a dominating null test; (I) element accesses by a size_t parameter are dominated by index < size of the same container; (W/P) only the owning classes write the child containers, every insertion sets the '
         'parent of the inserted element and detaches it from its previous parent, every erase clears the parent of the erased element itself, lookups by pointer try identity before structure; '
         '(A) the parent link of a component is only set where it cannot be its own ancestor; (E) equivalences are created/removed on both sides. The heap after arbitrary histories is not explored.')
ASSUMPTIONS = ['entities are only created by the create() factories (constructors are private), so shared_from_this() cannot throw',
               'containers never hold null pointers (consequence of rule N on the add* methods)']

CONTAINERS = {'mComponents': 'ComponentEntityImpl', 'mVariables': 'ComponentImpl', 'mResets': 'ComponentImpl', 'mUnits': 'ModelImpl'}
OWNER_CLASSES = ('libcellml::ComponentEntity', 'libcellml::Component', 'libcellml::Model')
REMOVERS = {'mComponents': 'removeComponent', 'mVariables': 'removeVariable', 'mResets': 'removeReset', 'mUnits': 'removeUnits'}


def exported(f):
    return '/src/api/libcellml/' in f.j.get('declFile', '') and f.j.get('access', 0) == 0 and f.cls and not f.cls.endswith('Impl')


def is_container(n):
    return n is not None and n.get('k') == 'Member' and n.get('field') and n.get('n') in CONTAINERS and n.get('q', '').split('::')[-2] == CONTAINERS[n['n']]


def local_init(f, ref):
    if ref.get('k') == 'Ref' and ref.get('dk') == 'local':
        for v in f.walk():
            if v.get('k') == 'Var' and v.get('d') == ref['d'] and v.get('c'):
                return v['c'][0]
    return None


def strip(n):
    while n is not None and ((n.get('k') == 'Call' and n.get('opc') in ('->', '*') and n.get('c')) or (n.get('k') in ('Construct', 'Cast') and len(n.get('c', [])) == 1)):
        n = n['c'][0]
    return n


def run(F, rep):
    # ------------------------------------------------------------------ N1
    rep.rule('C09.N1', 'no exported method dereferences a shared_ptr parameter (directly or through a callee summary) unless a non-null test of it dominates; a successful find*(p) lookup counts as such a test')
    NS = NullSummaries(F)
    n_exp = 0
    for f in sorted(F.funcs.values(), key=lambda f: (f.file, f.line)):
        if not exported(f):
            continue
        pp = [(i, p) for i, p in enumerate(f.params) if 'std::shared_ptr<' in p['t']]
        if not pp:
            continue
        n_exp += 1
        bad = NS.unsafe.get(f.key, {})
        for i, p in pp:
            k = '%s/%d|%s' % (f.short, len(f.params), p['n'])
            if i in bad:
                node, why = bad[i]
                rep.fail('C09.N1', k, f.where(node), 'parameter `%s` of exported %s may be null and is %s' % (p['n'], f.short, why))
            else:
                rep.ok('C09.N1', k, f.where(), 'every dereference is dominated by a null test (or the parameter is never dereferenced)')
    if n_exp < 80:
        raise AnalysisBroken('exported methods with pointer parameters: %d found, 100+ confirmed' % n_exp)

    # ------------------------------------------------------------------ I1
    rep.rule('C09.I1', 'in exported methods every container element access by a size_t parameter ([], at, begin()+i) is dominated by `i < <same container>.size()`')
    n_idx = 0
    for f in sorted(F.funcs.values(), key=lambda f: (f.file, f.line)):
        if not exported(f):
            continue
        ips = {p['d']: p for p in f.params if p['t'] in ('unsigned long', 'size_t', 'const unsigned long &', 'const unsigned long')}
        if not ips:
            continue
        for n in f.walk():
            acc = None
            if n.get('k') == 'Call' and n.get('mc') and n.get('fn') in ('at', 'operator[]') and len(n['c']) == 2:
                idx = strip(n['c'][1])
                if idx is not None and idx.get('k') == 'Ref' and idx.get('d') in ips:
                    acc = (n['c'][0], idx)
            elif n.get('k') == 'Call' and n.get('opc') == '[]' and len(n['c']) == 2:
                idx = strip(n['c'][1])
                if idx is not None and idx.get('k') == 'Ref' and idx.get('d') in ips:
                    acc = (n['c'][0], idx)
            elif n.get('k') == 'Call' and n.get('opc') == '+' and len(n['c']) == 2 and n['c'][0].get('k') == 'Call' and n['c'][0].get('fn') in ('begin', 'cbegin'):
                if any(x.get('k') == 'Ref' and x.get('d') in ips for x in walk(n['c'][1])):
                    idx = [x for x in walk(n['c'][1]) if x.get('k') == 'Ref' and x.get('d') in ips][0]
                    acc = (receiver(n['c'][0]), idx)
            if acc is None:
                continue
            cont, idx = acc
            if 'std::vector' not in cont.get('t', '') and 'std::vector' not in cont.get('rt', '') and 'std::array' not in cont.get('t', ''):
                continue
            n_idx += 1
            ct = render(cont)
            rc = ff(f).rendered_conds_at(n) or set()
            want = {('%s < %s.size()' % (idx['n'], ct), True), ('%s.size() > %s' % (ct, idx['n']), True), ('%s >= %s.size()' % (idx['n'], ct), False)}
            k = '%s/%d|%s[%s]' % (f.short, len(f.params), ct, idx['n'])
            if not (want & rc) and f.short == 'Annotator::item' and ('pFunc()->exists(id, %s, false)' % idx['n'], True) in rc and ct == 'items(id)':
                rep.ok('C09.I1', k, f.where(n), 'guarded by AnnotatorImpl::exists(id, index), which returns true only for index < itemCount(id) (rule C09.I2)')
                continue
            if not (want & rc):
                # `auto old = accessor(index); if (old != nullptr)`: the accessor is bound-checked itself (same rule) and
                # returns non-null only for an index in range
                acc_ok = False
                for v in f.walk():
                    if v.get('k') == 'Var' and v.get('c') and v['c'][0].get('k') == 'Call' and v['c'][0].get('mc') and is_this_like(v['c'][0]['c'][0]) \
                            and len(v['c'][0]['c']) == 2 and render(v['c'][0]['c'][1]) == idx['n'] and 'std::shared_ptr<' in v.get('t', ''):
                        if (v['n'] + ' != nullptr', True) in rc or (v['n'] + ' == nullptr', False) in rc or ('bool(%s)' % v['n'], True) in rc:
                            acc_ok = True
                if acc_ok:
                    rep.ok('C09.I1', k, f.where(n), 'guarded by a non-null result of the bound-checked accessor for the same index')
                    continue
            if not (want & rc) and n.get('opc') == '+':
                # insert position: after a successful remove*(index) of the same object (itself bound-checked: rule on that method)
                # the index is at most size(); a clamp std::min(index, size()) is the other accepted form
                okpos = any(t and c.startswith('remove') and c.endswith('(%s)' % idx['n']) for c, t in rc) or any(
                    b.get('k') in ('Bin', 'Call') and render(b).startswith('%s = std::min(%s, %s.size())' % (idx['n'], idx['n'], ct)) and f.cfg().node_dominates(b, n) for b in f.walk())
                if okpos:
                    rep.ok('C09.I1', k, f.where(n), 'insert position: index bounded by a successful remove at that index / clamped to size()')
                    continue
            rep.check(bool(want & rc), 'C09.I1', k, f.where(n), 'element access `%s` by the caller-supplied index is not dominated by `%s < %s.size()` (facts: %s)' % (render(n)[:60], idx['n'], ct, sorted(c for c, t in rc)[:4]),
                      'bound-checked')
    if n_idx < 25:
        raise AnalysisBroken('index accesses found: %d, 30 confirmed' % n_idx)

    rep.rule('C09.I2', 'AnnotatorImpl::exists(id, index, unique) returns true only on paths where index < itemCount(id)')
    ex = F.fn1('Annotator::AnnotatorImpl::exists')
    cnt_vars = [v for v in ex.walk() if v.get('k') == 'Var' and v.get('c') and 'itemCount(id)' in render(v['c'][0])]
    if not cnt_vars:
        raise AnalysisBroken('AnnotatorImpl::exists no longer reads itemCount(id)')
    cn_ = cnt_vars[0]['n']
    for r in ex.walk():
        if r.get('k') == 'Return' and r.get('c') and r['c'][0].get('k') == 'Bool' and r['c'][0].get('v'):
            rc = ff(ex).rendered_conds_at(r) or set()
            good = ('%s <= index' % cn_, False) in rc or ('index < %s' % cn_, True) in rc or ('index >= %s' % cn_, False) in rc or (('%s == 1' % cn_, True) in rc and ('index == 0', True) in rc)
            rep.check(good, 'C09.I2', 'exists|return true|%s' % ('+'.join(sorted(c for c, t in rc if t))[:60]), ex.where(r),
                      'exists() can return true although index >= itemCount(id) (facts: %s); Annotator::item(id, index) then reads items(id)[index] out of bounds' % sorted(rc), 'index < count established')

    # ------------------------------------------------------------------ W1 / P
    rep.rule('C09.W1', 'only methods of ComponentEntity/Component/Model (and their Impl structs) modify mComponents/mVariables/mResets/mUnits')
    rep.rule('C09.P1', 'every push_back/insert of an element into a child container is paired, in the same function, with setParent on that element (the base doAddComponent is reached only through overrides that do it)')
    rep.rule('C09.P2', 'an entity handed in by the caller is detached from its previous parent before it is inserted (no entity listed by two containers)')
    rep.rule('C09.P3', 'every erase from a child container clears the parent of the erased element itself (receiver is *iterator / the element read at the same index), not of a look-alike argument')
    rep.rule('C09.P4', 'every clear() of a child container is preceded by removeParent() on each element')
    rep.rule('C09.P5', 'lookups by entity pointer (find*(ptr)) try pointer identity before structural equals(), so that operations on a child affect exactly that child')
    sites = 0
    ALIAS = {}     # node id of a container operation made through a local reference -> the name of that reference
    for f in sorted(F.funcs.values(), key=lambda f: (f.file, f.line)):
        muts = []
        for n in f.walk():
            if n.get('k') == 'Call' and n.get('mc') and n.get('fn') in ('push_back', 'emplace_back', 'insert', 'erase', 'clear', 'pop_back', 'resize', 'swap', 'operator='):
                r = receiver(n)
                if r is not None and r.get('k') == 'Ref' and r.get('dk') == 'local' and 'std::vector<' in (r.get('t') or ''):
                    # a local REFERENCE to the child container (`auto &allUnits = pFunc()->mUnits;`) is that container
                    i_ = local_init(f, r)
                    while i_ is not None and i_.get('k') in ('Cast', 'Paren', 'Temp', 'Bind') and len(i_.get('c', [])) == 1:
                        i_ = i_['c'][0]
                    dv_ = next((v_ for v_ in f.walk() if v_.get('k') == 'Var' and v_.get('d') == r.get('d')), None)
                    if i_ is not None and is_container(i_) and dv_ is not None and (dv_.get('t') or '').rstrip().endswith('&'):
                        ALIAS[n['i']] = r.get('n')
                        r = i_
                if is_container(r):
                    muts.append((n, r))
        if not muts:
            continue
        owner = f.cls or ''
        okw = any(owner == c or owner.startswith(c + '::') for c in OWNER_CLASSES)
        for n, r in muts:
            sites += 1
            rep.check(okw, 'C09.W1', '%s|%s.%s' % (f.short, r['n'], n['fn']), f.where(n), '%s modifies %s outside the owning classes' % (f.short, r['n']), 'owner class')
        parent_calls = [x for x in f.walk() if x.get('k') == 'Call' and x.get('fn') in ('setParent', 'removeParent')]
        for n, r in muts:
            fn = n['fn']
            if fn in ('push_back', 'emplace_back', 'insert'):
                x = strip(n['c'][-1])
                xt = render(x)
                key = '%s/%d|%s.%s(%s)' % (f.short, len(f.params), r['n'], fn, xt)
                sp = [c for c in parent_calls if c['fn'] == 'setParent' and render(strip(chain_root(c))) == xt]
                if f.short == 'ComponentEntity::doAddComponent':
                    # reached only through the overrides: they must set the parent and detach
                    ovs = [F.funcs[k] for k in F.overriders.get(f.key, ()) if k in F.funcs]
                    good = len(ovs) >= 2
                    for g in ovs:
                        p0 = g.params[0]['n']
                        has_sp = any(c.get('fn') == 'setParent' and render(strip(chain_root(c))) == p0 for c in g.walk() if c.get('k') == 'Call')
                        has_dt = any(c.get('k') == 'Call' and c.get('fn') in ('removeComponentFromEntity', 'removeComponent') and any(y.get('k') == 'Ref' and y.get('n') == p0 for y in walk(c)) for c in g.walk())
                        calls_base = any(c.get('k') == 'Call' and f.key in F.callee_keys(c) for c in g.walk())
                        # order in the override: the detaching call clears the parent link, so it comes before the new parent is set
                        from faillog import _can_reach as _cro
                        sps_ = [c for c in g.walk() if c.get('k') == 'Call' and c.get('fn') == 'setParent' and render(strip(chain_root(c))) == p0]
                        dts_ = [c for c in g.walk() if c.get('k') == 'Call' and c.get('fn') in ('removeComponentFromEntity', 'removeComponent') and any(y.get('k') == 'Ref' and y.get('n') == p0 for y in walk(c))]
                        late_ = [(a_, b_) for a_ in sps_ for b_ in dts_ if g.cfg() is not None and _cro(g.cfg(), a_, b_)]
                        rep.check(not late_, 'C09.P2', '%s|detach-before-attach' % g.short, g.where(late_[0][1]) if late_ else g.where(),
                                  '%s sets the new parent of `%s` and only then removes it from its previous parent: that removal clears the parent link again' % (g.short, p0), 'detached before the new parent is set')
                        good = good and has_sp and has_dt and calls_base
                        rep.check(has_sp and has_dt and calls_base, 'C09.P1', '%s|override-sets-parent-and-detaches' % g.short, g.where(),
                                  '%s: setParent=%s detach=%s delegates=%s' % (g.short, has_sp, has_dt, calls_base), 'sets parent, detaches from previous parent, then delegates')
                    rep.check(good, 'C09.P1', key, f.where(n), 'base doAddComponent is not covered by overrides that set the parent', 'covered by %d overrides' % len(ovs))
                    continue
                rep.check(bool(sp), 'C09.P1', key, f.where(n), '`%s` is inserted into %s but its parent is not set in %s' % (xt, r['n'], f.short), 'setParent on the inserted element')
                if x is not None and x.get('k') == 'Ref' and x.get('dk') == 'parm':
                    rm = REMOVERS[r['n']]
                    det = [c for c in f.walk() if c.get('k') == 'Call' and (c.get('fn') == rm or c.get('fn') == 'removeComponentFromEntity') and not (c.get('mc') and is_this_like(c['c'][0]))
                           and any(y.get('k') == 'Ref' and y.get('d') == x['d'] for y in walk(c))]
                    rep.check(bool(det), 'C09.P2', key, f.where(n),
                              '%s inserts the caller\'s `%s` into %s without detaching it from a previous parent: an entity that already belongs to another container ends up listed by both' % (f.short, xt, r['n']),
                              'detached from its previous parent first')
                    # order: the detaching call clears the parent link of what it removes, so it must come BEFORE the new parent is set
                    from faillog import _can_reach as _cr
                    cfg_ = f.cfg()
                    late = [(c_, d_) for c_ in sp for d_ in det if cfg_ is not None and _cr(cfg_, c_, d_)]
                    if det and sp:
                        rep.check(not late, 'C09.P2', key + '|detach-before-attach', f.where(late[0][1]) if late else f.where(n),
                                  '%s sets the new parent of `%s` (line %s) and only then removes it from its previous parent (line %s): that removal clears the parent link again, so the entity is listed by the new container but reports no parent'
                                  % (f.short, xt, late[0][0].get('l') if late else '', late[0][1].get('l') if late else ''), 'detached before the new parent is set')
            elif fn == 'erase':
                a = strip(n['c'][1]) if len(n['c']) > 1 else None
                elem_desc = None
                src = a
                ini = local_init(f, a) if a is not None else None
                if ini is not None:
                    src = ini
                key = '%s/%d|%s.erase' % (f.short, len(f.params), r['n'])
                cont_txts = tuple(t_ for t_ in (render(r), ALIAS.get(n['i'])) if t_)
                rp = [c for c in parent_calls if c['fn'] == 'removeParent']
                good = False
                det = 'no removeParent in the function'
                for c in rp:
                    root = strip(chain_root(c))
                    rt = render(root)
                    _deref = lambda t_: t_.replace('(', '').replace(')', '').lstrip('*').strip()    # `*it`, `(*it)` -> `it`
                    if a is not None and a.get('k') == 'Ref' and (rt == a.get('n') or _deref(rt) == a.get('n')):
                        good = True   # (*result)->removeParent()
                        det = 'removeParent on *%s' % rt
                        # must happen before the erase invalidates the iterator
                        if not f.cfg().node_dominates(c, n):
                            good = False
                            det = 'removeParent through the iterator after it was invalidated by erase'
                        break
                    ri = local_init(f, root) if root is not None else None
                    if ri is not None:
                        rtxt = render(ri)
                        # element copied from the same container position / iterator before the erase
                        if (rtxt.startswith(cont_txts) or (a is not None and a.get('k') == 'Ref' and (rtxt == a.get('n') or _deref(rtxt) == a.get('n')))) and f.cfg().node_dominates(ri, n):
                            good = True
                            det = 'removeParent on the element saved from `%s`' % rtxt
                            break
                    if root is not None and root.get('k') in ('Call',) and render(root).startswith(cont_txts) and f.cfg().node_dominates(c, n):
                        good = True
                        det = 'removeParent on `%s` before the erase' % render(root)
                        break
                    if root is not None and root.get('k') == 'Ref' and root.get('dk') == 'local':
                        # assigned (not initialised) from *result or from the same container position, before the erase
                        asg = [b for b in f.walk() if b.get('k') == 'Call' and b.get('opc') == '=' and b['c'][0].get('k') == 'Ref' and b['c'][0].get('d') == root['d']]
                        if any(((a is not None and (render(strip(b['c'][1])) == a.get('n') or _deref(render(strip(b['c'][1]))) == a.get('n'))) or render(strip(b['c'][1])).startswith(cont_txts)) and f.cfg().node_dominates(b, n) for b in asg):
                            good = True
                            det = 'removeParent on the element saved before the erase'
                            break
                    if root is not None and root.get('k') == 'Ref' and root.get('dk') == 'parm':
                        det = 'removeParent is applied to the argument `%s`, not to the element found by the lookup: with a structurally equal look-alike the erased child keeps its parent and the argument loses its own' % rt
                rep.check(good, 'C09.P3', key, f.where(n), det, det)
            elif fn == 'clear':
                from engines import element_loops
                good = any(any(c.get('k') == 'Call' and c.get('fn') == 'removeParent' for c in walk(l)) and f.cfg().node_dominates(hdr, n) for l, hdr in element_loops(f, render(r)))
                rep.check(good, 'C09.P4', '%s|%s.clear' % (f.short, r['n']), f.where(n), '%s is cleared without removeParent() on every element first' % r['n'], 'loop of removeParent precedes clear')
    if sites < 20:
        raise AnalysisBroken('container mutation sites: %d found, 25 confirmed' % sites)
    rep.rule('C09.P6', 'an element of a child container is never overwritten in place (C[i] = x): replacing must clear the parent of the old element, set the parent of the new one and detach it from its previous parent')
    n_ow = 0
    for f in sorted(F.funcs.values(), key=lambda f: (f.file, f.line)):
        for n in f.walk():
            if n.get('k') == 'Call' and n.get('opc') == '=' and len(n.get('c', [])) == 2:
                lhs = n['c'][0]
                if lhs.get('k') == 'Call' and (lhs.get('opc') == '[]' or lhs.get('fn') in ('at', 'operator[]', 'front', 'back')) and lhs.get('c') and is_container(strip_cast(lhs['c'][0])):
                    n_ow += 1
                    cont = strip_cast(lhs['c'][0])
                    x = strip(n['c'][1])
                    xt = render(x)
                    rp = [c for c in f.walk() if c.get('k') == 'Call' and c.get('fn') == 'removeParent' and f.cfg().node_dominates(c, n)]
                    sp = [c for c in f.walk() if c.get('k') == 'Call' and c.get('fn') == 'setParent' and render(strip(chain_root(c))) == xt]
                    rm = REMOVERS[cont['n']]
                    det = [c for c in f.walk() if c.get('k') == 'Call' and (c.get('fn') == rm or c.get('fn') == 'removeComponentFromEntity') and not (c.get('mc') and is_this_like(c['c'][0])) and any(y.get('k') == 'Ref' and render(y) == xt for y in walk(c))]
                    rep.check(bool(rp) and bool(sp) and bool(det), 'C09.P6', '%s/%d|%s[..] = %s' % (f.short, len(f.params), cont['n'], xt), f.where(n),
                              '%s overwrites an element of %s in place: old element parent cleared=%s, new element parent set=%s, new element detached from previous parent=%s' % (f.short, cont['n'], bool(rp), bool(sp), bool(det)),
                              'old parent cleared, new parent set, detached')
    rep.ok('C09.P6', 'scan', None, '%d in-place overwrites of child-container elements found in %d functions' % (n_ow, len(F.funcs)))
    # P5: find helpers
    helpers = [f for f in F.funcs.values() if f.name in ('findComponent', 'findVariable', 'findReset', 'findUnits') and f.params and 'std::shared_ptr<' in f.params[0]['t']]
    if len(helpers) < 4:
        raise AnalysisBroken('find*(pointer) helpers: %d found, 4 confirmed' % len(helpers))
    for h in helpers:
        ident = [n for n in h.walk() if n.get('k') == 'Call' and n.get('callee') == 'std::find']
        lam_ident = [n for n in h.walk() if n.get('k') == 'Lambda' and any(x.get('k') == 'Call' and x.get('opc') == '==' for x in walk(n)) and not any(x.get('k') == 'Call' and x.get('fn') == 'equals' for x in walk(n))]
        struct = [n for n in h.walk() if n.get('k') == 'Call' and n.get('fn') == 'equals']
        first_ident = bool(ident or lam_ident) and (not struct or all(h.cfg().node_dominates((ident + lam_ident)[0], s) or h.enclosing_lambda(s) is not None for s in struct))
        rep.check(first_ident, 'C09.P5', h.short, h.where(), '%s matches by structural equals() only: remove/replace/move of a child that has an equal sibling acts on the sibling' % h.short, 'identity first')

    # ------------------------------------------------------------------ A1
    rep.rule('C09.A1', 'Component::doAddComponent sets the parent link only on paths where the component is neither the new parent itself nor one of its ancestors')
    da = F.fn1('libcellml::Component::doAddComponent')
    sps = [c for c in da.walk() if c.get('k') == 'Call' and c.get('fn') == 'setParent']
    if not sps:
        raise AnalysisBroken('Component::doAddComponent no longer sets the parent')
    for c in sps:
        rc = ff(da).rendered_conds_at(c) or set()
        anc = ('hasAncestor(component)', False) in rc
        selfc = ('newParent == component', False) in rc or ('component == newParent', False) in rc or ('newParent != component', True) in rc
        rep.check(anc, 'C09.A1', 'doAddComponent|not-an-ancestor', da.where(c), 'setParent is reachable without `hasAncestor(component)` having been found false (facts: %s)' % sorted(rc), 'hasAncestor(component) is false on every path')
        rep.check(selfc, 'C09.A1', 'doAddComponent|not-itself', da.where(c),
                  'setParent(newParent) is reachable without `newParent == component` having been excluded: c->addComponent(c) on a component that has a parent makes c its own parent and child (facts: %s)' % sorted(rc),
                  'newParent != component on every path')

    # ------------------------------------------------------------------ K1: sentinel answers are not keys
    from engines import rule_sentinel_keys
    rule_sentinel_keys(F, rep, 'C09.K1')

    # ------------------------------------------------------------------ E1
    rep.rule('C09.E1', 'Variable::addEquivalence links both directions and rolls back a one-sided link; removeEquivalence unlinks both directions; unsetEquivalentTo erases the mapping/connection id entries')
    ae = F.fn1('libcellml::Variable::addEquivalence', nparams=2)
    st = [render(c) for c in ae.walk() if c.get('k') == 'Call' and c.get('fn') == 'setEquivalentTo']
    un = [c for c in ae.walk() if c.get('k') == 'Call' and c.get('fn') == 'unsetEquivalentTo']
    both = sorted(st) == ['variable1->pFunc()->setEquivalentTo(variable2)', 'variable2->pFunc()->setEquivalentTo(variable1)']
    rep.check(both, 'C09.E1', 'addEquivalence|both-directions', ae.where(), 'links made: %s' % st, 'both directions linked')
    rb = 0
    for c in un:
        rc = ff(ae).rendered_conds_at(c) or set()
        rb += 1 if any(t for _, t in rc) else 0
    rep.check(len(un) >= 1 and rb == len(un), 'C09.E1', 'addEquivalence|rollback', ae.where(), '%d conditional rollback call(s): a link newly made on one side only must be undone' % len(un), 'one-sided links are rolled back')
    re_ = F.fn1('libcellml::Variable::removeEquivalence', nparams=2)
    un2 = sorted(render(c) for c in re_.walk() if c.get('k') == 'Call' and c.get('fn') == 'unsetEquivalentTo')
    rep.check(un2 == ['variable1->pFunc()->unsetEquivalentTo(variable2)', 'variable2->pFunc()->unsetEquivalentTo(variable1)'], 'C09.E1', 'removeEquivalence|both-directions', re_.where(), 'unlinks: %s' % un2, 'both directions unlinked')
    for n in re_.walk():
        if n.get('k') == 'Call' and n.get('opc') in ('->', '*') and n['c'][0].get('k') == 'Ref' and n['c'][0].get('dk') == 'parm':
            nn = nonnull_at(re_, n) or set()
            rep.check(n['c'][0]['n'] in nn, 'C09.E1', 'removeEquivalence|null|' + n['c'][0]['n'], re_.where(n), 'dereference of %s without null test' % n['c'][0]['n'], 'null-tested')
    ue = F.fn1('Variable::VariableImpl::unsetEquivalentTo')
    er = {render(receiver(c)) for c in ue.walk() if c.get('k') == 'Call' and c.get('fn') == 'erase' and c.get('mc')}
    rep.check({'mEquivalentVariables', 'mMappingIdMap', 'mConnectionIdMap'} <= er, 'C09.E1', 'unsetEquivalentTo|erases', ue.where(), 'erases from %s' % sorted(er), 'equivalence and both id maps erased')
    # expired equivalents are never handed out: equivalentVariable(i) locks and the count excludes expired entries
    ev = F.fn1('libcellml::Variable::equivalentVariable')
    lk = [c for c in ev.walk() if c.get('k') == 'Call' and c.get('fn') == 'lock']
    rep.check(bool(lk), 'C09.E1', 'equivalentVariable|lock', ev.where(), 'equivalentVariable(i) does not lock the weak pointer', 'weak pointer locked (null for destroyed variables)')

    # ------------------------------------------------------------------ S: both members of a variable pair
    rep.rule('C09.S1', 'a function that consults one member of a VariablePair (variable1()/variable2()) consults the other member of the same pair too: ownership, identity and id bookkeeping of a pair never rest on one side')
    n_s = 0
    for f in F.funcs.values():
        v1, v2 = {}, {}
        for c in f.walk():
            if c.get('k') == 'Call' and c.get('callee') in ('libcellml::VariablePair::variable1', 'libcellml::VariablePair::variable2'):
                (v1 if c['callee'].endswith('1') else v2).setdefault(render(receiver(c)), c)
        for e in sorted(set(v1) | set(v2)):
            n_s += 1
            c = v1.get(e) or v2.get(e)
            rep.check(e in v1 and e in v2, 'C09.S1', '%s|%s' % (f.short, e), f.where(c),
                      '%s reads only %s of the pair `%s`: whatever it decides (owning model, identity, ids) ignores the other variable' % (f.short, 'variable1()' if e in v1 else 'variable2()', e), 'both members read')
    if n_s < 8:
        raise AnalysisBroken('C09.S1: %d pair uses found (10 confirmed)' % n_s)


    # ------------------------------------------------------------------ V: iterators stay valid
    rep.rule('C09.V1', 'an iterator into a child container (the result of find*/std::find over a data member) is not used (erase, dereference, comparison with end()) after a call that can change that container: '
                       'a clean-up or insertion between the lookup and the erase makes erase() remove a different element or run on end()')
    from faillog import _can_reach
    n_v = 0
    ENT = ('model.cpp', 'component.cpp', 'componententity.cpp', 'variable.cpp', 'units.cpp', 'reset.cpp', 'importsource.cpp', 'entity.cpp', 'namedentity.cpp', 'importedentity.cpp', 'parentedentity.cpp', 'importer.cpp', 'annotator.cpp')
    for f in F.funcs.values():
        if f.file.split('/')[-1] not in ENT:
            continue
        for v in f.walk():
            if v.get('k') != 'Var' or not v.get('c') or 'iterator' not in (v.get('t') or ''):
                continue
            init = v['c'][0]
            conts = set()
            for x in walk(init):
                if x.get('k') == 'Member' and x.get('field') and 'std::vector' in (x.get('t') or '') + '':
                    conts.add(x['n'])
                if x.get('k') == 'Call' and x.get('ck') in F.funcs and x.get('fn', '').startswith('find'):
                    conts |= {n_ for n_ in fields.this_reads(F, F.funcs[x['ck']]) if n_.startswith('m')}
            if not conts:
                continue
            uses = [u for u in f.walk() if u.get('k') == 'Ref' and u.get('d') == v['d'] and f.enclosing_lambda(u) is None]
            if not uses:
                continue
            cfg = f.cfg()
            muts = []
            for c in f.walk():
                if c.get('k') != 'Call' or c.get('opc') or c is init or any(x is c for x in walk(init)):
                    continue
                w = set()
                if c.get('mc') and c.get('c') and is_this_like(c['c'][0]):
                    for ck in F.callee_keys(c):
                        if ck in F.funcs:
                            w |= fields.this_writes(F, F.funcs[ck])
                if c.get('mc') and c.get('fn') in ('erase', 'push_back', 'emplace_back', 'insert', 'clear', 'resize') and c['c'][0].get('k') == 'Member' and c['c'][0].get('n') in conts:
                    # the erase that consumes the iterator itself is the use, not an intervening mutation
                    if any(r.get('k') == 'Ref' and r.get('d') == v['d'] for a in c['c'][1:] for r in walk(a)):
                        continue
                    w.add(c['c'][0]['n'])
                if w & conts:
                    muts.append((c, w & conts))
            n_v += 1
            bad = None
            for m_, w in muts:
                if not _can_reach(cfg, v, m_):
                    continue
                for u in uses:
                    if u.get('l', 0) >= m_.get('l', 0) and _can_reach(cfg, m_, u) and not any(x is u for x in walk(m_)):
                        bad = (m_, u, w)
                        break
                if bad:
                    break
            rep.check(bad is None, 'C09.V1', '%s|%s' % (f.short, v['n']), f.where(v),
                      '%s: iterator `%s` (into %s) is used at line %s after `%s`, which can change %s' % (f.short, v['n'], sorted(conts), bad[1].get('l') if bad else '', render(bad[0])[:40] if bad else '', sorted(bad[2]) if bad else ''),
                      'no change of %s between lookup and use' % sorted(conts))
    if n_v < 15:
        raise AnalysisBroken('C09.V1: only %d iterators into child containers found (25+ confirmed)' % n_v)


    # ------------------------------------------------------------------ O1: owners of entities that may have none
    import nullres
    n_o = nullres.run(F, rep, 'C09.O1', kinds=('owningComponent', 'owningModel', 'parent', 'weak.lock'))
    if n_o < 40:
        raise AnalysisBroken('C09.O1: only %d owner lookups with a dereference found (60+ confirmed)' % n_o)

    # ------------------------------------------------------------------ Q1: "same owner" is not "both have none"
    rep.rule('C09.Q1', 'where two owner lookups (owningModel / owningComponent / parent) are compared for equality to decide "same model / same component", one of them is known to be non-null there: '
                       'two entities that have no such owner at all (never added, or top-level components, whose parent is a model and not a component) are otherwise taken to share one')
    Q_EXEMPT = {'areEntitiesSiblings': 'compares the parents (model or component) of two components; its callers (interface determination, reachability of equivalences) always pass the component of a variable that was reached by walking a model, so the two parents cannot both be missing',
                'listComponentIdsAndItems': 'de-duplication of connection entries in the annotator index: in each conjunction one of the two comparisons involves a variable of the component being walked, which has an owner; '
                                            'equivalent variables without a component are all filed under one (component, none) connection, which has no id to offer anyway'}
    n_q = 0

    def _src(n, g_=None):
        while n.get('k') in ('Construct', 'Cast', 'Temp', 'Paren') and len(n.get('c', [])) == 1:
            n = n['c'][0]
        # a local that holds the result of the lookup (`auto model = owningModel(x);`)
        if g_ is not None and n.get('k') == 'Ref' and n.get('dk') == 'local':
            from engines import single_def
            i_ = single_def(g_, n.get('d'))
            if i_ is not None:
                return _src(i_)
        return n
    for g in F.funcs.values():
        if '/src/' not in g.file:
            continue
        for b in g.walk():
            op = b.get('op') or b.get('opc')
            if b.get('k') in ('Bin', 'Call') and op in ('==', '!=') and len(b.get('c', [])) == 2:
                l, r = _src(b['c'][0], g), _src(b['c'][1], g)
                if nullres.source_kind(l) in ('owningComponent', 'owningModel', 'parent') and nullres.source_kind(r) in ('owningComponent', 'owningModel', 'parent'):
                    n_q += 1
                    key = '%s|%s' % (g.name, render(b)[:70])
                    gname = g.name
                    if gname not in Q_EXEMPT:
                        # a helper split off from an exempt function (all of its call sites are there, same file) does the same job
                        cs_ = nullres._call_sites_of(F, g.key)
                        owners = {h_.name for h_, c_ in cs_ if h_.file == g.file}
                        if cs_ and len(owners) == 1 and all(h_.file == g.file for h_, c_ in cs_) and next(iter(owners)) in Q_EXEMPT:
                            gname = next(iter(owners))
                    if gname in Q_EXEMPT and not (gname == 'areEntitiesSiblings' and {nullres.source_kind(l), nullres.source_kind(r)} != {'parent'}):
                        rep.exempt('C09.Q1', key, Q_EXEMPT[gname])
                        continue
                    # a sibling conjunct (or a dominating condition) tests one of the two lookups against null
                    texts = {render(l), render(r), render(b['c'][0]), render(b['c'][1])}
                    nn = False
                    for cnd, t in (ff(g).conds_at(b) or []):
                        from facts import null_test
                        nt = null_test(cnd)
                        if nt is not None and nt[1] == t and render(nt[0]) in texts:
                            nn = True
                    rep.check(nn, 'C09.Q1', key, g.where(b), '%s decides "same owner" by `%s` although both sides can be null: entities without that owner all look alike' % (g.short, render(b)[:80]), 'one side tested non-null')
    if n_q < 3:
        raise AnalysisBroken('C09.Q1: comparisons of two owner lookups: %d found, 5 confirmed' % n_q)

    # ------------------------------------------------------------------ I2: positions computed from an index
    rep.rule('C09.I3', 'an insertion into a child container at begin() + index, made after calls that can remove elements from that container (the replaced child, and the new child when it was already listed here), '
                       're-bounds the index first (index = min(index, size)): otherwise the position lies beyond end()')
    from faillog import _can_reach as _cri
    n_i2 = 0
    for f in F.funcs.values():
        if f.cls not in ('libcellml::Model', 'libcellml::ComponentEntity', 'libcellml::Component', 'libcellml::Units'):
            continue
        for n in f.walk():
            if not (n.get('k') == 'Call' and n.get('mc') and n.get('fn') == 'insert' and is_container(receiver(n)) and len(n.get('c', [])) >= 3):
                continue
            pos = n['c'][1]
            idx = [x for x in walk(pos) if x.get('k') == 'Ref' and x.get('dk') in ('parm', 'local') and 'long' in (x.get('t') or '')]
            if not idx or not any(x.get('k') == 'Call' and x.get('fn') in ('begin', 'cbegin') for x in walk(pos)):
                continue
            n_i2 += 1
            d = idx[0]['d']
            cont = receiver(n)['n']
            cfg = f.cfg()
            removers = []
            for c in f.walk():
                if c.get('k') != 'Call' or c is n or not _cri(cfg, c, n):
                    continue
                if c.get('mc') and c.get('fn') == 'erase' and receiver(c) is not None and receiver(c).get('n') == cont:
                    removers.append(c)
                    continue
                for ck in F.callee_keys(c):
                    h = F.funcs.get(ck)
                    if h is not None and (h.name.startswith('remove') or h.name.startswith('take')) and cont in fields.this_writes(F, h):
                        removers.append(c)
            clamps = [a for a in f.walk() if ((a.get('k') == 'Bin' and a.get('op') == '=') or (a.get('k') == 'Call' and a.get('opc') == '=')) and a['c'][0].get('k') == 'Ref' and a['c'][0].get('d') == d
                      and any(x.get('k') == 'Call' and (x.get('callee') or '') in ('std::min',) for x in walk(a['c'][1])) and cont + '.size()' in render(a['c'][1]) and cfg.node_dominates(a, n)]
            late = [r for r in removers if not any(_cri(cfg, r, cl) for cl in clamps)]
            rep.check(not removers or (bool(clamps) and not late), 'C09.I3', '%s/%d|%s.insert' % (f.short, len(f.params), cont), f.where(n),
                      '%s inserts at begin() + %s after %d call(s) that can remove elements from %s (%s) without re-bounding the index: when the replacement was already a child at a lower index the position is past the end' % (f.short, idx[0]['n'], len(removers), cont, ', '.join(sorted({render(r)[:30] for r in removers}))),
                      'index clamped to size() after the removals')
    if n_i2 < 1:
        raise AnalysisBroken('C09.I3: positional insertions into child containers: %d found, 2 confirmed' % n_i2)

    from engines import rule_take_while
    rule_take_while(F, rep, 'C09.T1', lambda g: '/src/' in g.file, 'the library')



def strip_cast(n):
    while n is not None and n.get('k') in ('Cast', 'Construct') and len(n.get('c', [])) == 1:
        n = n['c'][0]
    return n


def chain_root(call):
    """For `x->pFunc()->f()` return the expression x."""
    n = call['c'][0] if call.get('mc') and call.get('c') else None
    while n is not None:
        if n.get('k') == 'Call' and n.get('opc') in ('->', '*') and n.get('c'):
            n = n['c'][0]
            continue
        if n.get('k') == 'Call' and n.get('mc') and n.get('fn') == 'pFunc' and n.get('c'):
            n = n['c'][0]
            continue
        if n.get('k') == 'Member' and n.get('n') == 'mPimpl' and n.get('c'):
            n = n['c'][0]
            continue
        break
    return n

