"""C08 - unit compatibility and scaling obey the algebra of units (structural clauses)."""
import json
import os

from facts import walk, render, role, is_call, AnalysisBroken, VERIF
from engines import ff, nth_arg, receiver, unwrap_defarg, nonnull_facts
import tables
from formula import Poly, Reducer, param_index, chain_topdown, chain_bottomup, restrict_exponent_one

LEVEL = ('(T) the constant tables behind units (standard units -> base exponents, log10 scales, prefixes, enum spellings) are read from their initialisers and compared value by value with the SI definitions '
         '(independent oracle sa/tables/si.json) and with each other; (M) the three reducers that compute scale and base exponents (units.cpp, validator.cpp, analyser.cpp) are abstracted from the AST into polynomials '
         'over roles and evaluated symbolically on a generic three-level chain of units: the results must be equal, under the property\'s restriction that prefixes/multipliers sit on children of exponent 1; '
         '(G) scalingFactor/compatible return before any reduction for null/undefined input. No number is computed by running the library.')
ASSUMPTIONS = ['the SI table sa/tables/si.json is correct (written from the SI brochure)', 'roles are resolved by position of Units::unitAttributes out-parameters and of function parameters']


def same_vector(a, b):
    ka = {k: v for k, v in a.items() if v != 0 and k != 'dimensionless'}
    kb = {k: v for k, v in b.items() if v != 0 and k != 'dimensionless'}
    return ka == kb


def run(F, rep):
    si = json.load(open(os.path.join(VERIF, 'sa', 'tables', 'si.json')))
    # ------------------------------------------------------------------ T
    rep.rule('C08.T1', 'standardUnitsList gives every standard unit its SI base-unit exponents (oracle: sa/tables/si.json)')
    rep.rule('C08.T2', 'standardMultiplierList gives every standard unit its log10 scale to coherent SI (0 except gram -3, litre -3)')
    rep.rule('C08.T3', 'standardPrefixList holds the SI prefixes with their powers of ten; prefixToString spells exactly those')
    rep.rule('C08.T4', 'key sets agree: standardUnitsList = standardMultiplierList = standardUnitToString values; baseUnitsList = units mapping to themselves; every base named by standardUnitsList is in baseUnitsList')
    g_units = F.glob('standardUnitsList')
    g_mult = F.glob('standardMultiplierList')
    g_pref = F.glob('standardPrefixList')
    g_base = F.glob('baseUnitsList')
    g_p2s = F.glob('prefixToString')
    g_u2s = F.glob('standardUnitToString')
    units = {}
    for k, v, node in tables.map_table(g_units):
        inner = {}
        for row in tables.unwrap1(v) if isinstance(tables.unwrap1(v), list) else []:
            row = tables.unwrap1(row) if not (isinstance(row, list) and len(row) == 2) else row
            if isinstance(row, list) and len(row) == 2:
                inner[tables.unwrap1(row[0])] = row[1]
        if not inner:
            # single-entry maps unwrap one level further
            vv = v
            while isinstance(vv, list) and len(vv) == 1:
                vv = vv[0]
            if isinstance(vv, list) and len(vv) == 2 and isinstance(vv[0], str):
                inner[vv[0]] = vv[1]
        units[k] = inner
    if len(units) < 25:
        raise AnalysisBroken('standardUnitsList: %d rows read, 31 confirmed' % len(units))
    where_u = '%s:%d' % (g_units['file'], g_units['line'])
    for name in sorted(set(units) | set(si['units'])):
        if name not in si['units']:
            rep.fail('C08.T1', name, where_u, 'standardUnitsList has a unit `%s` that is not an SI/CellML standard unit' % name)
        elif name not in units:
            rep.fail('C08.T1', name, where_u, 'standard unit `%s` is missing from standardUnitsList' % name)
        else:
            rep.check(same_vector(units[name], si['units'][name]), 'C08.T1', name, where_u,
                      'standardUnitsList[%s] = %s but SI says %s' % (name, units[name], si['units'][name]), 'matches SI')
    mult = {k: v for k, v, node in tables.map_table(g_mult)}
    where_m = '%s:%d' % (g_mult['file'], g_mult['line'])
    for name in sorted(set(mult) | set(si['units'])):
        want = si['log10_scale_to_coherent_SI'].get(name, 0)
        if name not in mult:
            rep.fail('C08.T2', name, where_m, 'standard unit `%s` is missing from standardMultiplierList' % name)
        else:
            rep.check(name in si['units'] and float(mult[name]) == float(want), 'C08.T2', name, where_m,
                      'standardMultiplierList[%s] = %s but the log10 scale to coherent SI is %s' % (name, mult[name], want), 'scale %s' % want)
    pref = {k: v for k, v, node in tables.map_table(g_pref)}
    where_p = '%s:%d' % (g_pref['file'], g_pref['line'])
    for name in sorted(set(pref) | set(si['prefixes'])):
        rep.check(name in pref and name in si['prefixes'] and int(pref[name]) == si['prefixes'][name], 'C08.T3', name, where_p,
                  'standardPrefixList[%s] = %s, SI: %s' % (name, pref.get(name), si['prefixes'].get(name)), '10^%s' % si['prefixes'].get(name))
    p2s = {tables.ename(k): v for k, v, node in tables.map_table(g_p2s)}
    for en, spelled in sorted(p2s.items()):
        rep.check(spelled in pref and en.lower() == spelled, 'C08.T3', 'prefixToString|' + en, '%s:%d' % (g_p2s['file'], g_p2s['line']),
                  'Units::Prefix::%s is spelled `%s`, which is not the matching SI prefix' % (en, spelled), 'spelled ' + spelled)
    u2s = {tables.ename(k): v for k, v, node in tables.map_table(g_u2s)}
    rep.check(set(units) == set(mult), 'C08.T4', 'units-vs-multipliers', where_m, 'key sets differ: %s' % sorted(set(units) ^ set(mult)), 'same 31 keys' if len(units) == 31 else 'same keys')
    rep.check(set(u2s.values()) == set(units), 'C08.T4', 'enum-spellings-vs-units', '%s:%d' % (g_u2s['file'], g_u2s['line']),
              'standardUnitToString values differ from standardUnitsList keys: %s' % sorted(set(u2s.values()) ^ set(units)), 'same keys')
    for en, spelled in sorted(u2s.items()):
        rep.check(en.lower() == spelled, 'C08.T4', 'standardUnitToString|' + en, '%s:%d' % (g_u2s['file'], g_u2s['line']), 'StandardUnit::%s is spelled `%s`' % (en, spelled), 'spelled ' + spelled)
    base = [tables.unwrap1(v) for v, node in tables.rows(g_base['init'])]
    selfmap = sorted(k for k, v in units.items() if set(v) == {k})
    rep.check(sorted(base) == selfmap, 'C08.T4', 'baseUnitsList', '%s:%d' % (g_base['file'], g_base['line']), 'baseUnitsList %s != units that map to themselves %s' % (sorted(base), selfmap), 'base units = self-mapping units')
    named = {b for v in units.values() for b in v}
    rep.check(named <= set(base), 'C08.T4', 'bases-named', where_u, 'standardUnitsList names bases outside baseUnitsList: %s' % sorted(named - set(base)), 'all named bases are base units')
    # membership helpers test the same tables
    for fn, tab in (('isStandardUnitName', 'standardUnitsList'), ('isStandardPrefixName', 'standardPrefixList')):
        f = F.fn1('libcellml::' + fn)
        rr = [render(r['c'][0]) for r in f.walk() if r.get('k') == 'Return' and r.get('c')]
        rep.check(rr == ['%s.count(name) != 0' % tab], 'C08.T4', fn, f.where(), '%s returns %s' % (fn, rr), 'tests membership in ' + tab)

    # ------------------------------------------------------------------ M: sibling formulas
    rep.rule('C08.M1', 'log10-scale reducers of units.cpp (reference: behind Units::scalingFactor), validator.cpp and analyser.cpp give the same polynomial on a generic chain T->R->Q->standard unit (under the exponent-1 restriction of the property)')
    rep.rule('C08.M2', 'base-exponent reducers of the three files give b*e1*e2*e3 on the same chain')
    rep.rule('C08.M3', 'every recursive call of a reducer passes the inherited exponent multiplied by the child\'s exponent (also on the import branch), and a per-child accumulator handed to the recursion is fresh in each iteration')
    fu = F.fn_rec('libcellml::updateUnitMultiplier')
    fv = F.fn_rec('libcellml::updateBaseUnitCount')
    fa = F.fn1('Analyser::AnalyserImpl::updateUnitsMultiplier')
    fam = F.fn1('Analyser::AnalyserImpl::updateUnitsMap')
    fum = F.fn1('libcellml::updateUnitsMap', file='units.cpp')

    # --- units.cpp (bottom-up)
    U = Reducer(F, fu, {('int', 0): 'd'})
    recs = U.recursive_calls()
    in_loop = [r for r in recs if U.in_loop(r)]
    if len(in_loop) != 1:
        raise AnalysisBroken('updateUnitMultiplier: %d recursive calls in the child loop, 1 confirmed' % len(in_loop))
    acc_arg = U.rec_arg(in_loop[0], param_index(fu, 'double &', 0))
    if acc_arg is None or acc_arg.get('k') != 'Ref' or acc_arg.get('dk') != 'local':
        raise AnalysisBroken('updateUnitMultiplier: the recursive call does not use a local accumulator any more')
    U.param_roles[acc_arg['d']] = 'B'
    # freshness of the per-child accumulator
    bvar = [v for v in fu.walk() if v.get('k') == 'Var' and v.get('d') == acc_arg['d']]
    fresh = bool(bvar) and U.in_loop(bvar[0]) and bvar[0].get('c') and U.ev(bvar[0]['c'][0]) == Poly.const(0)
    if not fresh:
        # an explicit reset `x = 0` inside the loop before the call also counts
        for n in fu.walk():
            if n.get('k') == 'Bin' and n.get('op') == '=' and n['c'][0].get('d') == acc_arg['d'] and U.in_loop(n) and U.ev(n['c'][1]) == Poly.const(0) and fu.cfg().node_dominates(n, in_loop[0]):
                fresh = True
    rep.check(fresh, 'C08.M3', 'updateUnitMultiplier|fresh-child-accumulator', fu.where(in_loop[0]),
              'the accumulator `%s` handed to the recursive call is not reset for each unit child: the scale of earlier children leaks into later ones' % acc_arg['n'], 'declared (=0) inside the child loop')
    accs = U.accumulations(lambda t: t.get('k') == 'Ref' and t.get('dk') == 'local')
    # the local total: the local that is finally added to the out-parameter (times the direction)
    fin = [n for n in fu.walk() if n.get('k') == 'CAssign' and n.get('op') == '+=' and n['c'][0].get('k') == 'Ref' and n['c'][0].get('dk') == 'parm' and not U.in_loop(n)]
    tot_d = None
    for n in fin:
        for x in walk(n['c'][1]):
            if x.get('k') == 'Ref' and x.get('dk') == 'local' and any(a['c'][0].get('d') == x.get('d') for a in accs):
                tot_d = x
    if tot_d is None:
        raise AnalysisBroken('updateUnitMultiplier: no local total that is accumulated in the child loop and added to the out-parameter afterwards')
    leafU = [a for a in accs if a['c'][0].get('d') == tot_d['d']]
    # one iteration of the child loop, executed symbolically on each side of isStandardUnitName(ref) (independent of where the `+=` is written)
    pu_leaf, pu_nest = U.branch_contribution(tot_d['d'], 'std'), U.branch_contribution(tot_d['d'], 'nonstd')
    if pu_leaf is None or pu_nest is None:
        raise AnalysisBroken('updateUnitMultiplier: the body of the child loop could not be executed symbolically')
    tgt = tot_d['n']
    okfin = [n for n in fin if U.ev(n['c'][1]) == Poly.sym('?' + tgt) * Poly.sym('d')]
    rep.check(len(okfin) >= 1, 'C08.M1', 'updateUnitMultiplier|direction-applied-once', fu.where(), 'the local total is not added as total*direction: %s' % [render(n) for n in fin], 'multiplier += local * direction')
    totalU = chain_bottomup(pu_leaf, pu_nest)

    # --- validator (top-down)
    V = Reducer(F, fv, {('double', 0): 'E', ('double', 1): 'L', ('int', 0): 'd'})
    macc = V.accumulations(lambda t: t.get('k') == 'Ref' and t.get('dk') == 'parm' and t.get('d') == fv.params[2]['d'])
    leafV = [a for a in macc if V.branch_of(a) == 'std']
    recV = [r for r in V.recursive_calls() if V.in_loop(r)]
    if len(leafV) != 1 or len(recV) != 1:
        raise AnalysisBroken('updateBaseUnitCount: %d leaf accumulation(s), %d recursive call(s) in the loop' % (len(leafV), len(recV)))
    pv_leaf = V.ev(leafV[0]['c'][1])
    pv_E, pv_L = V.ev(nth_arg(recV[0], V.role_index['E'])), V.ev(nth_arg(recV[0], V.role_index['L']))
    totalV = chain_topdown(pv_leaf, pv_E, pv_L)
    mapaccV = [a for a in V.accumulations(lambda t: t.get('k') == 'Call' and t.get('fn') in ('at', 'operator[]')) if V.branch_of(a) == 'std']
    if len(mapaccV) != 1:
        raise AnalysisBroken('updateBaseUnitCount: %d exponent accumulations on the standard branch' % len(mapaccV))
    pvm_leaf = V.ev(mapaccV[0]['c'][1])
    mapV = chain_topdown(pvm_leaf, pv_E, pv_L)

    # --- analyser multiplier (top-down)
    A = Reducer(F, fa, {('double', 0): 'E', ('double', 1): 'L'})
    macc = A.accumulations(lambda t: t.get('k') == 'Ref' and t.get('dk') == 'parm' and t.get('d') == fa.params[2]['d'])
    leafA = [a for a in macc if A.branch_of(a) == 'std']
    recA = [r for r in A.recursive_calls() if A.in_loop(r)]
    if len(leafA) != 1 or len(recA) != 1:
        raise AnalysisBroken('updateUnitsMultiplier: %d leaf accumulation(s), %d recursive call(s)' % (len(leafA), len(recA)))
    pa_leaf = A.ev(leafA[0]['c'][1])
    pa_E, pa_L = A.ev(nth_arg(recA[0], A.role_index['E'])), A.ev(nth_arg(recA[0], A.role_index['L']))
    totalA = chain_topdown(pa_leaf, pa_E, pa_L)

    ref_total = restrict_exponent_one(totalU)
    rep.extra['normal_forms'] = {'units.cpp updateUnitMultiplier': repr(totalU), 'validator.cpp updateBaseUnitCount': repr(totalV), 'analyser.cpp updateUnitsMultiplier': repr(totalA),
                                 'restricted (m_i, p_i only with e_i = 1)': {'units': repr(ref_total), 'validator': repr(restrict_exponent_one(totalV)), 'analyser': repr(restrict_exponent_one(totalA))}}
    # the reference itself must be the SI reading: scale of T = sum over the chain of (own multiplier+prefix) times the exponents above it
    e1, e2, e3 = Poly.sym('e1'), Poly.sym('e2'), Poly.sym('e3')
    expected = Poly.sym('m1') + Poly.sym('p1') + e1 * (Poly.sym('m2') + Poly.sym('p2')) + e1 * e2 * (Poly.sym('m3') + Poly.sym('p3')) + e1 * e2 * e3 * Poly.sym('s')
    rep.check(ref_total == expected, 'C08.M1', 'units.cpp|updateUnitMultiplier|reference', fu.where(leafU[0]),
              'log10 scale computed by updateUnitMultiplier on the chain is `%s`, the algebra of units gives `%s`' % (ref_total, expected), 'equals the algebraic scale ' + repr(expected))
    for name, f_, tot, site in (('validator.cpp|updateBaseUnitCount', fv, totalV, leafV[0]), ('analyser.cpp|updateUnitsMultiplier', fa, totalA, leafA[0])):
        r = restrict_exponent_one(tot)
        rep.check(r == expected, 'C08.M1', '%s|%s' % (name, r), f_.where(site),
                  '%s computes `%s` on the chain T->R->Q->standard, Units::scalingFactor (units.cpp) computes `%s`: the two disagree on %s' % (name.split('|')[1], r, expected, (r - expected)),
                  'same polynomial as units.cpp')

    # --- exponent maps
    bexp = Poly.sym('b') * e1 * e2 * e3
    rep.check(mapV == bexp, 'C08.M2', 'validator.cpp|updateBaseUnitCount|%s' % mapV, fv.where(mapaccV[0]), 'base exponents computed as `%s`, expected `%s`' % (mapV, bexp), 'b*e1*e2*e3')
    for name, f_ in (('analyser.cpp|updateUnitsMap', fam), ('units.cpp|updateUnitsMap', fum)):
        R = Reducer(F, f_, {('double', 0): 'E'} if f_ is fum else {('double', 0): 'E', ('double', 1): 'L'})
        eidx = R.role_index['E']
        helper_calls = [n for n in f_.walk() if n.get('k') == 'Call' and n.get('fn') == 'updateUnitsMapWithStandardUnit' and R.in_loop(n) and R.branch_of(n) == 'std']
        recs_ = [r for r in R.recursive_calls() if R.in_loop(r)]
        if len(helper_calls) != 1 or len(recs_) != 1:
            raise AnalysisBroken('%s: %d leaf call(s), %d recursive call(s) in the loop' % (name, len(helper_calls), len(recs_)))
        leaf = Poly.sym('b') * R.ev(nth_arg(helper_calls[0], 2))
        pE = R.ev(nth_arg(recs_[0], eidx))
        tot = chain_topdown(leaf, pE, Poly.const(0))
        rep.check(tot == bexp, 'C08.M2', '%s|%s' % (name, tot), f_.where(helper_calls[0]), 'base exponents computed as `%s`, expected `%s`' % (tot, bexp), 'b*e1*e2*e3')
        # all recursive calls (also outside the loop, e.g. the import branch) carry the inherited exponent
        for r in R.recursive_calls():
            a = nth_arg(r, eidx)
            p = R.ev(a) if a is not None else Poly.const(1)
            carries = all('E' in k for k in p.t) and bool(p.t)
            where_ = 'child loop' if R.in_loop(r) else 'outside the child loop (import branch)'
            rep.check(carries, 'C08.M3', '%s|recursion %s|E\'=%s' % (name, where_, p), f_.where(r),
                      'a recursive call of %s (%s) passes the exponent `%s`, which drops the exponent inherited from the referencing unit' % (name.split('|')[1], where_, p), 'passes ' + repr(p))
    # helper: unitsMap[base] += second * exp
    for hf in F.fn('updateUnitsMapWithStandardUnit'):
        acc = [n for n in hf.walk() if n.get('k') == 'CAssign' and n.get('op') == '+=']
        ok = False
        for n in acc:
            txt = render(n['c'][1])
            pn = hf.params[2]['n']
            ok = ok or txt in ('baseUnitsComponent.second * %s' % pn, '%s * baseUnitsComponent.second' % pn) or (txt.endswith('.second * ' + pn))
        rep.check(ok, 'C08.M2', 'updateUnitsMapWithStandardUnit@%s' % hf.file.split('/')[-1], hf.where(), 'helper accumulates %s' % [render(n) for n in acc], 'adds base exponent * exp')
    for name, f_, R_, recs_, eidx in (('validator.cpp|updateBaseUnitCount', fv, V, V.recursive_calls(), V.role_index['E']), ('analyser.cpp|updateUnitsMultiplier', fa, A, A.recursive_calls(), A.role_index['E']), ('units.cpp|updateUnitMultiplier', fu, U, [], 0)):
        for r in recs_:
            p = R_.ev(nth_arg(r, eidx))
            carries = all('E' in k for k in p.t) and bool(p.t)
            rep.check(carries, 'C08.M3', '%s|recursion|E\'=%s' % (name, p), f_.where(r), 'a recursive call of %s passes the exponent `%s`, which drops the inherited exponent' % (name.split('|')[1], p), 'passes ' + repr(p))

    # ------------------------------------------------------------------ G: guards
    rep.rule('C08.G1', 'Units::scalingFactor returns 0.0 for null or incompatible units before any reduction; Units::compatible tests definedness/null first')
    sf = [f for f in F.fn('libcellml::Units::scalingFactor')]
    if not sf:
        raise AnalysisBroken('Units::scalingFactor vanished')
    for f in sf:
        red = [n for n in f.walk() if n.get('k') == 'Call' and n.get('fn') == 'updateUnitMultiplier']
        if not red:
            continue
        for n in red:
            a = nth_arg(n, 0)
            nn = nonnull_facts(f, n) or set()
            rep.check(render(a) in nn, 'C08.G1', 'scalingFactor|%s' % render(a), f.where(n), 'updateUnitMultiplier(%s) is reached without a null test of %s' % (render(a), render(a)), 'null-tested')
            if len(f.params) >= 3:
                gates = []
                for iff in f.walk():
                    if iff.get('k') == 'If':
                        cnd = role(iff, 'cond')
                        if any(x.get('k') == 'Call' and x.get('fn') == 'compatible' for x in walk(cnd)):
                            thn = role(iff, 'then')
                            from engines import value_of as _vo8
                            zero = any(r.get('k') == 'Return' and r.get('c') and render(_vo8(f, r['c'][0])) in ('0', '0.0') for r in walk(thn))
                            if zero and f.cfg().node_dominates(cnd, n):
                                gates.append(cnd)
                rep.check(bool(gates), 'C08.G1', 'scalingFactor|compatibility-gate|%s' % render(a), f.where(n), 'no `return 0.0` under a Units::compatible test precedes the reduction', 'preceded by the compatibility gate')
    cp = F.fn1('libcellml::Units::compatible')
    for n in cp.walk():
        if n.get('k') == 'Call' and n.get('fn') == 'defineUnitsMap':
            a = render(nth_arg(n, 0))
            nn = nonnull_facts(cp, n) or set()
            cs = ff(cp).rendered_conds_at(n) or set()
            rep.check(a in nn and (a + '->isDefined()', True) in cs, 'C08.G1', 'compatible|%s' % a, cp.where(n), 'defineUnitsMap(%s) is reached without the null and isDefined tests' % a, 'null and isDefined tested first')
    rep.floor('C08.T1', 30)
    rep.floor('C08.T2', 30)
    rep.floor('C08.T3', 40)

    # ------------------------------------------------------------------ P: balanced recursion paths of the reducers
    rep.rule('C08.P1', 'a reducer that keeps the current recursion path in a container parameter (push_back on entry, pop_back on exit) pops what it pushed on every path that does not report failure: '
                       'otherwise units met a second time along another branch of the same definition are mistaken for a cycle and left out of the reduction')
    import recursion
    n_p = 0
    for g in (fu, fv):
        for c, name, ok, detail in recursion.path_guard_balance(F, g):
            n_p += 1
            rep.check(ok, 'C08.P1', '%s|%s' % (g.name, name), g.where(c), '%s: after `%s` some path reaches the exit without pop_back (%s)' % (g.short, render(c)[:40], detail), 'balanced (%s)' % detail)
    if n_p < 2:
        raise AnalysisBroken('C08.P1: path guards of the reducers vanished (%d found, 2 confirmed)' % n_p)

    recursion.rule_stack_discipline(F, rep, 'C08.P2', lambda g_: g_.file.endswith('/units.cpp'), 2, 'units.cpp (isDefined() decides compatible/scalingFactor)')

    rep.rule('C08.G3', 'every value Units::scalingFactor returns other than the refusal 0.0 is computed from the multipliers of BOTH arguments (updateUnitMultiplier): no shortcut returns a constant such as 1.0 - units without unit '
                       'children are not necessarily base units (imported units have none locally), so "nothing to scale" cannot be told from the arguments\' own child counts')
    sff = F.fn1('libcellml::Units::scalingFactor')
    n_g3 = 0
    for r_ in sff.walk():
        if r_.get('k') != 'Return' or not r_.get('c') or sff.enclosing_lambda(r_) is not None:
            continue
        from engines import value_of as _vo8g
        e_ = _vo8g(sff, r_['c'][0])
        n_g3 += 1
        if e_.get('k') in ('Float', 'Int'):
            rep.check(float(e_.get('v') or 0) == 0.0, 'C08.G3', 'scalingFactor|return %s@%s' % (render(e_), sum(1 for x in sff.walk() if x.get('k') == 'Return' and x.get('l', 0) < r_.get('l', 0))), sff.where(r_),
                      'Units::scalingFactor returns the constant %s on some path (under %s) without looking at the multipliers of the two units' % (render(e_), sorted(t for t, tr in (ff(sff).rendered_conds_at(r_) or set()) if tr)[:3]), 'refusal value')
        else:
            from engines import walk_x as _wx8
            mult = [x for x in _wx8(sff, e_) if x.get('k') == 'Ref' and x.get('dk') == 'local' and any(c_.get('k') == 'Call' and c_.get('fn') == 'updateUnitMultiplier' and any(y.get('k') == 'Ref' and y.get('d') == x.get('d') for y in walk(c_)) for c_ in sff.walk())]
            rep.check(bool(mult), 'C08.G3', 'scalingFactor|return %s' % render(e_)[:30], sff.where(r_), 'Units::scalingFactor returns `%s`, which does not derive from updateUnitMultiplier' % render(e_)[:50], 'derived from the multiplier accumulated by updateUnitMultiplier')
    if n_g3 < 2:
        raise AnalysisBroken('C08.G3: Units::scalingFactor has %d returns' % n_g3)

    rep.rule('C08.G2', 'Units::compatible can answer true only for units that are both fully defined: every return that can be true is reached only where isDefined() held for both arguments '
                       '(a shortcut such as "the same object is compatible with itself" in front of those gates contradicts scalingFactor, which still yields 0)')
    cpf = F.fn1('libcellml::Units::compatible')
    p1, p2 = cpf.params[0]['n'], cpf.params[1]['n']
    n_g2 = 0
    for r in cpf.walk():
        if r.get('k') == 'Return' and r.get('c') and cpf.enclosing_lambda(r) is None:
            e = r['c'][0]
            if e.get('k') == 'Bool' and not e.get('v'):
                continue
            n_g2 += 1
            conds = ff(cpf).rendered_conds_at(r) or set()
            okd = all(any(('%s->isDefined()' % p_) in t and ((tr and not t.startswith('!')) or (not tr and t.startswith('!'))) for t, tr in conds) for p_ in (p1, p2))
            rep.check(okd, 'C08.G2', 'compatible|return %s' % render(e)[:30], cpf.where(r), 'Units::compatible returns `%s` on a path where isDefined() was not established for both units (facts: %s)' % (render(e)[:30], sorted(conds)[:4]), 'behind isDefined() of both')
    if n_g2 < 1:
        raise AnalysisBroken('Units::compatible has no return that can be true')

    # ------------------------------------------------------------------ loop-carried locals
    from engines import rule_loop_state
    rule_loop_state(F, rep, 'C08.S1', lambda g: g.file.endswith('/units.cpp'), 'units.cpp')

    # ------------------------------------------------------------------ clauses shared with C03: where the analyser applies the factor (C08: "the analyser and generator scale by Units::scalingFactor")
    if not getattr(rep, 'nested', False):
        import core
        import c03
        core.borrow(F, rep, c03, only={'C03.S1', 'C03.S2', 'C03.S3'})

    # ------------------------------------------------------------------ every element of a collection is handled
    from engines import rule_visit_all
    rule_visit_all(F, rep, 'C08.Y1', lambda g: g.file.endswith(('/validator.cpp', '/units.cpp')), 20, 'validator.cpp and units.cpp (units of connected variables)')

    # ------------------------------------------------------------------ H / E: no stale factors, tolerant comparison of reduced exponents
    if not getattr(rep, 'nested', False):
        import c12
        c12.rule_h1(F, rep, 'C08.H1', [st for st in c12.STATE if st[0] == 'Analyser::AnalyserImpl'])
    rep.rule('C08.E1', 'areEqual(double, double), with which Units::compatible compares reduced base-unit exponents, compares the two values through convertToString (15 significant digits), not with ==: exponents such as 0.1 + 0.2 and 0.3 '
                       'differ in the last bit, and an exact comparison makes the verdict depend on the intermediate units the definition goes through')
    ae = [g for g in F.funcs.values() if g.name == 'areEqual' and len(g.params) == 2 and all(p_['t'] == 'double' for p_ in g.params)]
    if len(ae) != 1:
        raise AnalysisBroken('areEqual(double, double) vanished')
    rets_ = [r for r in ae[0].walk() if r.get('k') == 'Return' and r.get('c')]
    conv = [c for r in rets_ for c in walk(r) if c.get('k') == 'Call' and c.get('fn') == 'convertToString']
    covered = {x.get('d') for c in conv for x in walk(c) if x.get('k') == 'Ref' and x.get('dk') == 'parm'}
    rep.check(len(rets_) == 1 and len(conv) == 2 and covered == {p_['d'] for p_ in ae[0].params}, 'C08.E1', 'areEqual|through-text', ae[0].where(), 'areEqual returns `%s`: the operands are not both rounded through convertToString' % (render(rets_[0]['c'][0])[:70] if rets_ else '?'),
              'both operands compared as 15-digit text')


