"""C12 - operations are pure: no hidden state and no mutation of their input (structural clauses)."""
import re
from facts import walk, render, role, is_call, AnalysisBroken
from engines import ff, nth_arg, receiver, path, is_this_like, is_write_context
import fields
from issues import must_pass

LEVEL = ('(G) every call of a libxml2 process-global setter is paired with a restore of the saved previous value on every exit of the same function; (I) each service entry point empties its issue list before any issue can be added; '
         '(H) every data member of a service Impl class that is written during a top-level call is re-initialised, unconditionally, before it is read in that call - except the documented state; '
         '(M) from Printer::printModel, Validator::validateModel, Analyser::analyseModel and Generator::*Code no state-changing entity method is called on an object that is not freshly created inside the service. '
         'Equality of results across concrete histories is not executed.')
ASSUMPTIONS = ['a method changes entity state only if its body (transitively through calls on this) writes a data member']

GLOBAL_SETTERS = {'xmlKeepBlanksDefault', 'xmlSubstituteEntitiesDefault', 'xmlIndentTreeOutput', 'xmlLineNumbersDefault', 'xmlPedanticParserDefault', 'xmlLoadExtDtdDefaultValue', 'xmlDoValidityCheckingDefaultValue'}
# handler (de)registration: set before the read and reset to null afterwards inside the same function
HANDLER_SETTERS = {'xmlSetStructuredErrorFunc', 'xmlSetGenericErrorFunc'}

ENTRIES = [
    # (entry function, rule text)
    ('Parser::ParserImpl::parseModel', None), ('libcellml::Validator::validateModel', None), ('libcellml::Analyser::analyseModel', None),
    ('libcellml::Importer::resolveImports', None), ('libcellml::Importer::flattenModel', None), ('Annotator::AnnotatorImpl::update', None),
]
# service state: (Impl record, entry function that starts a top-level call, fields that are documented state)
STATE = [
    ('Parser::ParserImpl', 'Parser::ParserImpl::loadModel', {'mParser': 'back pointer to the public object'}),
    ('Analyser::AnalyserImpl', 'Analyser::AnalyserImpl::analyseModel', {'mAnalyser': 'back pointer', 'mExternalVariables': 'documented user state (addExternalVariable)', 'mGeneratorProfile': 'constant helper created once',
                                                                         'mStandardUnits': 'cache keyed by constant standard-unit names; its content does not depend on the analysed model'}),
    ('Generator::GeneratorImpl', 'libcellml::Generator::implementationCode', {'mModel': 'documented user state (setModel)', 'mProfile': 'documented user state (setProfile)'}),
    ('Generator::GeneratorImpl', 'libcellml::Generator::interfaceCode', {'mModel': 'documented user state (setModel)', 'mProfile': 'documented user state (setProfile)'}),
    ('Printer::PrinterImpl', 'libcellml::Printer::printModel', {'mPrinter': 'back pointer to the public object'}),
    ('Validator::ValidatorImpl', 'libcellml::Validator::validateModel', {'mValidator': 'back pointer to the public object'}),
]
ENTITY_FILES = ('model.cpp', 'component.cpp', 'componententity.cpp', 'variable.cpp', 'units.cpp', 'reset.cpp', 'importsource.cpp', 'entity.cpp', 'namedentity.cpp', 'importedentity.cpp', 'parentedentity.cpp')
ENTITY_CLASSES = ('libcellml::Model', 'libcellml::Component', 'libcellml::ComponentEntity', 'libcellml::Variable', 'libcellml::Units', 'libcellml::Reset', 'libcellml::ImportSource',
                  'libcellml::Entity', 'libcellml::NamedEntity', 'libcellml::ImportedEntity', 'libcellml::ParentedEntity')
READONLY_SERVICES = ['libcellml::Printer::printModel', 'libcellml::Validator::validateModel', 'libcellml::Analyser::analyseModel', 'libcellml::Generator::interfaceCode', 'libcellml::Generator::implementationCode']


def fresh(f, n, depth=0):
    """Is the object denoted by n created inside f (create()/clone()/make_shared), i.e. not the caller's?"""
    if n is None or depth > 5:
        return False
    k = n.get('k')
    if k == 'Call' and n.get('opc') in ('->', '*') and n.get('c'):
        return fresh(f, n['c'][0], depth + 1)
    if k in ('Construct', 'Cast') and len(n.get('c', [])) == 1:
        return fresh(f, n['c'][0], depth + 1)
    if k == 'Call' and (n.get('fn') in ('create', 'clone') or n.get('callee') in ('std::make_shared',)):
        return True
    if k == 'Ref' and n.get('dk') == 'local':
        defs = []
        for v in f.walk():
            c = v.get('c', [])
            if v.get('k') == 'Var' and v.get('d') == n['d']:
                defs.append(c[0] if c else None)
            elif v.get('k') == 'Call' and v.get('opc') == '=' and c and c[0].get('k') == 'Ref' and c[0].get('d') == n['d']:
                defs.append(c[1])
        defs = [d for d in defs if d is not None]
        return bool(defs) and all(fresh(f, d, depth + 1) for d in defs)
    return False


def rule_h1(F, rep, rid, states):
    rep.rule(rid, 'a data member of a service Impl class written during a top-level call is re-initialised by an unconditional plain write (assignment/clear) that dominates every other access of it in the entry function')
    for rec_s, entry_s, documented in states:
        rec = F.record(rec_s)
        entry = F.fn1(entry_s)
        own = [x['n'] for x in rec['fields']]
        reach = F.reach([entry.key])
        written = set()
        ptr_fields = {x['n'] for x in rec['fields'] if 'shared_ptr' in x['t']}
        for k in reach:
            g = F.funcs[k]
            for n in g.walk():
                if n.get('k') == 'Member' and n.get('field') and n.get('q', '') == rec['qname'] + '::' + n['n'] and is_write_context(g, n):
                    written.add(n['n'])
                # a helper object held through a shared_ptr member is state too: a non-const method called on it (directly or through a local
                # that was initialised from the member) changes what the next top-level call finds
                if n.get('k') == 'Member' and n.get('field') and n.get('q', '') == rec['qname'] + '::' + n['n'] and n['n'] in ptr_fields:
                    holders = [n]
                    p_ = g.parent(n)
                    while p_ is not None and p_.get('k') in ('Cast', 'Construct', 'Temp'):
                        p_ = g.parent(p_)
                    if p_ is not None and p_.get('k') == 'Var':
                        holders += [r_ for r_ in g.walk() if r_.get('k') == 'Ref' and r_.get('d') == p_.get('d')]
                    for h_ in holders:
                        a_ = g.parent(h_)
                        if a_ is not None and a_.get('k') == 'Call' and a_.get('opc') in ('->', '*'):
                            call_ = g.parent(a_)
                            while call_ is not None and call_.get('k') in ('Member',):
                                call_ = g.parent(call_)
                            if call_ is not None and call_.get('k') == 'Call' and call_.get('mc') and any(ck in F.funcs and not F.funcs[ck].j.get('const') for ck in F.callee_keys(call_)):
                                written.add(n['n'])
        for fld in own:
            key = '%s|%s|%s' % (rec_s.split('::')[-1], entry.short.split('::')[-1], fld)
            if fld in documented:
                rep.exempt(rid, key, documented[fld])
                continue
            if fld not in written:
                rep.ok(rid, key, None, 'never written during this call')
                continue
            # candidate resets in the entry function itself or in a callee invoked unconditionally at its top level
            cands = []
            scopes = [(entry, None)]
            for c in entry.walk():
                if c.get('k') == 'Call' and c.get('mc') and is_this_like(c['c'][0]) and entry.enclosing_lambda(c) is None:
                    for ck in F.callee_keys(c):
                        if ck in F.funcs and F.funcs[ck].name in ('reset', 'clear', 'initialise', 'init'):
                            scopes.append((F.funcs[ck], c))
            good = None
            for g, via in scopes:
                for n in g.walk():
                    if n.get('k') == 'Member' and n.get('field') and n['n'] == fld and n.get('q', '').startswith(rec['qname']):
                        p = g.parent(n)
                        plain = p is not None and ((p.get('k') == 'Bin' and p.get('op') == '=' and p['c'][0] is n) or (p.get('k') == 'Call' and p.get('opc') == '=' and p['c'][0] is n)
                                                   or (p.get('k') == 'Call' and p.get('mc') and p['c'][0] is n and p.get('fn') == 'clear'))
                        if not plain:
                            continue
                        # the new value must not depend on the old one
                        if p.get('k') in ('Bin', 'Call') and len(p['c']) > 1 and any(x.get('k') == 'Member' and x.get('n') == fld for x in walk(p['c'][1])):
                            continue
                        anchor = via if via is not None else p
                        others = [m for m in entry.walk() if m.get('k') == 'Member' and m.get('field') and m['n'] == fld and m is not n and entry.enclosing_lambda(m) is None]
                        calls_touching = [c for c in entry.walk() if c.get('k') == 'Call' and c is not via and entry.enclosing_lambda(c) is None and any(
                            k2 in F.funcs and fld in (fields.this_reads(F, F.funcs[k2]) | fields.this_writes(F, F.funcs[k2])) for k2 in F.callee_keys(c)) and c.get('mc') and is_this_like(c['c'][0])]
                        cfg = entry.cfg()
                        if all(cfg.node_dominates(anchor, m) for m in others) and all(cfg.node_dominates(anchor, c) for c in calls_touching):
                            good = 'reset by `%s` before every other use' % render(p)[:50]
            rep.check(good is not None, rid, key, entry.where(),
                      '%s::%s is written during %s but is not unconditionally re-initialised before its first use in that call: the result depends on what the same object processed before' % (rec_s.split('::')[-1], fld, entry.short), good)


def run(F, rep):
    # ------------------------------------------------------------------ G
    rep.rule('C12.G1', 'every call of a libxml2 process-global setter is paired, on every exit of the same function, with a call that restores the value the setter returned')
    n_g = 0
    for f in sorted(F.funcs.values(), key=lambda f: (f.file, f.line)):
        for n in f.walk():
            if n.get('k') == 'Call' and n.get('callee') in GLOBAL_SETTERS:
                n_g += 1
                p = f.parent(n)
                saved = p if p is not None and p.get('k') == 'Var' else None
                restores = []
                if saved is not None:
                    restores = [x for x in f.walk() if x.get('k') == 'Call' and x.get('callee') == n['callee'] and x is not n and any(y.get('k') == 'Ref' and y.get('d') == saved['d'] for y in walk(x))]
                ok = bool(restores) and must_pass(f.cfg_for(n), n, [x['i'] for x in restores])
                # the site is named after the function that owns the work: a helper that was split off from ONE function (its only caller, same file) is
                # still that function's code - otherwise tidying a long function would turn a listed finding into a "new" one
                owner = f
                for _ in range(3):
                    cs_ = {g_.key: g_ for g_ in F.funcs.values() if any(c_.get('k') == 'Call' and owner.key in F.callee_keys(c_) for c_ in g_.walk())}
                    cs_.pop(owner.key, None)
                    if len(cs_) == 1 and next(iter(cs_.values())).file == owner.file:
                        owner = next(iter(cs_.values()))
                    else:
                        break
                rep.check(ok, 'C12.G1', '%s|%s(%s)' % (owner.short, n['callee'], render(n['c'][0]) if n.get('c') else ''), f.where(n),
                          '%s changes the process-wide libxml2 default `%s` and does not restore the previous value: later parses in the same process keep or drop whitespace-only text nodes depending on which libCellML call ran before' % (f.short, n['callee']),
                          'previous value restored on every exit')
    # error handlers: install ... uninstall, also when the two halves live in file-local helpers
    from engines import pairing_with_helpers

    def _inst(c):
        return c['callee'] if c.get('callee') in HANDLER_SETTERS and c.get('c') and c['c'][-1].get('k') != 'Null_' and render(c['c'][-1]) != 'nullptr' else None

    def _uninst(c):
        return c['callee'] if c.get('callee') in HANDLER_SETTERS and c.get('c') and (c['c'][-1].get('k') == 'Null_' or render(c['c'][-1]) == 'nullptr') else None
    xf = [f for f in F.funcs.values() if re.search(r'xml\w*\.cpp$', f.file)]
    for f, c, k_, ok, how in pairing_with_helpers(F, xf, _inst, _uninst):
        n_g += 1
        rep.check(ok, 'C12.G1', '%s|%s' % (f.short, k_), f.where(c), 'error handler installed in %s is not uninstalled on every exit' % f.short, 'handler reset to null on every exit (%s)' % how)
    if n_g < 5:
        raise AnalysisBroken('global libxml2 setter calls: %d found, 5 confirmed' % n_g)

    # ------------------------------------------------------------------ I
    rep.rule('C12.I1', 'each parse/validate/analyse/resolve/flatten/update entry empties the issue list before any issue can be added in that call')
    for suffix, _ in ENTRIES:
        f = F.fn1(suffix)
        rai = [c for c in f.walk() if c.get('k') == 'Call' and c.get('fn') == 'removeAllIssues']
        later = [c for c in f.walk() if c.get('k') == 'Call' and c.get('ck') and c.get('fn') != 'removeAllIssues' and f.enclosing_lambda(c) is None
                 and (c.get('fn') in ('addIssue',) or any('addIssue' in F.funcs[k].name or True for k in F.callee_keys(c) if k in F.funcs and _adds_issue(F, k)))]
        ok = bool(rai) and all(f.cfg().node_dominates(rai[0], c) for c in later)
        rep.check(ok, 'C12.I1', f.short, f.where(), '%s can add an issue before (or without) emptying the list: issues of an earlier call leak into this result' % f.short, 'removeAllIssues dominates %d issue-adding calls' % len(later))

    # ------------------------------------------------------------------ H
    rule_h1(F, rep, 'C12.H1', STATE)

    rep.rule('C12.H2', 'the analyser\'s per-instance units cache (exempt from H1 as model independent) is only filled under isStandardUnitName(key) with a freshly created Units of that name')
    n_c = 0
    for f in F.funcs.values():
        if not f.file.endswith('analyser.cpp'):
            continue
        for n in f.walk():
            if n.get('k') == 'Call' and n.get('mc') and n.get('fn') in ('emplace', 'insert', 'operator[]', 'try_emplace', 'insert_or_assign') and receiver(n) is not None and receiver(n).get('n') == 'mStandardUnits':
                n_c += 1
                karg = nth_arg(n, 0)
                varg = nth_arg(n, 1)
                rc = ff(f).rendered_conds_at(n) or set()
                okk = ('isStandardUnitName(%s)' % render(karg), True) in rc
                okv = varg is not None and fresh(f, varg)
                rep.check(okk and okv, 'C12.H2', '%s|mStandardUnits.%s(%s)' % (f.short, n['fn'], render(karg)), f.where(n),
                          'the cache that survives between analyses is filled with `%s` -> `%s` %s: units of one analysed model leak into the analysis of the next model that uses the same name' % (
                              render(karg), render(varg), '' if okk else 'outside isStandardUnitName(%s)' % render(karg)), 'standard-unit name and fresh Units object')
    if n_c < 1:
        raise AnalysisBroken('no write to AnalyserImpl::mStandardUnits found')

    # ------------------------------------------------------------------ S: no state in static storage
    rep.rule('C12.S1', 'no object in static storage can carry state from one call to the next: every function-local static and every namespace-scope variable of src is const '
                       '(a static service object, cache or flag makes the result of a call depend on what the process did before)')
    STATIC_OK = {'XmlDoc::parseMathML|mathMLDTD': 'the decompressed MathML DTD: filled once from a constant table (decompressMathMLDTD() takes no argument), its content does not depend on any model or call'}
    n_s = 0
    for f in F.funcs.values():
        for v in f.walk():
            if v.get('k') == 'Var' and v.get('static'):
                n_s += 1
                key = '%s|%s' % (f.short, v['n'])
                if key in STATIC_OK:
                    init_calls = [c for c in f.walk() if c.get('k') == 'Call' and c.get('opc') == '=' and c['c'][0].get('k') == 'Ref' and c['c'][0].get('d') == v['d']]
                    pure = all(len([a for a in (x['c'][1].get('c') or [])]) == 0 for x in init_calls)
                    rep.check(pure, 'C12.S1', key, f.where(v), 'static %s is assigned from an expression with arguments' % v['n'], STATIC_OK[key])
                    continue
                rep.check((v.get('t') or '').startswith('const '), 'C12.S1', key, f.where(v), '%s keeps `static %s %s` between calls: what a call returns depends on the calls made before it in this process' % (f.short, v.get('t'), v['n']), 'const')
    for g in F.globals.values():
        n_s += 1
        rep.check((g.get('t') or '').startswith('const ') or 'constexpr' in (g.get('t') or ''), 'C12.S1', 'global|%s' % g['qname'], '%s:%s' % (g['file'], g.get('line')), 'namespace-scope variable %s (%s) is not const' % (g['qname'], g.get('t')), 'const')
    if n_s < 40:
        raise AnalysisBroken('C12.S1: only %d static objects seen (54 confirmed)' % n_s)

    # ------------------------------------------------------------------ M
    rep.rule('C12.M1', 'Printer::printModel, Validator::validateModel, Analyser::analyseModel and Generator::*Code call state-changing entity methods only on objects created inside the service (create()/clone())')
    meth = {}
    for q in ENTITY_CLASSES:
        r = F.records.get(q)
        if not r:
            continue
        for m in r['methods']:
            meth[m['key']] = m
    n_m = 0
    seen = set()
    for e in READONLY_SERVICES:
        entry = F.fn1(e)
        for k in F.reach([entry.key]):
            g = F.funcs[k]
            if g.file.split('/')[-1] in ENTITY_FILES or (g.cls or '') in ENTITY_CLASSES or (g.cls or '').rsplit('::', 1)[0] in ENTITY_CLASSES:
                continue
            # helpers that are only ever called from entity methods are part of the entity implementation
            cs = [F.funcs[c] for c in F.callers.get(k, ())]
            if cs and all(c.file.split('/')[-1] in ENTITY_FILES or (c.cls or '') in ENTITY_CLASSES or (c.cls or '').rsplit('::', 1)[0] in ENTITY_CLASSES for c in cs):
                continue
            for n in g.walk():
                if n.get('k') == 'Call' and n.get('mc') and n.get('ck') in meth and not meth[n['ck']]['const'] and not meth[n['ck']]['static']:
                    callee = F.funcs.get(n['ck'])
                    if callee is None:
                        continue
                    w = fields.this_writes(F, callee)
                    if not w:
                        continue
                    n_m += 1
                    key = '%s|%s' % (g.short, render(n)[:60])
                    if (entry.short, key) in seen:
                        continue
                    seen.add((entry.short, key))
                    rep.check(fresh(g, n['c'][0]), 'C12.M1', '%s|%s' % (entry.short.split('::')[-1], key), g.where(n),
                              '%s (reachable from %s) calls %s, which writes %s, on an object that is not created inside the service: the caller\'s model is modified' % (g.short, entry.short, render(n)[:50], sorted(w)[:3]),
                              'receiver is created inside the service')
    rep.rule('C12.M2', 'the generator does not change the analysed model it is given: every state-changing method of AnalyserEquationAst called in generator.cpp is called on a node created there (the temporary nodes it builds for root/power code), '
                       'never on a node reached from the model\'s own AST')
    astm = {m['key']: m for m in (F.records.get('libcellml::AnalyserEquationAst') or {'methods': []})['methods']}
    n_m2 = 0
    for g in F.funcs.values():
        if not g.file.endswith('/generator.cpp'):
            continue
        for n in g.walk():
            if n.get('k') == 'Call' and n.get('mc') and n.get('ck') in astm and not astm[n['ck']]['const'] and not astm[n['ck']]['static']:
                callee = F.funcs.get(n['ck'])
                if callee is None or not fields.this_writes(F, callee):
                    continue
                n_m2 += 1
                rep.check(fresh(g, n['c'][0]), 'C12.M2', '%s|%s' % (g.short.split('::')[-1], render(n)[:60]), g.where(n), '%s calls `%s` on a node that was not created inside the generator: generating code changes the AnalyserModel' % (g.short, render(n)[:60]), 'receiver created in the generator')
    if n_m2 < 3:
        raise AnalysisBroken('C12.M2: only %d AST mutations in generator.cpp (5+ confirmed)' % n_m2)
    rep.ok('C12.M1', 'scan', None, '%d state-changing entity calls examined in the reach of %d read-only services' % (n_m, len(READONLY_SERVICES)))

    # ------------------------------------------------------------------ clauses shared with C15 and C07: the reset at the start of a call really empties everything
    if not getattr(rep, 'nested', False):
        import core
        import c15
        core.borrow(F, rep, c15, only={'C15.L3'})
        import c07
        core.borrow(F, rep, c07, only={'C07.W1', 'C07.S1'})
        # flattenModel works on, and returns, a copy (clause shared with C06)
        import c06
        core.borrow(F, rep, c06, only={'C06.P1', 'C06.P2'})
        # helpers that add a scratch child and take it out again (indexStackOf adds a dummy variable to locate a component) leave their argument
        # unchanged only if removal by pointer removes THAT object: the lookup tries identity before structural equality (clause shared with C09)
        import c09
        core.borrow(F, rep, c09, only={'C09.P5'})
        # a query of the importer's library must not change it (std::map::operator[] inserts): clause shared with C07
        core.borrow(F, rep, c07, only={'C07.M1'})
    rule_counters(F, rep, 'C12.K1')
    from engines import rule_address_order
    rule_address_order(F, rep, 'C12.A1', lambda g: '/src/' in g.file, 'the library')


_adds = {}



def _adds_issue(F, key):
    """Does the function (transitively) call addIssue?"""
    if key in _adds:
        return _adds[key]
    _adds[key] = False
    f = F.funcs[key]
    r = any(F.funcs[k].name == 'addIssue' for k in F.reach([key]))
    _adds[key] = r
    return r


def rule_counters(F, rep, rid):
    """Absolute uses of a service's own issue counters."""
    from engines import receiver, single_def
    rep.rule(rid, 'a service decides something from the ABSOLUTE value of its own issue counters (errorCount()/issueCount()/... compared with a literal) only if every public entry point that leads there clears the issue list first '
                  '(removeAllIssues() dominates the way in): the Printer keeps its issues across printModel calls, so there the counters may only be used as differences around a call; `errorCount() == 0` would make what is printed depend on '
                  'what an earlier call reported')
    n = 0
    for g in F.funcs.values():
        if '/src/' not in g.file or not g.cls:
            continue
        svc = g.cls.split('::')[1] if g.cls.startswith('libcellml::') and len(g.cls.split('::')) > 1 else None
        if svc is None:
            continue
        for c in g.walk():
            if not (c.get('k') == 'Call' and c.get('mc') and c.get('fn') in ('errorCount', 'issueCount', 'warningCount', 'messageCount')):
                continue
            r = receiver(c)
            rt = render(r) if r is not None else 'this'
            own = r is None or r.get('k') in ('This', 'NoObj') or rt in ('this', 'm' + svc, 'm%s->' % svc) or rt.startswith('m' + svc)
            if not own:
                continue
            # is the value compared with a literal?  (directly, or after it was put into a local that is defined once)
            cmp_ = None
            ch = c
            hold = None
            for a in g.ancestors(c):
                if a.get('k') in ('Paren', 'Cast', 'Temp'):
                    continue
                if a.get('k') == 'Var' and a.get('c') and single_def(g, a.get('d')) is not None:
                    hold = a
                break
            if hold is not None:
                for u in g.walk():
                    if u.get('k') == 'Ref' and u.get('d') == hold.get('d'):
                        pa = g.parent(u)
                        while pa is not None and pa.get('k') in ('Paren', 'Cast'):
                            pa = g.parent(pa)
                        op = (pa or {}).get('op') or (pa or {}).get('opc')
                        if pa is not None and pa.get('k') in ('Bin', 'Call') and op in ('==', '!=', '<', '>', '<=', '>=') and len(pa.get('c', [])) == 2:
                            other = pa['c'][1] if any(x is u for x in walk(pa['c'][0])) else pa['c'][0]
                            while other.get('k') in ('Paren', 'Cast') and len(other.get('c', [])) == 1:
                                other = other['c'][0]
                            if other.get('k') == 'Int':
                                cmp_ = pa
            for a in ([] if cmp_ is not None else g.ancestors(c)):
                if a.get('k') in ('Paren', 'Cast'):
                    ch = a
                    continue
                op = a.get('op') or a.get('opc')
                if a.get('k') in ('Bin', 'Call') and op in ('==', '!=', '<', '>', '<=', '>=') and len(a.get('c', [])) == 2:
                    other = a['c'][1] if a['c'][0] is ch else a['c'][0]
                    while other.get('k') in ('Paren', 'Cast') and len(other.get('c', [])) == 1:
                        other = other['c'][0]
                    if other.get('k') == 'Int':
                        cmp_ = a
                break
            if cmp_ is None:
                continue
            n += 1
            key = '%s|%s' % (g.short, render(cmp_)[:50])
            entries = [e for e in F.funcs.values() if e.cls == 'libcellml::' + svc and e.j.get('access', 0) == 0 and (e is g or g.key in F.reach([e.key]))]
            bad = []
            for e in entries:
                clears = [x for x in e.walk() if x.get('k') == 'Call' and x.get('fn') == 'removeAllIssues']
                if e is g:
                    ways = [c]
                else:
                    ways = [x for x in e.walk() if x.get('k') == 'Call' and not x.get('opc') and any(ck == g.key or g.key in F.reach([ck]) for ck in F.callee_keys(x))]
                if not clears or not all(any(e.cfg().node_dominates(cl, w) for cl in clears) for w in ways):
                    bad.append(e.short)
            rep.check(bool(entries) and not bad, rid, key, g.where(cmp_), '%s decides on `%s`, but the issue list is not cleared on the way in from %s: the outcome depends on what earlier calls on the same %s object reported' % (
                g.short, render(cmp_)[:50], ', '.join(sorted(set(bad))[:4]) or 'any public method', svc), 'entry points %s clear the issues first' % sorted({e.name for e in entries})[:4])
    rep.ok(rid, 'scan', None, '%d absolute uses of own issue counters' % n)
