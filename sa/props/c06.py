"""C06 - flattening yields an import-free model and leaves its inputs alone (structural clauses)."""
import re

from facts import walk, render, role, AnalysisBroken
from engines import ff, nth_arg, receiver, enclosing_conditions
from issues import must_pass
from faillog import _can_reach
import core
import prov

LEVEL = ('(P) provenance analysis over everything Importer::flattenModel reaches (origins OWN/LIB/SRC/parameter propagated through locals, containers, getters and function summaries): no state-changing entity method, '
         'Impl write or mutating helper is applied to the model passed in, to a library model (ImportSource::model()) or to an import source; the returned model originates from clone(); '
         '(G) the only non-null result is returned after the import loop has run to !hasImports() and is cloned behind the gates; '
         '(V) every helper that walks an imported component hands each child to a function that re-enters the walk (whole subtree), '
         '(A) every flag that accumulates over a loop and is consulted afterwards is only ever raised inside the loop, '
         '(U) a renamed units is followed by the update of both kinds of usage (variables and cn elements); '
         '(K) the clone() rules of C11 (field coverage, deep copy) hold, since the flat model is built from clones only. '
         'Validity and numerical equivalence of the flat model are not decided.')
ASSUMPTIONS = ['a method changes entity state only if its body (transitively through calls on this) writes a data member',
               'navigation from a cloned object stays inside the clone (re-checked here by the borrowed C11.D1 rule)']

ENTRY = 'libcellml::Importer::flattenModel'


def _transient_pair(F, P, g, idx):
    """All mutations of parameter idx in g are one add/remove pair of a freshly created object, and the removal is on every path after the addition."""
    evs = [(toks, n, text) for toks, n, text, via in P.events.get(g.key, []) if ('P%d' % idx) in toks]
    calls = [n for _, n, _ in evs if n.get('k') == 'Call' and n.get('mc')]
    if len(calls) != len(evs):
        return None
    adds = [n for n in calls if n.get('fn', '').startswith('add')]
    rems = [n for n in calls if n.get('fn', '').startswith('remove')]
    if len(adds) != 1 or len(rems) != 1 or len(calls) != 2:
        return None
    a, r = adds[0], rems[0]
    if a['fn'][3:] != r['fn'][6:]:
        return None
    xa, xr = nth_arg(a, 0), nth_arg(r, 0)
    if xa is None or xr is None or xa.get('k') != 'Ref' or xr.get('k') != 'Ref' or xa.get('d') != xr.get('d'):
        return None
    env = P._env(g)
    if P.origins(g, xa, env) != {'OWN'}:
        return None
    if render(receiver(a)) != render(receiver(r)):
        return None
    cfg = g.cfg()
    if not must_pass(cfg, a, [r['i']]):
        return None
    return '%s(%s) is followed on every path by %s of the same freshly created object' % (a['fn'], render(xa), r['fn'])


def run(F, rep):
    entry = F.fn1(ENTRY)
    P = prov.Prov(F, [entry.key])
    reach = P.keys

    # ------------------------------------------------------------------ P
    rep.rule('C06.P1', 'in the reach of Importer::flattenModel no state-changing operation is applied to an object that originates from a library model (ImportSource::model()), from an import source, or from the model passed in')
    n_ev = 0
    for k in reach:
        g = F.funcs[k]
        for toks, n, text, via in P.events.get(k, []):
            n_ev += 1
            foreign = toks & {'LIB', 'SRC'}
            if not foreign:
                continue
            key = '%s|%s' % (g.short.split('::')[-1], render(n)[:60])
            how = None
            if via and n.get('k') == 'Call' and not n.get('mc'):
                callee = F.funcs[via]
                idxs = [i for i in range(len(callee.params)) if nth_arg(n, i) is not None and (P.origins(g, nth_arg(n, i), P._env(g)) & {'LIB', 'SRC'}) and i in P.sum[via]['mut']]
                hows = [_transient_pair(F, P, callee, i) for i in idxs]
                if idxs and all(hows):
                    how = 'transient: in %s, %s' % (callee.short, '; '.join(hows))
            rep.check(how is not None, 'C06.P1', key, g.where(n),
                      '%s applies `%s` to an object with origin %s: flattening changes %s' % (g.short, text[:110], sorted(foreign), 'a library model' if 'LIB' in foreign else 'an import source shared with the model passed in'), how)
    s = P.sum[entry.key]
    rep.check(0 not in s['mut'], 'C06.P1', 'flattenModel|parameter model', entry.where(),
              'the model passed to flattenModel is modified: %s' % (s['mut'].get(0, ('', ''))[1],), 'no mutation event reaches parameter `model` (%d events in %d functions examined)' % (n_ev, len(reach)))
    if n_ev < 60:
        raise AnalysisBroken('C06.P1: only %d mutation events seen in the reach of flattenModel (100+ confirmed)' % n_ev)
    rep.rule('C06.P2', 'every model returned by flattenModel originates from clone()/create(), never from the parameter or a library model')
    rep.check(bool(s['ret']) and s['ret'] <= {'OWN'}, 'C06.P2', 'flattenModel|result', entry.where(), 'the result of flattenModel can originate from %s' % sorted(s['ret']), 'origins of the returned expression: %s' % sorted(s['ret']))

    # ------------------------------------------------------------------ G
    rep.rule('C06.G1', 'flattenModel clones only after model != nullptr, !hasImportIssues(model) and model->isDefined(); the cloned model is returned only after the loop `while (flatModel->hasImports())` has ended, and nothing leaves that loop early')
    fm = entry
    cl = [c for c in fm.walk() if c.get('k') == 'Call' and c.get('opc') == '=' and c['c'][0].get('k') == 'Ref' and 'libcellml::Model' in (c['c'][0].get('t') or '')]
    # ... or created where it is declared: `ModelPtr flatModel = model->clone();`
    cl += [v['c'][0] for v in fm.walk() if v.get('k') == 'Var' and 'libcellml::Model' in (v.get('t') or '') and v.get('c') and any(x.get('k') == 'Call' and x.get('fn') == 'clone' for x in walk(v['c'][0])) and fm.enclosing_lambda(v) is None]
    if len(cl) != 1:
        raise AnalysisBroken('flattenModel: the single assignment of the model that is flattened vanished (%d found)' % len(cl))
    conds = ff(fm).rendered_conds_at(cl[0]) or set()
    facts = ' && '.join(('' if t else '!') + '(' + c + ')' for c, t in sorted(conds))
    for want, truth, what in (('model == nullptr', False, 'null test'), ('hasImportIssues(model)', False, 'import issues'), ('model->isDefined()', True, 'definedness')):
        hit = [(c, t) for c, t in conds if want in c]
        okc = any(((t == truth) and not c.startswith('!')) or ((t != truth) and c.startswith('!')) for c, t in hit)
        rep.check(okc, 'C06.G1', 'gate|' + what, fm.where(cl[0]), 'the creation of the flat model is not dominated by the %s gate (`%s` %s); facts: %s' % (what, want, truth, facts[:160]), 'dominated by `%s` being %s' % (want, truth))
    wl = [w for w in fm.walk() if w.get('k') == 'While' and 'hasImports' in render(role(w, 'cond'))]
    if len(wl) != 1:
        raise AnalysisBroken('flattenModel: loop over hasImports() vanished')
    w = wl[0]
    early = [x for x in walk(role(w, 'body')) if x.get('k') in ('Break', 'Return', 'Goto')]
    rep.check(not early, 'C06.G1', 'loop|no early exit', fm.where(w), 'the import loop can be left while the model still has imports', 'no break/return inside the loop')
    cfg = fm.cfg()
    rets = [r for r in fm.walk() if r.get('k') == 'Return' and r.get('c') and _can_reach(cfg, cl[0], r)]
    # every path from the creation of the flat model to the exit goes through the loop test (dominance of the return would also demand it of the
    # paths that never create a flat model: a single-exit function returns the null model through the same `return`)
    from issues import must_pass as _mp6
    rep.check(bool(rets) and _mp6(cfg, cl[0], [role(w, 'cond')['i']] + [x['i'] for x in walk(role(w, 'cond'))]), 'C06.G1', 'return|after loop', fm.where(), 'after the clone some path reaches the exit without passing the loop test `%s`' % render(role(w, 'cond'))[:40],
              '%d return(s) reachable from the clone, every path to the exit passes the loop test' % len(rets))
    rep.check(render(role(w, 'cond')).replace(' ', '') in ('flatModel->hasImports()',) and all('flatModel' == render(r['c'][0]) for r in rets), 'C06.G1', 'loop|same object', fm.where(w),
              'the loop tests `%s` but `%s` is returned' % (render(role(w, 'cond')), [render(r['c'][0]) for r in rets]), 'tested and returned object are the same variable')

    # ------------------------------------------------------------------ V
    rep.rule('C06.V1', 'a helper in the reach of flattenModel that loops over the children of a component and hands each child to repository functions hands it to at least one function that re-enters the walk (recursion): '
                       'the whole encapsulated subtree of an imported component is visited, not only its first level')
    n_v = 0
    for k in reach:
        g = F.funcs[k]
        if g.file.split('/')[-1] not in ('importer.cpp', 'utilities.cpp'):
            continue
        for loop in g.walk():
            if loop.get('k') != 'For' or 'componentCount()' not in render(role(loop, 'cond')):
                continue
            body = role(loop, 'body')
            kids = {}
            for v in walk(body):
                if v.get('k') == 'Var' and v.get('c') and v['c'][0].get('k') == 'Call' and v['c'][0].get('fn') == 'component':
                    kids[v['d']] = v['n']
            passed = []
            for c in walk(body):
                if c.get('k') == 'Call' and not c.get('opc') and c.get('ck') in F.funcs:
                    callee = F.funcs[c['ck']]
                    if callee.file.split('/')[-1] not in ('importer.cpp', 'utilities.cpp'):
                        continue
                    args = c['c'][1:] if c.get('mc') else c['c']
                    for a in args:
                        while a.get('k') in ('Construct', 'Cast', 'Temp', 'Bind', 'Paren') and len(a.get('c', [])) == 1:
                            a = a['c'][0]      # an implicit conversion of the child pointer (ComponentPtr -> ComponentEntityConstPtr) is still the child
                        direct = a.get('k') == 'Ref' and a.get('d') in kids
                        inline = a.get('k') == 'Call' and a.get('fn') == 'component' and 'component' in (a.get('callee') or '')
                        if direct or inline:
                            passed.append((c, callee))
            if not passed:
                continue
            n_v += 1
            def recursive(fn):
                return any(fn.key in F.reach([x]) for x in F.callees.get(fn.key, ()))
            good = [callee for c, callee in passed if callee.key == g.key or g.key in F.reach([callee.key]) or recursive(callee)]
            # the descent must happen in every iteration: nothing but the loop condition may decide it
            base = set(ff(g).rendered_conds_at(role(loop, 'cond')) or set()) | {(render(role(loop, 'cond')), True)}
            for c, callee in passed:
                if callee in good:
                    extra = sorted((t, tr) for t, tr in (ff(g).rendered_conds_at(c) or set()) - base if 'nullptr' not in t)
                    rep.check(not extra, 'C06.V1', '%s|%s|unconditional' % (g.short.split('::')[-1], render(c)[:40]), g.where(c),
                              '%s descends into a child only when %s: the subtree below a child that fails the test is skipped' % (g.short, ' and '.join('`%s` is %s' % e for e in extra)[:160]), 'descends in every iteration')
            rep.check(bool(good), 'C06.V1', '%s|%s' % (g.short.split('::')[-1], render(role(loop, 'cond'))[:50]), g.where(loop),
                      '%s hands each child only to %s, none of which walks further down: grandchildren of the component are skipped' % (g.short, sorted({c.short for _, c in passed})),
                      'child handed to %s, which re-enters %s' % (good[0].short if good else '', g.short))
    if n_v < 6:
        raise AnalysisBroken('C06.V1: only %d child loops found (8 confirmed)' % n_v)

    rep.rule('C06.V2', 'results gathered from a subtree are merged completely: no call in the reach of flattenModel receives an iterator range whose two ends are the same expression (an empty range merges nothing)')

    def degenerate_ranges(f):
        out = []
        for c in f.walk():
            if c.get('k') == 'Call' and not c.get('opc'):
                args = c['c'][1:] if c.get('mc') else c['c']
                for a, b in zip(args, args[1:]):
                    if a.get('k') == 'Call' and a.get('mc') and a.get('fn') in ('begin', 'cbegin', 'end', 'cend', 'rbegin', 'rend') and render(a) == render(b):
                        out.append(c)
        return out
    import facts as _facts
    fx = _facts.fixture_funcs('charcmp')
    if len(degenerate_ranges(fx['fixtureMergeBad'])) != 1 or degenerate_ranges(fx['fixtureMergeGood']):
        raise AnalysisBroken('C06.V2: the detector does not separate the two fixture functions (sa/fixtures/src/charcmp.cpp)')
    n_r = 0
    badr = []
    for k in reach:
        g = F.funcs[k]
        n_r += sum(1 for c in g.walk() if c.get('k') == 'Call' and c.get('fn') in ('insert', 'assign') and len(c.get('c', [])) >= 3)
        badr += [(g, c) for c in degenerate_ranges(g)]
    for g, c in badr:
        rep.fail('C06.V2', '%s|%s' % (g.short.split('::')[-1], render(c)[:50]), g.where(c), '%s: `%s` is an empty range, what was gathered below is dropped' % (g.short, render(c)[:70]))
    if not badr:
        rep.ok('C06.V2', 'scan', None, '%d range insertions in the reach of flattenModel, none degenerate (fixture: 1 of 2 flagged, as expected)' % n_r)

    rep.rule('C06.L1', 'no loop in the reach of flattenModel advances an index over a collection (i < x->kCount(); ++i) while its body hands x->k(i) to an add/replace/take/remove of the entity model: '
                       'those move the child out of x, the collection shrinks under the index and every second child is skipped')

    def shrinking_index_loops(f):
        out = []
        for loop in f.walk():
            if loop.get('k') != 'For':
                continue
            m = re.match(r'(\w+) < (.+)->(\w+)Count\(\)$', render(role(loop, 'cond')) or '')
            inc = role(loop, 'inc')
            if not m or inc is None or '++' not in render(inc):
                continue
            ivar, owner, kind = m.groups()
            child = '%s->%s(%s)' % (owner, kind, ivar)
            aliases = {v['n'] for v in walk(role(loop, 'body')) if v.get('k') == 'Var' and v.get('c') and render(v['c'][0]) == child}
            for c in walk(role(loop, 'body')):
                if c.get('k') == 'Call' and c.get('mc') and not c.get('opc') and re.match(r'(add|replace|take|remove)[A-Z]', c.get('fn', '')):
                    args = [render(a) for a in c['c'][1:]]
                    if any(a == child or a in aliases for a in args) and c.get('fn', '')[len(re.match(r'(add|replace|take|remove)', c['fn']).group(1)):].lower().startswith(kind.lower()[:4]):
                        out.append((loop, c))
        return out
    fx = _facts.fixture_funcs('charcmp')
    if len(shrinking_index_loops(fx['fixtureMoveBad'])) != 1 or shrinking_index_loops(fx['fixtureMoveGood']):
        raise AnalysisBroken('C06.L1: the detector does not separate the two fixture functions (sa/fixtures/src/charcmp.cpp)')
    badl = [(F.funcs[k], lp, c) for k in reach for lp, c in shrinking_index_loops(F.funcs[k])]
    for g, lp, c in badl:
        rep.fail('C06.L1', '%s|%s' % (g.short.split('::')[-1], render(c)[:50]), g.where(c), '%s: `%s` inside `for (%s; ++)` moves the child out of the collection being indexed: every second child is skipped' % (g.short, render(c)[:60], render(role(lp, 'cond'))))
    if not badl:
        rep.ok('C06.L1', 'scan', None, 'no index loop moves children out of its own collection in %d functions (fixture: 1 of 2 flagged, as expected)' % len(reach))

    rep.rule('C06.B1', 'every function in the reach of flattenModel that keeps its current recursion path in a container parameter pops what it pushed on every path that does not report failure '
                       '(units or components reached twice along different branches - diamonds - are otherwise mistaken for cycles: isDefined() refuses valid models, required units are left out)')
    import recursion as _rec
    n_b = 0
    for k in reach:
        g = F.funcs[k]
        for c, name, ok, detail in _rec.path_guard_balance(F, g):
            n_b += 1
            rep.check(ok, 'C06.B1', '%s|%s' % (g.short.split('::')[-1], name), g.where(c), '%s: after `%s` some path reaches the exit without pop_back (%s)' % (g.short, render(c)[:40], detail), 'balanced (%s)' % detail)
    if n_b < 2:
        raise AnalysisBroken('C06.B1: path guards vanished from the reach of flattenModel (%d found, 3 confirmed)' % n_b)

    # ------------------------------------------------------------------ A
    rep.rule('C06.A1', 'a bool local that is initialised before a loop, assigned inside it and read after it accumulates over the iterations: inside the loop it is only assigned the constant that differs from its initial value, '
                       'or a value that depends on itself (so an earlier iteration is never overwritten by a later one)')
    n_a = 0
    for k in reach:
        g = F.funcs[k]
        if g.file.split('/')[-1] not in ('importer.cpp', 'utilities.cpp'):
            continue
        for v in g.walk():
            if v.get('k') != 'Var' or v.get('t') != 'bool' or not v.get('c') or v['c'][0].get('k') != 'Bool':
                continue
            init = v['c'][0].get('v')
            d = v['d']
            for loop in g.walk():
                if loop.get('k') not in ('For', 'While', 'RangeFor', 'Do'):
                    continue
                inside = {x['i'] for x in walk(loop)}
                if v['i'] in inside:
                    continue
                asg = [x for x in walk(loop) if ((x.get('k') == 'Bin' and x.get('op') == '=') or x.get('k') == 'CAssign') and x['c'][0].get('k') == 'Ref' and x['c'][0].get('d') == d]
                if not asg:
                    continue
                # read outside the loop, after it
                cfg = g.cfg()
                reads_after = [r for r in g.walk() if r.get('k') == 'Ref' and r.get('d') == d and r['i'] not in inside and g.parent(r) is not None
                               and not (g.parent(r).get('k') in ('Bin', 'CAssign') and g.parent(r)['c'][0] is r) and _can_reach(cfg, loop, r) and r.get('l', 0) > loop.get('l', 0)]
                # the flag controls the loop itself (search loops `while (!found)`) -> not an accumulator
                in_cond = any(r.get('k') == 'Ref' and r.get('d') == d for r in walk(role(loop, 'cond') or {}))
                if not reads_after or in_cond:
                    continue
                n_a += 1
                for x in asg:
                    rhs = x['c'][1]
                    mono = (rhs.get('k') == 'Bool' and rhs.get('v') != init) or x.get('k') == 'CAssign' or any(r.get('k') == 'Ref' and r.get('d') == d for r in walk(rhs))
                    # a constant write followed by leaving the loop at once is a search result, not an accumulation
                    rep.check(mono, 'C06.A1', '%s|%s' % (g.short.split('::')[-1], v['n']), g.where(x),
                              '%s: `%s` inside the loop overwrites what earlier iterations recorded in %s, which is consulted after the loop' % (g.short, render(x)[:60], v['n']), 'only raised: `%s`' % render(x)[:50])
    if n_a < 1:
        raise AnalysisBroken('C06.A1: no accumulating flag found (findAndReplaceComponentCnUnitsNames::contentModified confirmed)')

    # ------------------------------------------------------------------ U
    rep.rule('C06.U1', 'updateUnitsNameUsages rewrites both kinds of usage of a units name (variables and cn elements) for the same component, and every units renaming in transferUnitsRenamingIfRequired is followed by it')
    uu = F.fn1('libcellml::updateUnitsNameUsages')
    names = {c.get('fn'): c for c in uu.walk() if c.get('k') == 'Call' and not c.get('opc')}
    for want in ('findAndReplaceComponentsCnUnitsNames', 'updateComponentsVariablesUnitsNames'):
        c = names.get(want)
        rep.check(c is not None and any(render(a) == uu.params[2]['n'] for a in c['c']), 'C06.U1', 'usages|' + want, uu.where(), 'updateUnitsNameUsages no longer calls %s on its component' % want, 'called on `%s`' % uu.params[2]['n'])
    if 'findAndReplaceComponentsCnUnitsNames' in names and 'updateComponentsVariablesUnitsNames' in names:
        a, b = names['findAndReplaceComponentsCnUnitsNames'], names['updateComponentsVariablesUnitsNames']
        ca = sorted(ff(uu).rendered_conds_at(a) or set())
        cb = sorted(ff(uu).rendered_conds_at(b) or set())
        rep.check(sorted(ca) == sorted(cb), 'C06.U1', 'usages|same guard', uu.where(), 'the two rewrites run under different conditions: %s vs %s' % (ca, cb), 'both under %s' % ca)
    tr = F.fn1('libcellml::transferUnitsRenamingIfRequired')
    cfg = tr.cfg()
    sn = [c for c in tr.walk() if c.get('k') == 'Call' and c.get('fn') == 'setName' and render(receiver(c)) == tr.params[2]['n']]
    up = [c for c in tr.walk() if c.get('k') == 'Call' and c.get('fn') == 'updateUnitsNameUsages']
    if not sn or not up:
        raise AnalysisBroken('transferUnitsRenamingIfRequired: setName / updateUnitsNameUsages vanished')
    for c in sn:
        reach_up = [u for u in up if _can_reach(cfg, c, u)]
        okk = False
        why = ''
        for u in reach_up:
            guards = [(render(cnd), br) for cnd, br, st in enclosing_conditions(tr, u) if not any(x is c for x in walk(st))]
            inner = [t for t, br in guards if 'Name' in t and ('!=' in t or '==' in t)]
            # all guards between are the null test of the equivalent units and the old/new name comparison
            okk = okk or all(('Name' in t and '!=' in t and br == 'then') or 'targetUnits == nullptr' in t for t, br in guards)
            why = ' && '.join(t for t, br in guards)
        rep.check(okk, 'C06.U1', 'rename|%s' % render(c)[:40], tr.where(c), 'after `%s` no update of the usages is reachable under just the old-name/new-name comparison' % render(c)[:40], 'followed by updateUnitsNameUsages under `%s`' % why[:80])
    em = [c for c in tr.walk() if c.get('k') == 'Call' and c.get('fn') == 'emplace' and 'changedNames' in render(receiver(c))]
    for u in up:
        blk = [e for e in em if sorted(ff(tr).rendered_conds_at(e) or set()) == sorted(ff(tr).rendered_conds_at(u) or set())]
        rep.check(bool(blk), 'C06.U1', 'report|%s' % render(u)[:50], tr.where(u), 'a renaming that is applied is not reported back to the caller through changedNames', 'recorded in changedNames under the same condition')

    rep.rule('C06.U2', 'where units are transferred (and possibly renamed on the way) and the referring unit child is then pointed at their name, the name is read from the very object that was transferred: '
                       'reading it from another object (the original, while a temporary clone was transferred) leaves the reference on the old, clashing name')
    n_u2 = 0
    for g in F.funcs.values():
        if g.name not in ('transferUnitsRenamingIfRequired', 'retrieveUnitsDependencies', 'flattenComponent', 'flattenUnitsImports'):
            continue
        for c in g.walk():
            if c.get('k') == 'Call' and c.get('fn') == 'transferUnitsRenamingIfRequired' and not c.get('opc'):
                moved = nth_arg(c, 2)
                # the statement(s) after the call in the same block that read a name for setUnitAttributeReference
                p_ = g.parent(c)
                while p_ is not None and p_.get('k') not in ('Compound',):
                    c_stmt, p_ = p_, g.parent(p_)
                if p_ is None:
                    continue
                sibs = p_['c']
                idx = next((i for i, x in enumerate(sibs) if any(y is c for y in walk(x))), None)
                if idx is None:
                    continue
                for nxt in sibs[idx + 1: idx + 3]:
                    for s_ in walk(nxt):
                        if s_.get('k') == 'Call' and s_.get('fn') == 'setUnitAttributeReference':
                            names = [x for x in walk(nth_arg(s_, 1)) if x.get('k') == 'Call' and x.get('fn') == 'name' and x.get('mc')]
                            for nm in names:
                                n_u2 += 1
                                src = render(receiver(nm))
                                rep.check(moved is not None and moved.get('k') == 'Ref' and render(moved) == src, 'C06.U2', '%s|%s' % (g.name, render(s_)[:50]), g.where(s_),
                                          '%s transfers `%s` but points the unit child at the name of `%s`: a renaming applied during the transfer is lost' % (g.short, render(moved)[:40] if moved is not None else '?', src), 'name read from the transferred object')
    if n_u2 < 2:
        raise AnalysisBroken('C06.U2: transfer-then-reference sites vanished (%d found, 2 confirmed)' % n_u2)

    # ------------------------------------------------------------------ K
    import c11
    exempt = {
        'C11.D1|Component::clone|setImportSource(importSource())': 'clones share their import source with the original (known finding of C11); under C06 this is covered by origin SRC in C06.P1: flattening never writes an import source',
        'C11.D1|Units::clone|setImportSource(importSource())': 'clones share their import source with the original (known finding of C11); under C06 this is covered by origin SRC in C06.P1: flattening never writes an import source',
    }
    if not getattr(rep, 'nested', False):
        core.borrow(F, rep, c11, exempt=exempt)

    # ------------------------------------------------------------------ A: flags gathered over loops
    from engines import rule_accumulators
    rule_accumulators(F, rep, 'C06.A2', lambda g: g.file.endswith('/utilities.cpp') and 'ink' not in g.name, 1, 'the renaming helpers of utilities.cpp', 'whether the math of a component was modified (and must be written back) must not depend on the last cn element')

    # ------------------------------------------------------------------ W: walks over the component tree are complete
    import recursion as _recw
    _recw.rule_walkers(F, rep, 'C06.W1', ['flattenComponentImports', 'updateComponentsVariablesUnitsNames', 'findAndReplaceComponentsCnUnitsNames', 'componentNames', 'createComponentNamesMap', 'unitsUsed', 'generateEquivalenceMap'], 7, 'flattening, renaming units and carrying equivalences over')

    # ------------------------------------------------------------------ loop-carried locals
    from engines import rule_loop_state
    rule_loop_state(F, rep, 'C06.S1', lambda g: g.file.endswith(('/importer.cpp', '/utilities.cpp')), 'importer.cpp and utilities.cpp')

    # ------------------------------------------------------------------ XML text is read through the XML API
    from engines import rule_markup_search
    rule_markup_search(F, rep, 'C06.X1', lambda g: '/src/' in g.file and not g.file.endswith('/printer.cpp'), 'the library (printer excepted, which writes markup)')

    # ------------------------------------------------------------------ O: order and object of the units transfer
    rep.rule('C06.O1', 'unitsUsed lists the units a units is built on BEFORE that units (flattenComponent transfers them in list order and resolves equivalent importer units on the way): the insertion of referencedUnits(model, u) precedes the push_back of u on every path')
    from faillog import _can_reach as _cr6
    uu = F.fn_rec('libcellml::unitsUsed') if hasattr(F, 'fn_rec') else F.fn1('libcellml::unitsUsed')
    n_o1 = 0
    # unitsUsed itself, or the collector it hands over to (the list may be built by a recursive helper with an accumulator parameter)
    uus = [uu] + [F.funcs[k_] for k_ in sorted(F.reach([uu.key])) if k_ in F.funcs and F.funcs[k_] is not uu and F.funcs[k_].file == uu.file]
    for uu, v in [(g_, v_) for g_ in uus for v_ in g_.walk()]:
        cfg6 = uu.cfg()
        if v.get('k') == 'Var' and v.get('c') and any(c.get('k') == 'Call' and c.get('fn') == 'referencedUnits' for c in walk(v['c'][0])):
            rc_ = next(c for c in walk(v['c'][0]) if c.get('k') == 'Call' and c.get('fn') == 'referencedUnits')
            subj = render(nth_arg(rc_, 1))
            ins = [c for c in uu.walk() if c.get('k') == 'Call' and c.get('fn') == 'insert' and any(x.get('k') == 'Ref' and x.get('d') == v['d'] for x in walk(c))]
            blk = next((role(a, 'body') for a in uu.ancestors(v) if a.get('k') in ('For', 'RangeFor', 'While')), None)
            pushes = [c for c in walk(blk or {}) if c.get('k') == 'Call' and c.get('fn') in ('push_back', 'emplace_back') and render(nth_arg(c, 0)) == subj]
            for p_ in pushes:
                n_o1 += 1
                # both statements are in the body of the same loop: within one iteration the later one is the one written further down
                late = [i_ for i_ in ins if _cr6(cfg6, p_, i_) and (not _cr6(cfg6, i_, p_) or i_.get('l', 0) > p_.get('l', 0))]
                rep.check(bool(ins) and not late, 'C06.O1', 'unitsUsed|%s' % subj, uu.where(p_), 'unitsUsed appends `%s` before the units it is built on (the insertion of %s comes later)' % (subj, v['n']), 'dependencies first')
    if n_o1 < 2:
        raise AnalysisBroken('C06.O1: unitsUsed: %d units/dependencies pairs found, 2 confirmed' % n_o1)
    rep.rule('C06.O2', 'in flattenComponent the references of required units are re-pointed at renamed units on the very object that is transferred into the flat model (the argument of transferUnitsRenamingIfRequired), '
                       'not on the units of the library model it was cloned from (for units the library itself imports that is an empty stub)')
    fcp = F.fn1('libcellml::flattenComponent')
    tr = [c for c in fcp.walk() if c.get('k') == 'Call' and c.get('fn') == 'transferUnitsRenamingIfRequired']
    sets = [c for c in fcp.walk() if c.get('k') == 'Call' and c.get('mc') and c.get('fn') == 'setUnitAttributeReference']
    if not tr or not sets:
        raise AnalysisBroken('flattenComponent: transferUnitsRenamingIfRequired / setUnitAttributeReference vanished')
    moved = {render(nth_arg(c, 2)) for c in tr}
    for c in sets:
        rcv = render(c['c'][0])
        rcv = rcv[:-2] if rcv.endswith('->') else rcv
        rep.check(any(rcv.startswith(m_) for m_ in moved), 'C06.O2', 'flattenComponent|%s' % render(c)[:50], fcp.where(c), 'the references are corrected on `%s` but `%s` is what is transferred' % (rcv, sorted(moved)), 'corrected on the transferred object')

    # ------------------------------------------------------------------ F2: imports are instantiated, never re-pointed
    rep.rule('C06.F2', 'the importer never re-points an import: ImportedEntity::setImportSource / setImportReference are not called (on components or units) anywhere in importer.cpp. Flattening replaces a placeholder by a copy of what it names, '
                       'hop by hop; jumping to the end of a chain of imports drops whatever the intermediate models add on the way (components they encapsulate under the re-exported import, with their connections and units)')
    callers = {}
    for g_ in F.funcs.values():
        if '/src/' not in g_.file:
            continue
        for c_ in g_.walk():
            if c_.get('k') == 'Call' and c_.get('mc') and c_.get('fn') in ('setImportSource', 'setImportReference') and (c_.get('cls') or '').split('::')[-1] in ('ImportedEntity', 'Component', 'Units'):
                callers.setdefault(g_.file.split('/')[-1], []).append((g_, c_))
    n_f2 = sum(len(v) for v in callers.values())
    if n_f2 < 4:
        raise AnalysisBroken('C06.F2: only %d calls of ImportedEntity::setImportSource/setImportReference found in the library (parser, clone, ... confirmed): the detector would not see one in importer.cpp either' % n_f2)
    for g_, c_ in callers.get('importer.cpp', []):
        a0 = nth_arg(c_, 0)
        if a0 is not None and render(a0) in ('nullptr',):
            continue
        rep.fail('C06.F2', '%s|%s' % (g_.short.split('::')[-1], render(c_)[:60]), g_.where(c_), '%s re-points an import with `%s` instead of instantiating what it names' % (g_.short, render(c_)[:70]))
    rep.ok('C06.F2', 'scan', None, '%d calls of setImportSource/setImportReference on entities in %s; none in importer.cpp' % (n_f2, sorted(callers)))

    # ------------------------------------------------------------------ N1: one component per name in the clash map
    rep.rule('C06.N1', 'the name -> component map with which flattenComponent de-clashes component names (createComponentNamesMap) holds ONE entry per name: a container with unique keys (std::map / unordered_map). '
                       'With a multimap two components of the same name are both renamed to the same new name, and the flat model has a duplicate although both inputs were valid')
    ccm = F.fn1('libcellml::createComponentNamesMap')
    kinds_ = sorted({(p_.get('t') or '') for p_ in ccm.params if 'map<' in (p_.get('t') or '')} | {(v_.get('t') or '') for v_ in ccm.walk() if v_.get('k') == 'Var' and 'map<' in (v_.get('t') or '')} | ({ccm.j.get('ret')} if 'map<' in (ccm.j.get('ret') or '') else set()))
    if not kinds_:
        raise AnalysisBroken('createComponentNamesMap: the name map vanished')
    for t_ in kinds_:
        rep.check('multimap<' not in t_ and 'multiset<' not in t_, 'C06.N1', 'createComponentNamesMap|%s' % t_[:40], ccm.where(), 'component names are collected in `%s`, which keeps several components under one name' % t_[:60], 'unique keys')

