"""C11 - clone() is a faithful, independent deep copy (structural clauses)."""
from facts import walk, render, role, is_call, AnalysisBroken
from engines import is_this_like, ff, nth_arg, receiver, path
import fields

LEVEL = ('Field-coverage and sharing rules over every clone() (clang AST + call graph): each attribute field of the Impl hierarchy is read on the original and written on the copy '
         '(through setters whose bodies write that field), presence flags included; entity-typed values handed to the copy are clone() results, never pointers obtained from the original; '
         'Model::clone re-creates equivalences through an API that carries mapping/connection ids. Serialisation equality is not executed.')
ASSUMPTIONS = ['a setter "writes" a field when its body (transitively through calls on this) assigns or mutates that field']

CLASSES = ['Model', 'Component', 'Units', 'Variable', 'Reset', 'ImportSource']
EXCLUDED = {
    '*': {'mParent': 'a clone has no parent (the copy is parentless by construction)', 'mPimpl': 'implementation pointer'},
    'Variable': {'mVariable': 'back pointer', 'mEquivalentVariables': 'equivalences are documented not to be copied when a lone variable is cloned',
                 'mMappingIdMap': 'belongs to equivalences (not copied for a lone variable)', 'mConnectionIdMap': 'belongs to equivalences (not copied for a lone variable)'},
    'Component': {'mComponent': 'back pointer'},
    'Units': {'mUnits': 'back pointer'},
    'Model': {},
    'ImportSource': {},
}
# Entity-typed values that may legitimately be shared between original and copy.
SHARE_OK = {
    ('ImportSource', 'setModel'): 'the resolved library model is a weak, non-owned link (documented: clones refer to the same imported model)',
}
ENTITY_PTR = ('std::shared_ptr<libcellml::Model>', 'std::shared_ptr<libcellml::Component>', 'std::shared_ptr<libcellml::Units>',
              'std::shared_ptr<libcellml::Variable>', 'std::shared_ptr<libcellml::Reset>', 'std::shared_ptr<libcellml::ImportSource>')


def clone_fn(F, cls):
    fs = [f for f in F.funcs.values() if f.qname == 'libcellml::%s::clone' % cls]
    if len(fs) != 1:
        raise AnalysisBroken('%s::clone vanished or ambiguous' % cls)
    return fs[0]


def copy_var(f):
    for v in f.walk():
        if v.get('k') == 'Var' and v.get('c') and v['c'][0].get('k') == 'Call' and v['c'][0].get('fn') == 'create':
            return v
    raise AnalysisBroken('%s: no `auto x = create()`' % f.short)


def derived_from_copy(f, n, cv, depth=0):
    """Is expression n the copy variable, a member call on it, or a local initialised from such a call?"""
    if n is None or depth > 4:
        return False
    k = n.get('k')
    if k == 'Ref':
        if n.get('d') == cv['d']:
            return True
        if n.get('dk') == 'local':
            for v in f.walk():
                if v.get('k') == 'Var' and v.get('d') == n['d'] and v.get('c'):
                    return derived_from_copy(f, v['c'][0], cv, depth + 1)
        return False
    if k == 'Call' and n.get('c'):
        return derived_from_copy(f, n['c'][0], cv, depth + 1) if (n.get('mc') or n.get('opc') in ('->', '*')) else False
    if k in ('Construct', 'Cast') and n.get('c'):
        return derived_from_copy(f, n['c'][0], cv, depth + 1)
    return False


def is_clone_result(f, n, depth=0):
    if n is None or depth > 4:
        return False
    k = n.get('k')
    if k == 'Call' and n.get('fn') == 'clone':
        return True
    if k == 'Call' and n.get('fn') == 'create':
        return True
    if k in ('Construct', 'Cast') and len(n.get('c', [])) == 1:
        return is_clone_result(f, n['c'][0], depth + 1)
    if k == 'Ref' and n.get('dk') == 'local':
        for v in f.walk():
            if v.get('k') == 'Var' and v.get('d') == n['d'] and v.get('c'):
                return is_clone_result(f, v['c'][0], depth + 1)
    if k == 'Null_':
        return True
    return False


def run(F, rep):
    rep.rule('C11.R1', 'clone() reads every attribute field of the original (own and inherited Impl fields, presence flags included)')
    rep.rule('C11.W1', 'clone() writes every attribute field on the copy: some method it calls on the copy (transitively) writes that field')
    rep.rule('C11.D1', 'every entity-typed argument handed to the copy is a clone()/create() result or belongs to the copy; no shared_ptr obtained from the original is shared')
    rep.rule('C11.E1', 'Model::clone re-creates variable equivalences through an API that carries mapping and connection ids')
    rep.rule('C11.P1', 'clone() never gives the copy a parent')
    rep.rule('C11.Q1', 'what doEquals() compares on this side is what clone() copies: no doEquals reads (directly or through the getters it calls on this object) a field that clone() deliberately leaves out of the copy')
    n_q1 = [0]
    for cls in CLASSES:
        f = clone_fn(F, cls)
        cv = copy_var(f)
        allf = fields.impl_fields(F, cls, inherited=True)
        excl = dict(EXCLUDED['*'])
        excl.update(EXCLUDED.get(cls, {}))
        reads = fields.this_reads(F, f)
        writes = set()
        copy_calls = []
        for n in f.walk():
            if n.get('k') == 'Call' and n.get('mc') and not n.get('opc') and n.get('c') and derived_from_copy(f, n['c'][0], cv):
                copy_calls.append(n)
                for ck in F.callee_keys(n):
                    g = F.funcs.get(ck)
                    if g is not None and g.j.get('const') != 1:
                        writes |= fields.this_writes(F, g)
        # helper free functions receiving the copy (e.g. applyEquivalenceMapToModel(map, m)) are followed for writes on their callees
        for fname, owner, fj in allf:
            k = '%s::clone|%s' % (cls, fname)
            if fname in excl:
                rep.exempt('C11.R1', k, excl[fname])
                continue
            rep.check(fname in reads, 'C11.R1', k, f.where(), '%s::clone never reads %s::%s of the original, so the copy cannot reproduce it' % (cls, owner.split('::')[-1], fname), 'read')
            rep.check(fname in writes, 'C11.W1', k, f.where(), '%s::clone never writes %s on the copy (fields written through the copy\'s methods: %s)' % (cls, fname, sorted(writes)), 'written')
        # Q1: "the clone equals the original": doEquals of the class must not look at anything clone() deliberately leaves out (excluded fields such as a lone
        # variable's equivalences or the parent): a comparison of such a field makes every clone of an object that has it differ from its original
        try:
            import c10 as _c10
            de = _c10.do_equals(F, cls) if cls in _c10.CLASSES else None
        except Exception:
            de = None
        if de is not None:
            eq_reads = fields.this_reads(F, de)
            own_names = {fn_ for fn_, ow_, fj_ in allf}
            for fname in sorted(eq_reads & own_names):
                if fname in ('mPimpl',):
                    continue
                n_q1[0] += 1
                rep.check(fname in writes or fname not in excl, 'C11.Q1', '%s::doEquals|%s' % (cls, fname), de.where(),
                          '%s::doEquals looks at %s, which %s::clone() does not copy (%s): a clone of an object that has it no longer equals its original' % (cls, fname, cls, excl.get(fname, '')), 'copied by clone()' if fname in writes else 'not excluded from the copy')
        # deep copy discipline
        for n in copy_calls:
            for i, a in enumerate(n['c'][1:]):
                t = (a.get('t') or a.get('rt') or '')
                typ = t.replace('const ', '').replace(' &', '').strip()
                if a.get('k') == 'Construct' and len(a.get('c', [])) == 1:
                    inner = a['c'][0]
                    typ = (inner.get('t') or inner.get('rt') or typ).replace('const ', '').replace(' &', '').strip()
                if typ not in ENTITY_PTR:
                    continue
                k = '%s::clone|%s(%s)' % (cls, n.get('fn'), render(a)[:40])
                if (cls, n.get('fn')) in SHARE_OK:
                    rep.exempt('C11.D1', k, SHARE_OK[(cls, n.get('fn'))])
                    continue
                good = is_clone_result(f, a) or derived_from_copy(f, a, cv)
                rep.check(good, 'C11.D1', k, f.where(n), '%s::clone hands `%s` (a pointer obtained from the original) to the copy: original and copy then share that object, so changing one changes the other' % (cls, render(a)), 'clone/create result or part of the copy')
        # no parent
        sp = [n for n in f.walk() if n.get('k') == 'Call' and n.get('fn') == 'setParent' and n.get('c') and derived_from_copy(f, n['c'][0], cv)]
        rep.check(not sp, 'C11.P1', '%s::clone' % cls, f.where(), 'the copy is given a parent', 'no setParent on the copy')
    # D2: values looked up by a computed index are handed to the copy only under the bound test
    rep.rule('C11.D2', 'a value looked up on the copy by a computed index (c->variable(i) with i from indexOf) is handed to a cloned child only where the index is known to be in range (otherwise the lookup yields null and erases what the child\'s own clone() copied)')
    n_d2 = 0
    for cls in CLASSES:
        f = clone_fn(F, cls)
        cv = copy_var(f)
        for n in f.walk():
            if n.get('k') == 'Call' and n.get('mc') and n.get('fn', '').startswith('set') and len(n.get('c', [])) == 2:
                a = n['c'][1]
                while a.get('k') in ('Construct', 'Cast') and len(a.get('c', [])) == 1:
                    a = a['c'][0]
                src = a
                if a.get('k') == 'Ref' and a.get('dk') == 'local':
                    for v in f.walk():
                        if v.get('k') == 'Var' and v.get('d') == a['d'] and v.get('c'):
                            src = v['c'][0]
                if not (src.get('k') == 'Call' and src.get('mc') and src.get('fn') in ('variable', 'reset', 'units', 'component') and len(src.get('c', [])) == 2 and derived_from_copy(f, src['c'][0], cv)):
                    continue
                idx = src['c'][1]
                cnt = {'variable': 'variableCount()', 'reset': 'resetCount()', 'units': 'unitsCount()', 'component': 'componentCount()'}[src['fn']]
                rc = ff(f).rendered_conds_at(n) or set()
                if idx.get('k') == 'Call' and idx.get('fn') == 'indexOf':
                    # the search result is used directly: no bound test is possible
                    n_d2 += 1
                    idx = {'n': render(idx)}
                    ok = False
                else:
                    if idx.get('k') != 'Ref' or idx.get('dk') != 'local':
                        continue
                    ini = None
                    for v in f.walk():
                        if v.get('k') == 'Var' and v.get('d') == idx['d'] and v.get('c'):
                            ini = v['c'][0]
                    if ini is None or not (ini.get('k') == 'Call' and ini.get('fn') == 'indexOf'):
                        continue
                    n_d2 += 1
                    ok = ('%s < %s' % (idx['n'], cnt), True) in rc or ('%s < c->%s' % (idx['n'], cnt), True) in rc
                rep.check(ok, 'C11.D2', '%s::clone|%s(%s)' % (cls, n['fn'], render(src)[:40]), f.where(n),
                          '`%s` is applied with `%s` although %s may be out of range (indexOf found nothing): the null result overwrites the variable copied by the child\'s own clone()' % (render(n)[:50], render(src), idx['n']),
                          'under %s < %s' % (idx['n'], cnt))
    if n_d2 < 2:
        raise AnalysisBroken('C11.D2: %d index-based re-targeting sites in clone(), 2 confirmed' % n_d2)

    # E1
    m = clone_fn(F, 'Model')
    reach = F.reach([m.key])
    carriers = [F.funcs[k] for k in reach if F.funcs[k].name in ('setEquivalenceMappingId', 'setEquivalenceConnectionId') or (F.funcs[k].name == 'addEquivalence' and len(F.funcs[k].params) == 4)]
    adders = [F.funcs[k] for k in reach if F.funcs[k].name == 'addEquivalence']
    if not adders:
        raise AnalysisBroken('Model::clone no longer reaches Variable::addEquivalence')
    rep.check(bool(carriers), 'C11.E1', 'Model::clone|equivalence-ids', m.where(),
              'Model::clone re-creates equivalences through %s only: mapping ids and connection ids of the original are not carried over to the copy' % sorted({a.short + '/%d' % len(a.params) for a in adders}),
              'ids carried by %s' % sorted({c.short for c in carriers}))

    # E2: each equivalence id is carried over whenever it is non-empty, independently of the other one
    rep.rule('C11.E2', 'in Model::clone the copy of a mapping (connection) id depends only on that id being non-empty, not on the other id')
    setters = [c for c in m.walk() if c.get('k') == 'Call' and c.get('fn') in ('setEquivalenceMappingId', 'setEquivalenceConnectionId')]
    for c in setters:
        idarg = c['c'][-1]
        idvar = idarg.get('n') if idarg.get('k') == 'Ref' else None
        loops = [a for a in m.ancestors(c) if a.get('k') in ('For', 'RangeFor')]
        base = set()
        if loops:
            body = role(loops[0], 'body')
            first = body['c'][0] if body is not None and body.get('c') else None
            if first is not None:
                base = ff(m).rendered_conds_at(first) or set()
        extra = (ff(m).rendered_conds_at(c) or set()) - base
        foreign = [x for x in extra if idvar is None or idvar not in x[0]]
        rep.check(idvar is not None and not foreign, 'C11.E2', 'Model::clone|%s' % c['fn'], m.where(c),
                  '%s is only reached under %s, which does not concern the id being copied: the id is dropped although it is set on the original' % (c['fn'], foreign), 'depends only on `%s`' % idvar)

    # ------------------------------------------------------------------ E3: every recorded equivalence is re-created
    rep.rule('C11.E3', 'the helpers through which Model::clone re-creates the recorded variable equivalences (applyEquivalenceMapToModel -> makeEquivalence) call addEquivalence for every recorded pair: '
                       'the call depends on null tests only (a test such as "already connected, possibly indirectly" drops the pairs that close a cycle of connections)')
    from facts import null_test as _nt
    from engines import ff as _ff
    n_e3 = 0
    mc = clone_fn(F, 'Model')
    for k in F.reach([mc.key]):
        g = F.funcs[k]
        if not g.file.endswith('/utilities.cpp'):
            continue
        for c in g.walk():
            if c.get('k') == 'Call' and c.get('fn') == 'addEquivalence':
                n_e3 += 1
                extra = [(render(cn), tr) for cn, tr in (_ff(g).conds_at(c) or []) if _nt(cn) is None]
                rep.check(not extra, 'C11.E3', '%s|%s' % (g.short, render(c)[:40]), g.where(c), '%s re-creates an equivalence only when %s' % (g.short, ' and '.join('`%s` is %s' % e for e in extra)[:160]), 'for every recorded pair')
    if n_e3 < 1:
        raise AnalysisBroken('C11.E3: addEquivalence vanished from the helpers of Model::clone')

    # ------------------------------------------------------------------ X1 / D3
    rep.rule('C11.X1', 'in clone() every child read inside an index loop over the object\'s own children is read with that loop\'s index (an accessor that looks a child up by reference/name returns the first match: repeated references are cloned from the wrong child)')
    from engines import indexed_child_accesses
    n_x = 0
    for cls in CLASSES:
        try:
            cf = clone_fn(F, cls)
        except AnalysisBroken:
            continue
        for loop, c, ivar, uses in indexed_child_accesses(cf):
            n_x += 1
            rep.check(uses, 'C11.X1', '%s::clone|%s' % (cls, render(c)[:50]), cf.where(c), '%s::clone reads a child with `%s`, which does not use the loop index %s' % (cls, render(c)[:60], ivar), 'indexed by ' + ivar)
    if n_x < 3:
        raise AnalysisBroken('C11.X1: only %d indexed child reads in the clone functions (8 on the pinned tree; a loop rewritten as a range-for has no index to get wrong)' % n_x)

    rep.rule('C11.D3', 'a data member of the copy that holds an entity (units of a variable, variables of a reset, import source) is given an entity by clone(): the call on the copy that writes such a member takes a shared_ptr argument, '
                       'not a name from which an empty stand-in would be created')
    n_d3 = 0
    for cls in CLASSES:
        try:
            cf = clone_fn(F, cls)
        except AnalysisBroken:
            continue
        cv = copy_var(cf)
        ent_fields = {n_ for n_, q, fld in fields.impl_fields(F, cls) if (fld.get('t') or '').startswith(('std::shared_ptr<libcellml::', 'std::weak_ptr<libcellml::')) and n_ != 'mParent'}
        cvn = cv.get('n') if isinstance(cv, dict) else cv
        for c in cf.walk():
            if c.get('k') == 'Call' and c.get('mc') and not c.get('opc') and cv is not None and render(receiver(c)) == cvn:
                w = set()
                for ck in F.callee_keys(c):
                    if ck in F.funcs:
                        w |= fields.this_writes(F, F.funcs[ck])
                hit = w & ent_fields
                if not hit or not c['c'][1:]:
                    continue
                n_d3 += 1
                a0 = c['c'][1]
                t0 = (a0.get('t') or a0.get('rt') or '')
                is_ptr = 'shared_ptr' in t0 or 'weak_ptr' in t0 or a0.get('k') == 'Null_' or (a0.get('k') == 'Call' and a0.get('fn') in ('clone', 'create'))
                rep.check(is_ptr, 'C11.D3', '%s::clone|%s' % (cls, render(c)[:50]), cf.where(c), '%s::clone sets %s of the copy from `%s` (%s), not from an entity: the content of the original\'s %s is not copied' % (cls, sorted(hit), render(a0)[:40], t0[:40] or 'not a pointer', sorted(hit)), 'entity argument')
    if n_d3 < 3:
        raise AnalysisBroken('C11.D3: only %d entity-member writes on the copy (5 confirmed)' % n_d3)

    # ------------------------------------------------------------------ W: walks over the component tree are complete
    import recursion as _recw
    if n_q1[0] < 15:
        raise AnalysisBroken('C11.Q1: only %d fields read by the doEquals methods of the cloneable classes (15 confirmed)' % n_q1[0])
    _recw.rule_stack_discipline(F, rep, 'C11.K1', lambda g_: g_.name in ('recordVariableEquivalences', 'generateEquivalenceMap', 'indexStackOf', 'clone') and '/src/' in g_.file, 2, 'the equivalence map Model::clone() rebuilds the connections from')
    _recw.rule_walkers(F, rep, 'C11.W2', ['clone', 'fixComponentUnits', 'generateEquivalenceMap'], 3, 'copying components, their units links and equivalences')

    # ------------------------------------------------------------------ clause shared with C09: Model::clone re-creates equivalences only for variables whose component reports the model as owner
    if not getattr(rep, 'nested', False):
        import core
        import c09
        core.borrow(F, rep, c09, only={'C09.P1', 'C09.P2'})
    import c10
    # clause shared with C10: equals() must not depend on an order that clone() does not preserve (the order of equivalence lists, of children)
    if not getattr(rep, 'nested', False):
        import core as _core11
        _core11.borrow(F, rep, c10, only={'C10.O2'})

    # ------------------------------------------------------------------ G1: both sides are read the same way
    rep.rule('C11.G1', 'where doEquals compares a data member of this object with a getter called on the other object, that getter is the plain accessor of the same member (`return <member>;`): '
                       'a getter that edits the value on the way out (e.g. reports 0 for an order that is not set while the member keeps its old value) makes a.equals(b) and b.equals(a) disagree')
    n_g1 = 0
    for cls in c10.CLASSES:
        f_ = c10.do_equals(F, cls)
        for b in f_.walk():
            op_ = b.get('op') or b.get('opc')
            if not (b.get('k') in ('Bin', 'Call') and op_ in ('==', '!=') and len(b.get('c', [])) == 2):
                continue
            for x, y in ((b['c'][0], b['c'][1]), (b['c'][1], b['c'][0])):
                mem = [m_ for m_ in walk(x) if m_.get('k') == 'Member' and m_.get('field')]
                calls = [c_ for c_ in walk(y) if c_.get('k') == 'Call' and c_.get('mc') and not c_.get('opc')]
                if not mem or not calls or any(m_.get('k') == 'Member' and m_.get('field') for m_ in walk(y)):
                    continue
                gs = [F.funcs[ck] for ck in F.callee_keys(calls[0]) if ck in F.funcs]
                if not gs:
                    continue
                n_g1 += 1
                rets = [r_ for r_ in gs[0].walk() if r_.get('k') == 'Return' and r_.get('c')]
                want = render(x).split('->')[-1].split('.')[0] if mem else ''
                plain = len(rets) == 1 and render(rets[0]['c'][0]).replace('mPimpl->', 'pFunc()->').split('pFunc()->')[-1] == render(x).replace('mPimpl->', 'pFunc()->').split('pFunc()->')[-1]
                rep.check(plain, 'C11.G1', '%s::doEquals|%s' % (cls, render(b)[:50]), gs[0].where(), '%s compares `%s` with the other object\'s %s(), which returns `%s`' % (cls, render(x)[:40], calls[0].get('fn'), '; '.join(render(r_['c'][0])[:50] for r_ in rets)), 'plain accessor of the same member')
    if n_g1 < 8:
        raise AnalysisBroken('C11.G1: only %d member/getter comparisons found in the doEquals chain (13 confirmed)' % n_g1)


