"""C07 - import resolution terminates, succeeds exactly when possible, reports failures (structural clauses)."""
from facts import walk, render, role, is_call, AnalysisBroken
from engines import enclosing_conditions, ff, nth_arg, receiver, path, unwrap_defarg
import recursion
import faillog
from faillog import _can_reach

LEVEL = ('Rules over importer.cpp and the import walks of units/components/validator (clang AST/CFG/call graph): (T) every recursive step along an import is dominated by a history test whose history is handed on; '
         '(F) every path on which a fetch/check function or resolveImports/flattenModel yields its failure value has added an issue (interprocedural summaries); (S) a resolution starts from an empty issue list and cleared imports; '
         '(K) library keys are normalised on every access; (L) a model enters the library only on paths that report success; (B) the base handed to nested fetches derives from the base the importing file was fetched with. '
         '"Succeeds exactly when possible" and file-system behaviour are not decided.')
ASSUMPTIONS = ['std::ifstream/parser behaviour is outside the analysis', 'History tests (checkForImportCycles) are correct membership tests']


def slice_has(f, expr, pred):
    return any(pred(x) for x in recursion.slice_nodes(f, expr))


def rule_library_key(F, rep):
    """The statements at the head of ImporterImpl::fetchModel that choose the library key are executed for the four combinations of
    (the URL as written is a key of the library, the resolved path is a key of the library); values are W (the import source's URL, possibly
    normalised) and R (resolvePath(W, base))."""
    rep.rule('C07.K2', 'the library key under which an import is looked up is the URL exactly as the import states it whenever the library has that key (the key under which Importer::addModel/replaceModel register a model "that will replace the URL in future imports"), '
                       'and the path resolved against the importing file otherwise: decided by executing the key selection at the head of fetchModel for every combination of (URL as written is a key, resolved path is a key). '
                       'With the other precedence a model loaded from disk earlier shadows the one the user supplied for the same import')
    f = F.fn1('Importer::ImporterImpl::fetchModel')
    body = f.body
    if body is None or body.get('k') != 'Compound':
        raise AnalysisBroken('fetchModel: body vanished')

    def strip(e):
        while e is not None and e.get('k') in ('Paren', 'Cast', 'Construct', 'Temp', 'Bind') and len(e.get('c', [])) == 1:
            e = e['c'][0]
        return e

    class Stop(Exception):
        pass

    def val(e, env):
        e = strip(e)
        k = e.get('k')
        if k == 'Ref' and e.get('dk') == 'local':
            if e.get('d') in env:
                return env[e['d']]
            raise Stop()
        if k == 'Call' and e.get('fn') == 'normaliseDirectorySeparator':
            return val(e['c'][0], env)
        if k == 'Cond' and len(e.get('c', [])) == 3:
            return val(e['c'][1], env) if cond(e['c'][0], env, *env['__wr']) else val(e['c'][2], env)
        if k == 'Call' and e.get('fn') == 'url' and (e.get('cls') or '').endswith('ImportSource'):
            return 'W'
        if k == 'Call' and e.get('fn') == 'resolvePath':
            a = val(e['c'][0], env)
            if a == 'W' and render(strip(e['c'][1])) == f.params[1]['n']:
                return 'R'
            raise AnalysisBroken('fetchModel: resolvePath(%s, %s) is not the resolution of the URL as written against the importing file' % (a, render(e['c'][1])[:30]))
        raise Stop()

    def lookup(e, env):
        """mLibrary.find(x) -> ('it', value of x)"""
        e = strip(e)
        if e is not None and e.get('k') == 'Call' and e.get('fn') == 'find' and e.get('c') and 'mLibrary' in render(e['c'][0]):
            return ('it', val(e['c'][1], env))
        return None

    def present(e, env, w, r):
        v = val(e, env)
        if v == 'W':
            return w
        if v == 'R':
            return r
        raise Stop()

    def cond(e, env, w, r):
        e = strip(e)
        k = e.get('k')
        if k == 'Bin' and e.get('op') in ('&&', '||'):
            a, b = cond(e['c'][0], env, w, r), cond(e['c'][1], env, w, r)
            return (a and b) if e['op'] == '&&' else (a or b)
        if k == 'Un' and e.get('op') == '!':
            return not cond(e['c'][0], env, w, r)
        if k == 'Ref' and e.get('dk') == 'local' and isinstance(env.get(e.get('d')), bool):
            return env[e['d']]
        if k == 'Call' and e.get('fn') == 'count' and 'mLibrary' in render(e['c'][0]):
            return present(e['c'][1], env, w, r)
        if (k == 'Bin' and e.get('op') in ('==', '!=', '>')) or (k == 'Call' and e.get('opc') in ('==', '!=')):
            op = e.get('op') or e.get('opc')
            l, r_ = strip(e['c'][0]), strip(e['c'][1])
            for x, y in ((l, r_), (r_, l)):
                if x.get('k') == 'Ref' and x.get('dk') == 'local' and isinstance(env.get(x.get('d')), tuple) and y.get('k') == 'Call' and y.get('fn') == 'end':
                    v_ = env[x['d']][1]
                    p_ = w if v_ == 'W' else r
                    return (not p_) if op == '==' else p_
                if x.get('k') == 'Call' and x.get('fn') == 'count' and 'mLibrary' in render(x['c'][0]) and y.get('k') == 'Int' and y.get('v') == 0:
                    p_ = present(x['c'][1], env, w, r)
                    return (not p_) if op == '==' else p_
                if x.get('k') == 'Call' and x.get('fn') == 'find' and 'mLibrary' in render(x['c'][0]) and y.get('k') == 'Call' and y.get('fn') == 'end':
                    p_ = present(x['c'][1], env, w, r)
                    return (not p_) if op == '==' else p_
        raise Stop()

    def assigns_only(st):
        """a branch that only assigns string/bool locals"""
        items = st.get('c', []) if st.get('k') == 'Compound' else [st]
        return all((x.get('k') == 'Call' and x.get('opc') == '=' and x['c'][0].get('k') == 'Ref' and x['c'][0].get('dk') == 'local') or (x.get('k') == 'Bin' and x.get('op') == '=' and x['c'][0].get('k') == 'Ref') for x in items) and bool(items)

    def exec_(st, env, w, r):
        k = st.get('k')
        if k == 'Compound':
            for x in st.get('c', []):
                exec_(x, env, w, r)
        elif k == 'DeclStmt':
            for v in st.get('c', []):
                if v.get('k') == 'Var' and v.get('c'):
                    t = (v.get('t') or '').replace('const ', '')
                    if t in ('std::basic_string<char>', 'std::string', 'std::basic_string<char> &'):
                        env[v['d']] = val(v['c'][0], env)
                    elif t == 'bool':
                        env[v['d']] = cond(v['c'][0], env, w, r)
                    elif lookup(v['c'][0], env) is not None:
                        env[v['d']] = lookup(v['c'][0], env)
                    elif any(x.get('k') == 'Ref' and x.get('dk') == 'local' and env.get(x.get('d')) in ('W', 'R') for x in walk(v['c'][0])):
                        raise Stop()        # the chosen key is used (auto entry = mLibrary.find(url);): the selection is over
        elif (k == 'Call' and st.get('opc') == '=') or (k == 'Bin' and st.get('op') == '='):
            tgt = st['c'][0]
            if lookup(st['c'][1], env) is not None:
                env[tgt['d']] = lookup(st['c'][1], env)
            elif isinstance(env.get(tgt.get('d')), bool) or tgt.get('t') == 'bool':
                env[tgt['d']] = cond(st['c'][1], env, w, r)
            else:
                env[tgt['d']] = val(st['c'][1], env)
        elif k == 'If':
            th, el = role(st, 'then'), role(st, 'else')
            if not assigns_only(th) or (el is not None and not assigns_only(el)):
                raise Stop()
            if cond(role(st, 'cond'), env, w, r):
                exec_(th, env, w, r)
            elif el is not None:
                exec_(el, env, w, r)
        else:
            raise Stop()

    results = {}
    stop_at = None
    for w in (False, True):
        for r in (False, True):
            env = {'__wr': (w, r)}
            at = None
            for st in body.get('c', []):
                snap = dict(env)
                try:
                    exec_(st, env, w, r)
                except Stop:
                    env = snap
                    at = st
                    break
            # a declaration the executor has no use for (ModelPtr model;) is stepped over: look at the first statement that USES a string value
            if at is None:
                raise AnalysisBroken('fetchModel: no statement uses the chosen key')
            stop_at = at
            keyv = next((x for x in walk(role(at, 'cond') if at.get('k') == 'If' else at) if x.get('k') == 'Ref' and x.get('dk') == 'local' and env.get(x.get('d')) in ('W', 'R')), None)
            if keyv is None:
                keyv = next((x for x in walk(at) if x.get('k') == 'Ref' and x.get('dk') == 'local' and env.get(x.get('d')) in ('W', 'R')), None)
            if keyv is None:
                raise AnalysisBroken('fetchModel: the statement after the key selection (line %s) does not use a key that is the URL as written or its resolution' % at.get('l'))
            results[(w, r)] = env[keyv['d']]
    if not any(x.get('k') == 'Call' and x.get('fn') in ('count', 'find', 'at', 'operator[]') and 'mLibrary' in render(x['c'][0]) or x.get('k') == 'Construct' and 'ifstream' in (x.get('t') or '') for x in walk(stop_at)):
        raise AnalysisBroken('fetchModel: the key selection does not end at the library lookup / file read (line %s)' % stop_at.get('l'))
    for (w, r), got in sorted(results.items()):
        want = 'W' if w else 'R'
        names = {'W': 'the URL as written', 'R': 'the resolved path'}
        rep.check(got == want, 'C07.K2', 'as-written-in-library=%s|resolved-in-library=%s' % (w, r), f.where(stop_at),
                  'with the URL as written %s and the resolved path %s in the library, the import is looked up under %s; it must be %s' % ('present' if w else 'absent', 'present' if r else 'absent', names[got], names[want]),
                  'looked up under ' + names[want])


def run(F, rep):
    # ------------------------------------------------------------------ T
    rep.rule('C07.T1', 'every recursive call that takes an import step (importSource()->model()) is dominated by checkForImportCycles on the history that is handed on, or the import step is under isResolved()/isDefined()')
    S = recursion.sites(F)
    n = 0
    for i, f, g, call, kinds in S:
        if 'import' not in kinds:
            continue
        n += 1
        key = '%s->%s|%s|line-order %d' % (f.short, g.short.split('::')[-1], '+'.join(sorted(kinds)), sum(1 for x in S if x[1] is f and x[3].get('l', 0) < call.get('l', 0) and 'import' in x[4]))
        how = recursion.visited_guard(F, f, call)
        if not how:
            rc = ff(f).rendered_conds_at(call) or set()
            res = [c for c, t in rc if t and (c.endswith('->isResolved()') or c.endswith('->isDefined()'))]
            if res and any(t and c.endswith('->isImport()') for c, t in rc):
                how = 'under ' + res[0]
        if not how:
            # gated flattening internals and Units::compatible's reducer (see C01.R1 exemptions)
            if f.file.endswith('importer.cpp') and f.name in ('flattenUnitsImports', 'retrieveUnitsDependencies', 'transferUnitsRenamingIfRequired'):
                rep.exempt('C07.T1', key, 'flattening internals run behind hasImportIssues()==false and model->isDefined() (rule C01.G4), which reject import cycles')
                continue
            if f.name == 'updateUnitsMap' and f.file.endswith('units.cpp'):
                rep.exempt('C07.T1', key, 'only reached from Units::compatible after isDefined() (rule C08.G1)')
                continue
            if f.name == 'performTestWithHistory' and 'units-reference' in kinds and ('isImport', False) in {(c.get('fn'), t) for c, t in (ff(f).conds_at(call) or []) if c.get('k') == 'Call'}:
                # the local-units branch takes no import step itself (finding of C01.R1, keyed there)
                rep.exempt('C07.T1', key, 'non-import branch: no import step is taken by this call (its missing local-cycle test is the C01.R1 finding)')
                continue
        rep.check(bool(how), 'C07.T1', key, f.where(call), '%s follows an import (%s) without consulting the import history: an import cycle never terminates' % (f.short, render(call)[:60]), how)
    if n < 10:
        raise AnalysisBroken('import-step recursive sites: %d found, 14 confirmed' % n)

    # ------------------------------------------------------------------ F
    rep.rule('C07.F1', 'every path on which fetchModel/fetchImportSource/fetchUnits/fetchComponent/check*ForCycles/hasImportIssues/resolveImports/flattenModel yields its failure value has added an issue')
    faillog.report(F, rep, 'C07.F1', faillog.IMPORTER, 20)
    ri = F.fn1('libcellml::Importer::resolveImports')
    rep.rule('C07.F2', 'resolveImports touches issue(issueCount() - 1) only where a fetch just failed (so that issue exists by C07.F1)')
    tails = [c for c in ri.walk() if c.get('k') == 'Call' and c.get('fn') == 'issue' and 'issueCount() - 1' in render(c)]
    if not tails:
        raise AnalysisBroken('resolveImports no longer edits the last issue')
    for c in tails:
        cs = ff(ri).conds_at(c) or []
        okf = any((not t) and x.get('k') == 'Call' and x.get('fn') in ('fetchUnits', 'fetchComponent') for x, t in cs)
        rep.check(okf, 'C07.F2', 'resolveImports|%s' % render(c)[:40] + '@%d' % tails.index(c), ri.where(c), 'issue(issueCount() - 1) is used where no fetch is known to have failed: with an empty list the index wraps', 'under a failed fetch')

    # ------------------------------------------------------------------ S
    rep.rule('C07.S1', 'resolveImports starts from an empty issue list and cleared imports: removeAllIssues() and clearImports(model) dominate the first fetch; flattenModel starts with removeAllIssues()')
    fetches = [c for c in ri.walk() if c.get('k') == 'Call' and c.get('fn') in ('fetchUnits', 'fetchComponent')]
    rai = [c for c in ri.walk() if c.get('k') == 'Call' and c.get('fn') == 'removeAllIssues']
    clr = [c for c in ri.walk() if c.get('k') == 'Call' and c.get('fn') == 'clearImports']
    if len(fetches) < 2:
        raise AnalysisBroken('resolveImports: fetch calls not found')
    cfg = ri.cfg()
    rep.check(bool(rai) and all(cfg.node_dominates(rai[0], x) for x in fetches), 'C07.S1', 'resolveImports|removeAllIssues-first', ri.where(), 'issues of an earlier call survive into this resolution', 'removeAllIssues dominates every fetch')
    rep.check(bool(clr) and all(cfg.node_dominates(clr[0], x) for x in fetches) and render(nth_arg(clr[0], 0)) == 'model', 'C07.S1', 'resolveImports|clearImports-first', ri.where(), 'imports resolved by an earlier (possibly failed) call are not cleared first', 'clearImports(model) dominates every fetch')
    fm = F.fn1('libcellml::Importer::flattenModel')
    rai2 = [c for c in fm.walk() if c.get('k') == 'Call' and c.get('fn') == 'removeAllIssues']
    firsts = [c for c in fm.walk() if c.get('k') == 'Call' and c.get('fn') in ('addIssue', 'hasImportIssues')]
    rep.check(bool(rai2) and all(fm.cfg().node_dominates(rai2[0], x) for x in firsts), 'C07.S1', 'flattenModel|removeAllIssues-first', fm.where(), 'flattenModel does not start from an empty issue list', 'removeAllIssues first')
    # clearImports really removes the model of every import source it visits
    ci = F.fn1('libcellml::Importer::clearImports')
    cci = F.fn1('libcellml::clearComponentImports')
    for g in (ci, cci):
        rm = [c for c in g.walk() if c.get('k') == 'Call' and c.get('fn') == 'removeModel']
        rep.check(bool(rm), 'C07.S1', '%s|removeModel' % g.short, g.where(), '%s no longer removes the models of import sources' % g.short, 'removeModel on import sources')
    rec = [c for c in cci.walk() if c.get('k') == 'Call' and cci.key in F.callee_keys(c)]
    loops = [a for c in rec for a in cci.ancestors(c) if a.get('k') == 'For']
    rep.check(bool(rec) and bool(loops) and 'componentCount()' in render(role(loops[0], 'cond')), 'C07.S1', 'clearComponentImports|whole-tree', cci.where(), 'child components are not all visited', 'recursion over all child components')

    # ------------------------------------------------------------------ K
    rep.rule('C07.K1', 'only Importer/ImporterImpl methods touch mLibrary, and every key used to look up, insert or replace is the result of normaliseDirectorySeparator (possibly through resolvePath)')
    n_k = 0
    for f in F.funcs.values():
        for m in f.walk():
            if m.get('k') == 'Member' and m.get('n') == 'mLibrary' and m.get('field'):
                p = f.parent(m)
                rep.check((f.cls or '').startswith('libcellml::Importer'), 'C07.K1', '%s|owner' % f.short, f.where(m), '%s touches the importer library' % f.short, 'importer method')
                if p is not None and p.get('k') == 'Call' and p.get('c') and p['c'][0] is m and (p.get('fn') in ('count', 'find', 'insert', 'emplace', 'erase', 'at', 'operator[]') or p.get('opc') == '[]'):
                    karg = p['c'][1] if len(p['c']) > 1 else None
                    if karg is None:
                        continue
                    n_k += 1
                    ok = slice_has(f, karg, lambda x: x.get('k') == 'Call' and x.get('fn') in ('normaliseDirectorySeparator', 'resolvePath', 'normalisePath'))
                    # every definition of a key variable must be normalised, not just one
                    if ok and karg.get('k') == 'Ref' and karg.get('dk') == 'local':
                        defs = []
                        for v in f.walk():
                            c = v.get('c', [])
                            if v.get('k') == 'Var' and v.get('d') == karg['d'] and c:
                                defs.append(c[0])
                            elif v.get('k') == 'Call' and v.get('opc') == '=' and c and c[0].get('k') == 'Ref' and c[0].get('d') == karg['d']:
                                defs.append(c[1])
                        ok = all(slice_has(f, d, lambda x: x.get('k') == 'Call' and x.get('fn') in ('normaliseDirectorySeparator', 'resolvePath', 'normalisePath')) for d in defs)
                    if not ok and karg.get('k') == 'Ref' and karg.get('dk') == 'parm' and f.enclosing_lambda(karg) is None:
                        # a helper that takes the key: every caller hands it a normalised key
                        _norm = lambda x: x.get('k') == 'Call' and x.get('fn') in ('normaliseDirectorySeparator', 'resolvePath', 'normalisePath')
                        pi_ = next((i_ for i_, p_ in enumerate(f.params) if p_.get('d') == karg.get('d')), None)
                        sites = [(g_, c_) for gk in sorted(F.callers.get(f.key, ())) for g_ in [F.funcs[gk]] for c_ in g_.walk() if c_.get('k') == 'Call' and f.key in F.callee_keys(c_)]
                        def _site_ok(g_, c_):
                            a_ = nth_arg(c_, pi_)
                            if a_ is None or not slice_has(g_, a_, _norm):
                                return False
                            a0 = a_
                            while a0.get('k') in ('Cast', 'Temp', 'Bind', 'Paren', 'Construct') and len(a0.get('c', [])) == 1:
                                a0 = a0['c'][0]
                            if a0.get('k') == 'Ref' and a0.get('dk') == 'local':
                                ds_ = [v_['c'][0] for v_ in g_.walk() if v_.get('k') == 'Var' and v_.get('d') == a0['d'] and v_.get('c')]
                                ds_ += [v_['c'][1] for v_ in g_.walk() if v_.get('k') == 'Call' and v_.get('opc') == '=' and len(v_.get('c', [])) == 2 and v_['c'][0].get('k') == 'Ref' and v_['c'][0].get('d') == a0['d']]
                                return all(slice_has(g_, d_, _norm) for d_ in ds_)
                            return True
                        ok = pi_ is not None and bool(sites) and all(_site_ok(g_, c_) for g_, c_ in sites)
                    rep.check(ok, 'C07.K1', '%s|mLibrary.%s(%s)' % (f.short, p.get('fn') or '[]', render(karg)[:30]), f.where(p),
                              'library key `%s` is not normalised: the same file can be stored under two keys (back/forward slashes) and a repaired file is looked up under the other one' % render(karg)[:40], 'normalised key')
    if n_k < 4:
        raise AnalysisBroken('keyed library accesses: %d found, 9 confirmed (an access through an iterator obtained from find(key) counts once)' % n_k)
    rp = F.fn1('libcellml::resolvePath')
    rep.check(any(c.get('k') == 'Call' and c.get('fn') == 'pathFromUrl' for c in rp.walk()), 'C07.K1', 'resolvePath|pathFromUrl', rp.where(), 'resolvePath no longer normalises through pathFromUrl', 'base goes through pathFromUrl')
    pf = F.fn1('libcellml::pathFromUrl')
    rep.check(any(c.get('k') == 'Call' and c.get('fn') == 'normaliseDirectorySeparator' for c in pf.walk()), 'C07.K1', 'pathFromUrl|normalised', pf.where(), 'pathFromUrl no longer normalises separators', 'normalises separators')

    # ------------------------------------------------------------------ L
    rep.rule('C07.L1', 'fetchModel puts a model into the library only on paths that go on to report success: no library insertion can be followed by `return false`')
    fmod = F.fn1('Importer::ImporterImpl::fetchModel')
    ins = [c for c in fmod.walk() if c.get('k') == 'Call' and c.get('fn') in ('insert', 'emplace', 'insert_or_assign', 'try_emplace') and receiver(c) is not None and receiver(c).get('n') == 'mLibrary']
    ins += [c for c in fmod.walk() if c.get('k') == 'Call' and c.get('opc') == '=' and c['c'][0].get('k') == 'Call' and c['c'][0].get('opc') == '[]' and 'mLibrary' in render(c['c'][0])]
    if not ins:
        raise AnalysisBroken('fetchModel no longer inserts into the library')
    fails = [r for r in fmod.walk() if r.get('k') == 'Return' and r.get('c') and r['c'][0].get('k') == 'Bool' and not r['c'][0].get('v')]
    for c in ins:
        bad = [r for r in fails if _can_reach(fmod.cfg(), c, r)]
        rep.check(not bad, 'C07.L1', 'fetchModel|insert-then-fail', fmod.where(c), 'the model is cached in the library and the function can still return false (line %s): a file that failed to import stays cached, so a repaired file is never re-read' % sorted({r.get('l') for r in bad}),
                  'insertion only on succeeding paths')
    # the import source receives its model only on the success path too
    sm = [c for c in fmod.walk() if c.get('k') == 'Call' and c.get('fn') == 'setModel']
    for c in sm:
        bad = [r for r in fails if _can_reach(fmod.cfg(), c, r)]
        rep.check(not bad, 'C07.L1', 'fetchModel|setModel-then-fail', fmod.where(c), 'the import source gets a model although the fetch can still fail', 'model set only on succeeding paths')

    # ------------------------------------------------------------------ B
    rep.rule('C07.B1', 'the base handed to nested fetchComponent/fetchUnits calls depends on the function\'s own baseFile parameter and on the import\'s url; resolveImports derives the initial base from basePath through normalisePath')
    for nm in ('fetchComponent', 'fetchUnits'):
        f = F.fn1('Importer::ImporterImpl::' + nm)
        bp = f.params[1]
        nested = [c for c in f.walk() if c.get('k') == 'Call' and c.get('fn') in ('fetchComponent', 'fetchUnits')]
        if not nested:
            raise AnalysisBroken('%s has no nested fetch' % nm)
        for j, c in enumerate(nested):
            a = nth_arg(c, 1)
            dep = slice_has(f, a, lambda x: x.get('k') == 'Ref' and x.get('dk') == 'parm' and x.get('d') == bp['d'])
            same = a.get('k') == 'Ref' and a.get('d') == bp['d']
            url = slice_has(f, a, lambda x: x.get('k') == 'Call' and x.get('fn') == 'url') or same
            rep.check(dep and url, 'C07.B1', '%s|nested %s#%d' % (nm, c['fn'], j + 1), f.where(c),
                      'nested %s gets the base `%s`, which does not derive from this call\'s baseFile%s: imports of an in-memory or relocated model are looked up in the wrong directory' % (c['fn'], render(a)[:40], '' if url else ' and the import url'),
                      'base derives from baseFile' + ('' if same else ' + pathFromUrl(import url)'))
        fis = [c for c in f.walk() if c.get('k') == 'Call' and c.get('fn') == 'fetchImportSource']
        for c in fis:
            a = nth_arg(c, 1)
            rep.check(a.get('k') == 'Ref' and a.get('d') == bp['d'], 'C07.B1', '%s|fetchImportSource-base' % nm, f.where(c), 'fetchImportSource gets `%s` instead of baseFile' % render(a), 'baseFile passed on')
    for c in fetches:
        a = nth_arg(c, 1)
        ok = slice_has(ri, a, lambda x: x.get('k') == 'Call' and x.get('fn') == 'normalisePath') and slice_has(ri, a, lambda x: x.get('k') == 'Ref' and x.get('dk') == 'parm' and x.get('n') == ri.params[1]['n'])
        rep.check(ok, 'C07.B1', 'resolveImports|%s-base' % c['fn'], ri.where(c), 'initial base `%s` is not normalisePath(basePath)' % render(a), 'normalisePath(basePath)')

    # ------------------------------------------------------------------ H: the visit history is a stack
    rep.rule('C07.H1', 'fetchComponent and fetchUnits treat the shared visit history alike: each pushes its epoch once and pops it on every path that reports success '
                       '(an epoch left behind makes a later sibling import from the same file look like a cycle); the two siblings perform the same operations on the history')
    from issues import must_pass
    sig = {}
    for nm in ('fetchComponent', 'fetchUnits'):
        f = F.fn1('Importer::ImporterImpl::' + nm)
        hp = [p for p in f.params if 'History' in p['t'] or 'HistoryEpoch' in p['t']]
        if len(hp) != 1:
            raise AnalysisBroken('%s: history parameter vanished' % nm)
        d = hp[0]['d']
        ops = [c for c in f.walk() if c.get('k') == 'Call' and c.get('mc') and c['c'][0].get('k') == 'Ref' and c['c'][0].get('d') == d]
        sig[nm] = sorted(c.get('fn') for c in ops)
        pushes = [c for c in ops if c.get('fn') in ('push_back', 'emplace_back')]
        pops = [c for c in ops if c.get('fn') == 'pop_back']
        fails = [r for r in f.walk() if r.get('k') == 'Return' and r.get('c') and render(r['c'][0]) == 'false']
        cfg = f.cfg()
        for c in pushes:
            rep.check(bool(pops) and must_pass(cfg, c, [x['i'] for x in pops] + [x['i'] for x in fails]), 'C07.H1', '%s|push-pop' % nm, f.where(c),
                      '%s pushes its epoch on the history but some succeeding path never pops it (%d pop_back)' % (nm, len(pops)), 'popped on every succeeding path')
        if not pushes:
            raise AnalysisBroken('%s no longer pushes on the history' % nm)
    rep.check(sig['fetchComponent'] == sig['fetchUnits'], 'C07.H1', 'siblings', None, 'fetchComponent does %s on the history, fetchUnits does %s' % (sig['fetchComponent'], sig['fetchUnits']), 'same operations: %s' % sig['fetchUnits'])

    rep.rule('C07.H2', 'every function that pushes an epoch on a shared visit history while following an import pops it again on every path that is not an error exit (the history is shared with sibling references; '
                       'a stale epoch makes a later sibling look like a cyclic import: valid models are refused by resolve/flatten/isResolved). Functions that only ever follow one linear chain are exempt by name')
    import recursion as _rec
    H2_EXEMPT = {
        'Importer::ImporterImpl::checkComponentForCycles': 'follows one linear chain of component imports (tail recursion); hasImportIssues clears the history before every top-level item',
        'Units::UnitsImpl::isBaseUnitWithHistory': 'follows one linear chain of units imports (tail recursion) on a history created by Units::isBaseUnit for this call only',
    }
    n_h2 = 0
    for g in F.funcs.values():
        if not g.file.endswith(('/importer.cpp', '/units.cpp', '/component.cpp', '/model.cpp', '/utilities.cpp')):
            continue
        for c, name, ok, detail in _rec.history_discipline(F, g):
            n_h2 += 1
            key = '%s|%s' % (g.short, render(c)[:30])
            if not ok and g.short in H2_EXEMPT:
                rep.exempt('C07.H2', key, H2_EXEMPT[g.short])
                continue
            rep.check(ok, 'C07.H2', key, g.where(c), '%s pushes on `%s` and some non-error path reaches the exit without popping it (%s)' % (g.short, name, detail), 'popped on every non-error path (%s)' % detail)
    if n_h2 < 5:
        raise AnalysisBroken('C07.H2: only %d history pushes found (7 confirmed)' % n_h2)

    # ------------------------------------------------------------------ V: every import below an import is visited
    rep.rule('C07.V1', 'the visit-everything walks over the component tree used by the importer (clearing imports, collecting imported components/units, renaming) descend into the children of every component, imported or not: '
                       'inside a loop over componentCount() the recursive call depends on nothing but the loop, and the loop itself is not inside a branch that excludes imported components')
    from engines import enclosing_conditions as _enc
    n_v = 0
    for g in F.funcs.values():
        if not g.file.endswith(('/importer.cpp', '/utilities.cpp')) or g.j.get('ret') != 'void':
            continue   # verdict functions (bool) stop at the first failure by design; this rule is about visit-everything walks
        for loop in g.walk():
            if loop.get('k') != 'For' or 'componentCount()' not in render(role(loop, 'cond')):
                continue
            rec = [c for c in walk(role(loop, 'body')) if c.get('k') == 'Call' and not c.get('opc') and any(ck == g.key or g.key in F.reach([ck]) for ck in F.callee_keys(c))]
            if not rec:
                continue
            n_v += 1
            outer = [(render(cnd), br) for cnd, br, st in _enc(g, loop) if 'isImport()' in render(cnd)]
            rep.check(not outer, 'C07.V1', '%s|loop placement' % g.short.split('::')[-1], g.where(loop),
                      '%s walks the children only when %s: imports nested under an imported component are never reached' % (g.short, ' and '.join('`%s` takes its %s branch' % o for o in outer)), 'children walked for every component')
    if n_v < 2:
        raise AnalysisBroken('C07.V1: recursive child loops of void walkers vanished (%d found)' % n_v)

    # ------------------------------------------------------------------ A: verdicts gathered over loops
    from engines import rule_accumulators
    rule_accumulators(F, rep, 'C07.A1', lambda g: g.file.endswith('/importer.cpp'), 3, 'importer.cpp', 'a failure of an earlier import (or the fact that an error is related to the requested item) is forgotten when a later one is fine')

    # ------------------------------------------------------------------ K2: which library key an import is looked up under
    rule_library_key(F, rep)

    # ------------------------------------------------------------------ W: walks over the component tree are complete
    import recursion as _recw
    _recw.rule_walkers(F, rep, 'C07.W1', ['clearComponentImports', 'getImportedComponents', 'unitsUsed'], 3, 'collecting what has to be imported')

    # ------------------------------------------------------------------ every element of a collection is handled
    from engines import rule_visit_all
    rule_visit_all(F, rep, 'C07.Y1', lambda g: g.file.endswith('/importer.cpp'), 3, 'importer.cpp')

    # ------------------------------------------------------------------ XML text is read through the XML API
    from engines import rule_markup_search
    rule_markup_search(F, rep, 'C07.X1', lambda g: '/src/' in g.file and not g.file.endswith('/printer.cpp'), 'the library (printer excepted, which writes markup)')

    # ------------------------------------------------------------------ D: the import history is handed on
    rep.rule('C07.D1', 'a function that carries the import history (a History& parameter) hands it on when it descends to another entity of its own kind: it does not call the history-less public wrappers (isResolved()/isDefined()/..., '
                       'which start from an empty history) on a component from the component walk or on units from the units walk - otherwise an import cycle that passes through such a step is never recognised and the walk does not end')

    def _hp(f_):
        return [p_ for p_ in f_.params if 'History' in p_['t'] and p_['t'].rstrip().endswith('&') and not p_['t'].startswith('const')]
    carriers = {k_ for k_, f_ in F.funcs.items() if _hp(f_)}
    wrappers = set()
    for k_, f_ in F.funcs.items():
        if k_ in carriers:
            continue
        locs = [v for v in f_.walk() if v.get('k') == 'Var' and 'History' in (v.get('t') or '') and not (v.get('t') or '').startswith('std::shared_ptr<')]
        if locs and any(c.get('k') == 'Call' and any(ck in carriers for ck in F.callee_keys(c)) for c in f_.walk()):
            wrappers.add(k_)
    # public entry points that reach a wrapper through a virtual call (ImportedEntity::isResolved -> doIsResolved)
    via = set()
    for k_, f_ in F.funcs.items():
        for c in f_.walk():
            if c.get('k') == 'Call':
                for ck in F.callee_keys(c):
                    if any(o in wrappers for o in F.overriders.get(ck, ())) and len(list(f_.walk())) < 40:
                        via.add(k_)
    if len(carriers) < 8 or len(wrappers) < 5:
        raise AnalysisBroken('C07.D1: %d history-carrying functions, %d history-less wrappers found (11 / 8 confirmed)' % (len(carriers), len(wrappers)))
    n_d = 0
    for k_ in sorted(carriers):
        f_ = F.funcs[k_]
        own = 'Component' if 'Component' in (f_.cls or '') else ('Units' if 'Units' in (f_.cls or '') else None)
        for c in f_.walk():
            if c.get('k') != 'Call' or not c.get('mc'):
                continue
            cks = set(F.callee_keys(c))
            hit = cks & (wrappers | via) or {o for ck in cks for o in F.overriders.get(ck, ()) if o in wrappers}
            if not hit:
                continue
            n_d += 1
            rt = (c['c'][0].get('t') or '') + (c['c'][0].get('rt') or '')
            same = own is not None and ('libcellml::%s>' % own in rt or 'libcellml::%s ' % own in rt or rt.endswith('libcellml::%s' % own))
            rep.check(not same, 'C07.D1', '%s|%s' % (f_.short.split('::')[-1], render(c)[:50]), f_.where(c),
                      '%s carries the import history but asks `%s`, which starts from an empty history: the imports followed so far are forgotten at this step' % (f_.short, render(c)[:60]),
                      'a different kind of entity (its own walk starts there)')
    rep.ok('C07.D1', 'scan', None, '%d history carriers, %d history-less wrappers, %d wrapper calls from carriers' % (len(carriers), len(wrappers), n_d))

    # ------------------------------------------------------------------ R: what was resolved earlier is still verified now
    rep.rule('C07.R1', 'inside fetchUnits/fetchComponent the recursive fetch of an imported child depends on the child being an import (and on earlier failures) only, never on whether its import source already holds a model: '
                       '"resolved before" is not "checked now" - the child\'s own reference may be wrong or its chain unfetched, and resolveImports would answer true while hasUnresolvedImports() is true')
    n_r = 0
    for nm in ('fetchUnits', 'fetchComponent'):
        g = F.fn1('Importer::ImporterImpl::' + nm)
        for c in g.walk():
            if c.get('k') == 'Call' and c.get('fn') in ('fetchUnits', 'fetchComponent') and g.enclosing_lambda(c) is None:
                n_r += 1
                bad = [render(cnd)[:70] for cnd, br, st in enclosing_conditions(g, c) if any(x.get('k') == 'Call' and x.get('fn') in ('hasModel', 'isResolved', 'model') and 'importSource' in render(x) for x in walk(cnd))]
                rep.check(not bad, 'C07.R1', '%s|%s' % (nm, render(c)[:50]), g.where(c), '%s fetches the imported child only when `%s`' % (g.short, '` and `'.join(bad)), 'depends on isImport() and earlier failures only')
    if n_r < 3:
        raise AnalysisBroken('C07.R1: nested fetch calls: %d found, 4 confirmed' % n_r)
    # ... and the function's own positive answer: "this import source already has a model" (left by an earlier, possibly failed, pass; clearImports
    # only forgets the top-level model's) is no reason to answer true before fetchImportSource and the walk below it ran in THIS pass
    from engines import facts_x as _fx
    n_r2 = 0
    for nm in ('fetchUnits', 'fetchComponent'):
        g = F.fn1('Importer::ImporterImpl::' + nm)
        fis = [c for c in g.walk() if c.get('k') == 'Call' and c.get('fn') == 'fetchImportSource']
        if not fis:
            raise AnalysisBroken('C07.R1: %s no longer calls fetchImportSource' % nm)
        for r in g.walk():
            if r.get('k') != 'Return' or not r.get('c') or g.enclosing_lambda(r) is not None:
                continue
            e = r['c'][0]
            if e.get('k') == 'Bool' and not e.get('v'):
                continue
            n_r2 += 1
            if any(g.cfg().node_dominates(c, r) for c in fis):
                rep.ok('C07.R1', '%s|return@%d after the fetch' % (nm, n_r2), g.where(r), 'reached after fetchImportSource')
                continue
            memo = sorted(t for t, tr in (_fx(F, g, r) or set()) if tr and ('hasModel()' in t or 'isResolved()' in t or ('->model()' in t and 'nullptr' in t and '!=' in t)))
            rep.check(not memo, 'C07.R1', '%s|return@%d before the fetch' % (nm, n_r2), g.where(r),
                      '%s answers `%s` because `%s`, without fetching anything in this pass: a model left on the import source by an earlier (failed) resolution makes resolveImports report success while the chain below is unresolved' % (g.short, render(e)[:30], '` and `'.join(memo)),
                      'does not depend on a model left by an earlier pass')
    if n_r2 < 4:
        raise AnalysisBroken('C07.R1: positive returns of fetchUnits/fetchComponent: %d found, 5 confirmed' % n_r2)
    # M1: looking a key up in the library does not create it
    rep.rule('C07.M1', 'the importer reads its library (mLibrary) with operator[] only where the key is known to be present (count/find test) or where it is the target of an assignment: operator[] on a std::map INSERTS a null model for an unknown key, '
                       'and fetchModel treats a key that is present as authoritative ("the model in the library is null") without opening the file any more - a mere query would poison the next resolution')
    n_m1 = 0
    for g in F.funcs.values():
        if not g.file.endswith('/importer.cpp'):
            continue
        for c in g.walk():
            if c.get('k') == 'Call' and c.get('opc') == '[]' and c.get('c') and c['c'][0].get('k') == 'Member' and c['c'][0].get('n') == 'mLibrary':
                n_m1 += 1
                par = g.parent(c)
                is_target = par is not None and ((par.get('k') == 'Call' and par.get('opc') == '=') or (par.get('k') == 'Bin' and par.get('op') == '=')) and par['c'][0] is c
                kt = render(c['c'][1])
                present = any((tr and (t == 'mLibrary.count(%s) != 0' % kt or t == 'pFunc()->mLibrary.count(%s) != 0' % kt or t.endswith('mLibrary.count(%s) > 0' % kt) or t.endswith('mLibrary.find(%s) != mLibrary.end()' % kt)))
                              or (not tr and (t.endswith('mLibrary.count(%s) == 0' % kt) or t.endswith('mLibrary.find(%s) == mLibrary.end()' % kt))) for t, tr in (_fx(F, g, c) or set()))
                rep.check(is_target or present, 'C07.M1', '%s|mLibrary[%s]' % (g.short.split('::')[-1], kt[:30]), g.where(c),
                          '%s reads `mLibrary[%s]` without knowing that the key exists: the subscript inserts a null entry for an unknown key' % (g.short, kt[:40]), 'assignment target' if is_target else 'key known to be present')
    n_acc = sum(1 for g in F.funcs.values() if g.file.endswith('/importer.cpp') for m_ in g.walk() if m_.get('k') == 'Member' and m_.get('n') == 'mLibrary')
    if n_acc < 6:
        raise AnalysisBroken('C07.M1: only %d accesses of mLibrary found in importer.cpp (15 confirmed, 3 of them subscripts)' % n_acc)
    rep.ok('C07.M1', 'scan', None, '%d accesses of mLibrary, %d of them subscripts' % (n_acc, n_m1))
    # the path stack of Units::isDefined()/isResolved() (what resolveImports/hasUnresolvedImports/flattenModel finally ask): shared stacks stay balanced
    import recursion as _rec7
    _rec7.rule_stack_discipline(F, rep, 'C07.P1', lambda g_: g_.file.endswith(('/units.cpp', '/importer.cpp', '/component.cpp', '/importedentity.cpp')), 1, 'units.cpp, importer.cpp and component.cpp')


