"""C19 - model repair helpers establish what they promise (structural clauses)."""
from facts import walk, render, role, is_call, AnalysisBroken
from engines import ff, nth_arg, receiver, enclosing_conditions

LEVEL = ('Rules over Model::clean/fixVariableInterfaces/linkUnits/hasUnlinkedUnits and their helpers (clang AST/CFG): (C) the emptiness predicates consult every attribute of the documented definition and every loop that removes by its own index runs downwards; '
         '(I) the interface requirement has one definition (determineInterfaceType) shared with the validator, reports failure for a parentless or unrelated equivalent variable, and fixVariableInterfaces writes only where the current interface does not suffice and visits all variables; '
         '(L) linkUnits/hasUnlinkedUnits visit the whole component tree and both exempt exactly standard units. Post-conditions against the validator are not executed.')
ASSUMPTIONS = ['the documented definition of "empty" in model.h: a component with no variables, resets, child components, math, import, name or id; units with no import, name, id or unit children']


def returns_error_pair(n):
    if n is None or n.get('k') != 'Return' or not n.get('c'):
        return False
    if render(n['c'][0]).replace(' ', '') in ('std::make_pair(false,false)', 'std::pair(false,false)', '{false,false}'):
        return True
    # the same two `false` values in whatever two-member aggregate carries them (a pair, a small struct)
    e = n['c'][0]
    while e.get('k') in ('Construct', 'Cast', 'Temp', 'Bind', 'Paren') and len(e.get('c', [])) == 1:
        e = e['c'][0]
    kids = e.get('c', [])
    return e.get('k') in ('InitList', 'Construct', 'Call') and len([x for x in kids if x.get('k') == 'Bool']) == 2 and all(not x.get('v') for x in kids if x.get('k') == 'Bool') and len(kids) <= 3


def run(F, rep):
    # ------------------------------------------------------------------ C1
    rep.rule('C19.C1', 'the emptiness predicate used by Model::clean consults every attribute of the documented definition (component: variables, resets, child components, math, import, name, id; units: import, name, id, unit count)')
    th = F.fn1('libcellml::traverseHierarchyAndRemoveIfEmpty')
    from engines import predicate_body, facts_x as _fx19
    rets = [r for r in th.walk() if r.get('k') == 'Return' and r.get('c') and th.enclosing_lambda(r) is None]
    pos = [r for r in rets if not (r['c'][0].get('k') == 'Bool' and not r['c'][0].get('v'))]
    if not pos:
        raise AnalysisBroken('traverseHierarchyAndRemoveIfEmpty has no return that can be true')
    for k_, r in enumerate(pos, 1):
        from engines import walk_x as _wx19
        called = {c.get('fn') for c in _wx19(th, r) if c.get('k') == 'Call'}
        for c_ in list(_wx19(th, r)):
            if c_.get('k') == 'Call' and not c_.get('opc'):
                pb_ = predicate_body(F, c_)
                if pb_ is not None:
                    called |= {x.get('fn') for x in walk(pb_[1]) if x.get('k') == 'Call'}
        # what the path to this return has already established (guards written as early returns, named locals)
        ftxt = ' '.join(t for t, tr in (_fx19(F, th, r) or set()))
        for g in ('variableCount', 'resetCount', 'componentCount', 'math', 'isImport', 'name', 'id'):
            rep.check(g in called or ('%s()' % g) in ftxt, 'C19.C1', 'component|%s%s' % (g, '' if len(pos) == 1 else '|return#%d' % k_), th.where(r), 'a component is declared empty without looking at %s(): clean() would remove a component that still has it' % g, 'consulted')
    # the walk reaches every component: the descent into the children comes before any verdict (an early `return false` for, say, an imported
    # component leaves everything encapsulated under it uncleaned)
    desc = [c for c in th.walk() if c.get('k') == 'Call' and not c.get('opc') and th.key in F.callee_keys(c)]
    if not desc:
        raise AnalysisBroken('traverseHierarchyAndRemoveIfEmpty no longer recurses into the child components')
    dloops = [a for a in th.ancestors(desc[0]) if a.get('k') in ('For', 'While', 'RangeFor', 'Do')]
    head = role(dloops[-1], 'cond') if dloops and role(dloops[-1], 'cond') is not None else desc[0]
    early = [r for r in rets if not th.cfg().node_dominates(head, r)]
    rep.check(not early, 'C19.C1', 'component|children cleaned before the verdict', th.where(early[0] if early else desc[0]),
              'traverseHierarchyAndRemoveIfEmpty can return at line %s before it has descended into the child components: empty components below such a component are never removed' % (early[0].get('l') if early else '?'),
              'the loop over the children dominates every return')
    cl = F.fn1('libcellml::Model::clean')
    ru = [c for c in cl.walk() if c.get('k') == 'Call' and c.get('fn') == 'removeUnits']
    if len(ru) != 1:
        raise AnalysisBroken('Model::clean: removeUnits call not found')
    from engines import facts_x
    rc = facts_x(F, cl, ru[0])
    txt = ' '.join(c for c, t in rc)
    for g, want in (('isImport()', False), ('name().empty()', True), ('id().empty()', True), ('unitCount() == 0', True)):
        okc = any(g in c and t == want for c, t in rc)
        rep.check(okc, 'C19.C1', 'units|' + g, cl.where(ru[0]), 'units are removed without `%s` being %s' % (g, want), 'consulted')
    # ------------------------------------------------------------------ C2
    rep.rule('C19.C2', 'a loop that removes/takes elements at its own index from the collection it iterates runs from count-1 downwards (a forward loop skips the element after each removal)')
    n_l = 0
    for f in F.funcs.values():
        for L in f.walk():
            if L.get('k') != 'For':
                continue
            init, inc, body = role(L, 'init'), role(L, 'inc'), role(L, 'body')
            iv = None
            if init is not None:
                for x in walk(init):
                    if x.get('k') == 'Var':
                        iv = x
            if iv is None or body is None:
                continue
            rem = [c for c in walk(body) if c.get('k') == 'Call' and c.get('mc') and (c.get('fn', '').startswith('remove') or c.get('fn', '').startswith('take') or c.get('fn') == 'erase')
                   and any(x.get('k') == 'Ref' and x.get('d') == iv['d'] for a in c['c'][1:] for x in walk(a)) and f.enclosing_lambda(c) is None
                   and next((a for a in f.ancestors(c) if a.get('k') in ('For', 'While', 'Do', 'RangeFor')), None) is L]
            if not rem:
                continue
            # removing an element and leaving the loop at once is fine in any direction
            rem = [c for c in rem if not _exits_after(f, L, c)]
            if not rem:
                continue
            n_l += 1
            desc = inc is not None and ((inc.get('k') == 'Un' and inc.get('op') == '--') or (inc.get('k') == 'CAssign' and inc.get('op') == '-='))
            start = render(iv['c'][0]) if iv.get('c') else ''
            rep.check(bool(desc), 'C19.C2', '%s|%s' % (f.short, render(rem[0])[:40]), f.where(L),
                      'the loop `for (%s; ...; %s)` removes at its own index while counting %s: after each removal the next element is skipped' % (render(iv)[:10] + ' = ' + start, render(inc), 'upwards' if not desc else 'from the wrong start'),
                      'descending from count-1')
    if n_l < 3:
        raise AnalysisBroken('index-removing loops: %d found, 3 confirmed' % n_l)

    # ------------------------------------------------------------------ I
    rep.rule('C19.I1', 'publicAndOrPrivateInterfaceTypeRequired reports failure (false,false) for an equivalent variable without a parent and for components that are neither siblings nor parent/child')
    pp = F.fn1('libcellml::publicAndOrPrivateInterfaceTypeRequired')
    loop = [l for l in pp.walk() if l.get('k') == 'For']
    if not loop:
        raise AnalysisBroken('publicAndOrPrivateInterfaceTypeRequired: loop vanished')
    # null parent of the equivalent variable
    nullifs = [i for i in pp.walk() if i.get('k') == 'If' and 'componentOfEquivalentVariable == nullptr' in render(role(i, 'cond')).replace('nullptr == componentOfEquivalentVariable', 'componentOfEquivalentVariable == nullptr')]
    okn = bool(nullifs) and any(returns_error_pair(x) for x in walk(role(nullifs[0], 'then')))
    rep.check(okn, 'C19.I1', 'parentless-equivalent-variable', pp.where(nullifs[0]) if nullifs else pp.where(),
              'an equivalence to a variable that has no parent component no longer yields the failure pair: fixVariableInterfaces() returns true although one equivalence dangles', 'returns (false,false)')
    # and its parent is obtained from the equivalent variable
    var = [v for v in pp.walk() if v.get('k') == 'Var' and v.get('n') == 'componentOfEquivalentVariable']
    rep.check(bool(var) and 'equivalentVariable->parent()' in render(var[0]['c'][0]), 'C19.I1', 'parent-of-equivalent', pp.where(), 'the tested component is not the parent of the equivalent variable', 'parent of the equivalent variable')
    # unrelated components: the final else of the relation chain returns the failure pair
    rel = [i for i in pp.walk() if i.get('k') == 'If' and 'areEntitiesSiblings' in render(role(i, 'cond'))]
    okr = False
    if rel:
        e = role(rel[0], 'else')
        while e is not None and e.get('k') == 'If':
            e2 = role(e, 'else')
            if e2 is None:
                break
            e = e2
        okr = e is not None and any(returns_error_pair(x) for x in walk(e))
    rep.check(okr, 'C19.I1', 'unrelated-components', pp.where(rel[0]) if rel else pp.where(), 'components that are neither siblings nor parent/child no longer yield the failure pair', 'returns (false,false)')
    # relations -> flags
    def _member_pos(m_):
        """position of the member in its two-member aggregate: first/second of a pair, or the declaration order of a struct"""
        if m_.get('n') in ('first', 'second'):
            return ('first', 'second').index(m_['n'])
        q_ = (m_.get('q') or '').rsplit('::', 1)[0]
        rec_ = F.records.get(q_)
        names_ = [x['n'] for x in rec_['fields']] if rec_ else []
        return names_.index(m_['n']) if m_.get('n') in names_ else None
    flag_asg = [b for b in pp.walk() if b.get('k') == 'Bin' and b.get('op') == '=' and b['c'][0].get('k') == 'Member' and b['c'][0].get('c') and b['c'][0]['c'][0].get('k') == 'Ref' and b['c'][0]['c'][0].get('dk') == 'local'
                and render(b['c'][1]) == 'true']
    rc_first = [b for b in flag_asg if _member_pos(b['c'][0]) == 0]
    rc_second = [b for b in flag_asg if _member_pos(b['c'][0]) == 1]
    f1 = rc_first and any(('areEntitiesSiblings' in c or 'isEntityChildOf(componentOfVariable, componentOfEquivalentVariable)' in c) and t for c, t in (ff(pp).rendered_conds_at(rc_first[0]) or set()))
    f2 = rc_second and any('isEntityChildOf(componentOfEquivalentVariable, componentOfVariable)' in c and t for c, t in (ff(pp).rendered_conds_at(rc_second[0]) or set()))
    rep.check(bool(f1) and bool(f2), 'C19.I1', 'relation-to-flag', pp.where(), 'public is not tied to sibling/child-of-other and private to parent-of-other any more', 'public: sibling or child; private: parent')

    rep.rule('C19.I2', 'fixVariableInterfaces uses determineInterfaceType, marks failure for NONE, writes an interface only where the current one does not permit the required one, visits every variable and returns the accumulated verdict')
    fx = F.fn1('libcellml::Model::fixVariableInterfaces')
    det = [c for c in fx.walk() if c.get('k') == 'Call' and c.get('fn') == 'determineInterfaceType']
    sets = [c for c in fx.walk() if c.get('k') == 'Call' and c.get('fn') == 'setInterfaceType']
    rep.check(len(det) == 1, 'C19.I2', 'single-definition', fx.where(), 'fixVariableInterfaces no longer derives the requirement from determineInterfaceType', 'determineInterfaceType')
    for c in sets:
        rc = ff(fx).rendered_conds_at(c) or set()
        ok = ('variable->permitsInterfaceType(interfaceType)', False) in rc and ('interfaceType == libcellml::Variable::InterfaceType::NONE', False) in rc
        rep.check(ok, 'C19.I2', 'write-only-when-needed', fx.where(c), 'setInterfaceType is reached under %s: variables whose interface already suffices are rewritten (or NONE is written)' % sorted(rc), 'only under !permitsInterfaceType and a determined type')
    if not sets:
        rep.fail('C19.I2', 'write-only-when-needed', fx.where(), 'fixVariableInterfaces never sets an interface')
    fl = [b for b in fx.walk() if b.get('k') == 'Bin' and b.get('op') == '=' and b['c'][0].get('k') == 'Ref' and render(b['c'][1]) == 'false']
    okf = bool(fl) and all(('interfaceType == libcellml::Variable::InterfaceType::NONE', True) in (ff(fx).rendered_conds_at(b) or set()) for b in fl)
    rep.check(okf, 'C19.I2', 'failure-exactly-for-NONE', fx.where(), 'the verdict is not set to false exactly where no interface type could be determined', 'false only for NONE')
    loops = [l for l in fx.walk() if l.get('k') == 'RangeFor']
    early = [x for l in loops for x in walk(role(l, 'body')) if x.get('k') in ('Break', 'Return')]
    rr = [render(r['c'][0]) for r in fx.walk() if r.get('k') == 'Return' and r.get('c')]
    rep.check(bool(loops) and not early and len(rr) == 1 and fl and rr[0] == fl[0]['c'][0]['n'], 'C19.I2', 'visits-all-and-accumulates', fx.where(), 'the variable loop exits early or the accumulated verdict is not what is returned', 'all variables visited; accumulated verdict returned')
    fav = F.fn1('libcellml::findAllVariablesWithEquivalences')
    lp = [l for l in fav.walk() if l.get('k') == 'For']
    rec = [c for c in fav.walk() if c.get('k') == 'Call' and fav.key in F.callee_keys(c)]
    rep.check(len(lp) == 2 and bool(rec) and not [x for x in fav.walk() if x.get('k') in ('Break', 'Return') and x.get('c')], 'C19.I2', 'collects-whole-tree', fav.where(), 'findAllVariablesWithEquivalences no longer walks all variables and child components', 'walks all variables and children')
    rep.rule('C19.I3', 'the validator derives the required interface from the same determineInterfaceType')
    vv = F.fn1('Validator::ValidatorImpl::validateVariableInterface')
    rep.check(any(c.get('k') == 'Call' and c.get('fn') == 'determineInterfaceType' for c in vv.walk()), 'C19.I3', 'validateVariableInterface', vv.where(), 'the validator computes the required interface differently from fixVariableInterfaces', 'determineInterfaceType')
    pm = [c for c in vv.walk() if c.get('k') == 'Call' and c.get('fn') in ('permitsInterfaceType', 'interfaceTypeIsCompatible')]
    okp = bool(pm) and all(render(nth_arg(c, 0)) == 'interfaceType' for c in pm)
    rep.check(okp, 'C19.I3', 'validateVariableInterface|sufficiency-test', vv.where(), 'the validator no longer tests whether the variable\'s interface suffices for the required type', 'sufficiency of the current interface tested against the required type')
    ic = F.fn('libcellml::interfaceTypeIsCompatible', required=False)
    if ic:
        rr = [render(r['c'][0]) for r in ic[0].walk() if r.get('k') == 'Return' and r.get('c')]
        rep.check(len(rr) == 1 and '.find(interfaceTypeToString.at(' in rr[0] and 'npos' in rr[0], 'C19.I3', 'interfaceTypeIsCompatible|superset-semantics', ic[0].where(),
                  'the validator\'s sufficiency test is `%s`' % rr, 'required type contained in the current one (public_and_private suffices for public and private)')

    # ------------------------------------------------------------------ L
    rep.rule('C19.L1', 'linkUnits and hasUnlinkedUnits visit the whole component tree: full child loops, the recursive call is evaluated for every child (never short-circuited away by an earlier failure in linkUnits)')
    tl = [f for f in F.fn('libcellml::traverseComponentEntityTreeLinkingUnits') if len(f.params) == 2]
    if len(tl) != 1:
        raise AnalysisBroken('traverseComponentEntityTreeLinkingUnits/2 vanished')
    tl = tl[0]
    rec = [c for c in tl.walk() if c.get('k') == 'Call' and tl.key in F.callee_keys(c)]
    oks = bool(rec)
    for c in rec:
        p = tl.parent(c)
        # `status = rec(...) && status` is fine; `status = status && rec(...)` or `if (status) rec(...)` skips subtrees
        if p is not None and p.get('k') == 'Bin' and p.get('op') == '&&' and p['c'][1] is c:
            oks = False
        if any(t is not None for cnd, t in [(x, y) for x, y in (ff(tl).conds_at(c) or []) if x.get('k') == 'Ref' and x.get('dk') == 'local']):
            oks = False
    lp = [l for l in tl.walk() if l.get('k') == 'For']
    full = bool(lp) and render(role(lp[0], 'cond')).endswith('componentCount()') and '&&' not in render(role(lp[0], 'cond'))
    rep.check(oks and full, 'C19.L1', 'linkUnits|whole-tree', tl.where(), 'a failure in one component stops the linking of the remaining components', 'every child linked regardless of earlier failures')
    lc = F.fn1('libcellml::linkComponentVariableUnits')
    lp2 = [l for l in lc.walk() if l.get('k') == 'For']
    early = [x for l in lp2 for x in walk(role(l, 'body')) if x.get('k') in ('Break', 'Return')]
    rep.check(bool(lp2) and not early and render(role(lp2[0], 'cond')).endswith('variableCount()'), 'C19.L1', 'linkUnits|all-variables', lc.where(), 'not every variable of a component is linked', 'all variables visited')
    rep.rule('C19.L2', 'linkUnits links, and hasUnlinkedUnits reports, exactly the units that are not standard units and not owned by the variable\'s model')
    au = F.fn1('libcellml::areComponentVariableUnitsUnlinked')
    asg = [b for b in au.walk() if b.get('k') == 'Bin' and b.get('op') == '=' and render(b['c'][0]) == 'unlinked']
    ok2 = bool(asg) and ('isStandardUnit(u)', False) in (ff(au).rendered_conds_at(asg[0]) or set())
    rep.check(ok2, 'C19.L2', 'hasUnlinkedUnits|standard-units-exempt', au.where(), 'standard units are not exempt (or more is exempt) in the unlinked test', 'exactly standard units exempt')
    st = [c for c in lc.walk() if c.get('k') == 'Call' and c.get('fn') == 'setUnits']
    ok3 = bool(st) and all(('isStandardUnit(u)', False) in (ff(lc).rendered_conds_at(c) or set()) and any('hasUnits(u->name())' in cnd and t for cnd, t in (ff(lc).rendered_conds_at(c) or set())) for c in st)
    rep.check(ok3, 'C19.L2', 'linkUnits|links-model-units-by-name', lc.where(), 'setUnits is not restricted to non-standard units that the model defines by that name', 'links the model\'s own units of that name')
    if st:
        rep.check('model->units(u->name())' in render(st[0]), 'C19.L2', 'linkUnits|same-name', lc.where(st[0]), 'the variable is linked to `%s`' % render(st[0]), 'linked to model->units(u->name())')
    hu = F.fn1('libcellml::Model::hasUnlinkedUnits')
    tr = F.fn1('libcellml::traverseComponentTreeForUnlinkedUnits')
    for g in (hu, tr):
        lpp = [l for l in g.walk() if l.get('k') == 'For']
        rep.check(bool(lpp) and 'componentCount()' in render(role(lpp[0], 'cond')), 'C19.L1', '%s|tree' % g.short, g.where(), 'children are not traversed', 'children traversed (stops only once an unlinked unit is found)')

    rep.rule('C19.I5', 'in fixVariableInterfaces the required interface is worked out for EVERY variable with equivalences: inside the loop the call of determineInterfaceType depends on nothing but the loop '
                       '(a shortcut for variables that already permit everything also skips the report of unreachable equivalences)')
    for c in det:
        lp_ = [a for a in fx.ancestors(c) if a.get('k') in ('RangeFor', 'For', 'While')]
        if not lp_:
            rep.fail('C19.I5', 'determineInterfaceType|not in a loop', fx.where(c), 'determineInterfaceType is no longer called inside the loop over the variables')
            continue
        base = set(ff(fx).rendered_conds_at(lp_[0]['c'][1] if lp_[0].get('k') == 'RangeFor' else role(lp_[0], 'cond')) or set())
        extra = sorted((t, tr) for t, tr in (set(ff(fx).rendered_conds_at(c) or set()) - base) if 'nullptr' not in t and not (lp_[0].get('k') != 'RangeFor' and t == render(role(lp_[0], 'cond'))))
        rep.check(not extra, 'C19.I5', 'determineInterfaceType|unconditional', fx.where(c), 'the required interface is only worked out when %s' % ' and '.join('`%s` is %s' % e for e in extra)[:160], 'for every variable')

    rep.rule('C19.L3', 'a verdict that accumulates over the component tree (`status = f(child) && status`) is never overwritten afterwards by a plain assignment: '
                       'a failure found in an encapsulated child must survive until linkUnits/fixVariableInterfaces return')
    n_l3 = 0
    for g in F.funcs.values():
        if not g.file.endswith(('/utilities.cpp', '/model.cpp')):
            continue
        for v in g.walk():
            if v.get('k') != 'Var' or v.get('t') != 'bool':
                continue
            asg = [x for x in g.walk() if ((x.get('k') == 'Bin' and x.get('op') == '=') or x.get('k') == 'CAssign') and x['c'][0].get('k') == 'Ref' and x['c'][0].get('d') == v['d']]
            selfref = [x for x in asg if x.get('k') == 'CAssign' or any(r.get('k') == 'Ref' and r.get('d') == v['d'] for r in walk(x['c'][1]))]
            if not selfref:
                continue
            n_l3 += 1
            first = min(x.get('l', 0) for x in selfref)
            later = [x for x in asg if x not in selfref and x.get('l', 0) > first and x['c'][1].get('k') != 'Bool']
            rep.check(not later, 'C19.L3', '%s|%s' % (g.short, v['n']), g.where(later[0]) if later else g.where(v), '%s: `%s` overwrites the verdict accumulated in %s' % (g.short, render(later[0])[:60] if later else '', v['n']), 'only accumulated')
    if n_l3 < 1:
        raise AnalysisBroken('C19.L3: accumulating verdicts vanished (%d found)' % n_l3)

    # ------------------------------------------------------------------ I4: what "permits" means
    rep.rule('C19.I4', 'Variable::permitsInterfaceType decides by comparing whole strings (the stored value equals the required one or is public_and_private): no substring search, '
                       'which would let an invalid stored value such as "public,private" permit everything and make fixVariableInterfaces leave it in place')
    for g in F.funcs.values():
        if g.qname == 'libcellml::Variable::permitsInterfaceType':
            sub = [c for c in g.walk() if c.get('k') == 'Call' and c.get('mc') and (c.get('cls') or '').startswith('std::basic_string') and c.get('fn') in ('find', 'rfind', 'find_first_of', 'substr', 'compare', 'starts_with', 'ends_with')]
            eqs = [c for c in g.walk() if (c.get('k') == 'Call' and c.get('opc') == '==') or (c.get('k') == 'Bin' and c.get('op') == '==')]
            rep.check(not sub and bool(eqs), 'C19.I4', '%s/%d' % (g.short, len(g.params)), g.where(), '%s decides with %s' % (g.short, sorted({c['fn'] for c in sub}) or 'no equality comparison'), 'whole-string comparisons only')

    # ------------------------------------------------------------------ A: verdicts gathered over loops
    from engines import rule_accumulators
    rule_accumulators(F, rep, 'C19.A1', lambda g: g.file.endswith('/model.cpp') or (g.file.endswith('/utilities.cpp') and 'ink' in g.name), 3, 'model.cpp and the linking helpers of utilities.cpp', 'the verdict of linkUnits/fixVariableInterfaces must not be that of the last component or variable visited')

    # ------------------------------------------------------------------ clauses shared with C09: hasUnlinkedUnits/linkUnits decide "linked" by the owning model of the units object
    import core
    import c09
    if not getattr(rep, 'nested', False):
        core.borrow(F, rep, c09, only={'C09.P3', 'C09.P4', 'C09.Q1'})

    # ------------------------------------------------------------------ W: walks over the component tree are complete
    import recursion as _recw
    _recw.rule_walkers(F, rep, 'C19.W1', ['findAllVariablesWithEquivalences'], 1, 'collecting the variables whose interfaces are fixed')

    # ------------------------------------------------------------------ every element of a collection is handled
    from engines import rule_visit_all
    rule_visit_all(F, rep, 'C19.Y1', lambda g: g.file.endswith(('/utilities.cpp', '/model.cpp')), 10, 'utilities.cpp and model.cpp')

    # ------------------------------------------------------------------ I6: every equivalence is looked at unless both flags are already known
    rep.rule('C19.I6', 'publicAndOrPrivateInterfaceTypeRequired looks at EVERY equivalence of the variable: the only reason to stop early is that both flags are already set (or a failure is returned) - '
                       'an equivalence that is not reachable at all must make the function fail wherever it stands in the list, so "nothing more to learn" shortcuts that depend on anything else skip the error')
    from engines import value_of as _vo19, _decompose as _dc19
    lp19 = [l for l in pp.walk() if l.get('k') == 'For' and 'equivalentVariableCount' in render(role(l, 'cond'))]
    if len(lp19) != 1:
        raise AnalysisBroken('publicAndOrPrivateInterfaceTypeRequired: loop over the equivalences not found (%d)' % len(lp19))
    tmp19 = []
    _dc19(role(lp19[0], 'cond'), True, tmp19)
    extra19 = []
    for c_, t_ in tmp19:
        if c_.get('k') == 'Bin' and c_.get('op') in ('&&',) and t_:
            continue      # a true conjunction has been split into its conjuncts
        txt = render(c_)
        if 'equivalentVariableCount' in txt:
            continue
        # the admissible stop: both members of the result are set
        mems = {m_.get('n') for m_ in walk(c_) if m_.get('k') == 'Member'}
        others = [x for x in walk(c_) if x.get('k') == 'Ref' and x.get('dk') in ('local', 'parm') and not (x.get('t') or '').startswith(('std::pair', 'libcellml::', 'const std::pair')) ]
        inner = c_
        whole_and = inner.get('k') == 'Bin' and inner.get('op') == '&&' and all(x.get('k') in ('Member', 'Paren') or True for x in inner.get('c', []))
        ok_ = (not t_) and len(mems) == 2 and not any(x.get('k') == 'Call' and not x.get('opc') for x in walk(c_)) and not any(x.get('k') == 'Bin' and x.get('op') == '||' for x in walk(c_)) and not others
        if not ok_:
            extra19.append(('' if t_ else '!') + '(' + txt[:60] + ')')
    early19 = [x for x in walk(role(lp19[0], 'body')) if x.get('k') in ('Break', 'Continue')]
    rep.check(not extra19 and not early19, 'C19.I6', 'loop over the equivalences', pp.where(lp19[0]), 'the loop over the equivalences of the variable also stops (or skips) on %s: an unreachable equivalence further down the list is never examined' % (extra19 or [x['k'].lower() for x in early19]),
              'stops early only when both flags are set')
    # hasUnlinkedUnits() answers what linkUnits() would change: its verdict comes from the walk over the variables' units alone
    rep.rule('C19.U1', 'Model::hasUnlinkedUnits() is the question linkUnits() answers: it is true only because traverseComponentTreeForUnlinkedUnits found a variable whose units are not the model\'s; '
                       'any other source of `true` (say, a units definition that references a missing units) leaves the model "unlinked" although linkUnits() succeeded and every variable holds the model\'s own units')
    hu = F.fn1('libcellml::Model::hasUnlinkedUnits')
    srcs19 = []
    rl19 = set()
    for r_ in hu.walk():
        if r_.get('k') == 'Return' and r_.get('c'):
            e_ = r_['c'][0]
            if e_.get('k') == 'Ref' and e_.get('dk') == 'local':
                rl19.add(e_['d'])
            elif not (e_.get('k') == 'Bool' and not e_.get('v')):
                srcs19.append(e_)
    for a_ in hu.walk():
        c_ = a_.get('c', [])
        if a_.get('k') == 'Var' and a_.get('d') in rl19 and c_:
            srcs19.append(c_[0])
        elif a_.get('k') == 'Bin' and a_.get('op') == '=' and c_ and c_[0].get('k') == 'Ref' and c_[0].get('d') in rl19:
            srcs19.append(c_[1])
    bad19 = []
    for e_ in srcs19:
        e2 = e_
        while e2.get('k') in ('Paren', 'Cast') and len(e2.get('c', [])) == 1:
            e2 = e2['c'][0]
        if e2.get('k') == 'Bool':
            if e2.get('v'):
                # a bare `true` takes its meaning from the tests that hold where it is given (`if (traverse...(c)) return true;`)
                site_ = next((x for x in hu.walk() if any(y is e_ for y in walk(x)) and x.get('k') in ('Return', 'Bin', 'Var')), None)
                held_ = {x.get('fn') for c3, t3 in (ff(hu).conds_at(site_) or []) if t3 for x in walk(c3) if x.get('k') == 'Call' and not x.get('opc')} if site_ is not None else set()
                if 'traverseComponentTreeForUnlinkedUnits' not in held_:
                    bad19.append('true')
            continue
        calls = {x.get('fn') for x in walk(e2) if x.get('k') == 'Call' and not x.get('opc')}
        if not calls or not calls <= {'traverseComponentTreeForUnlinkedUnits'}:
            bad19.append(render(e2)[:60])
    rep.check(bool(srcs19) and not bad19, 'C19.U1', 'hasUnlinkedUnits|verdict', hu.where(), 'hasUnlinkedUnits can answer `%s`, which is not the verdict of the walk over the variables (what linkUnits() acts on)' % (bad19[:2]), 'verdict of traverseComponentTreeForUnlinkedUnits only')

    # ------------------------------------------------------------------ B1: who is whose parent is decided by identity
    rep.rule('C19.B1', 'the hierarchy predicates from which interface types are derived (isEntityChildOf, areEntitiesSiblings) decide by the identity of parents: nothing they call reaches a structural comparison (equals/doEquals). '
                       'The containment lookups of ComponentEntity fall back to equals() when the object itself is not a child, so "is a child of" asked through them is also true for a component that merely has a look-alike child, '
                       'and fixVariableInterfaces() then "fixes" an equivalence that is not reachable at all')
    eqs = {k for k, g_ in F.funcs.items() if g_.name in ('equals', 'doEquals')}
    ctrl = [g_ for g_ in F.funcs.values() if g_.name == 'containsComponent' and any(p_['t'].startswith('const std::shared_ptr<libcellml::Component>') for p_ in g_.params)]
    if not ctrl or not (F.reach([ctrl[0].key]) & eqs):
        raise AnalysisBroken('C19.B1: the control case vanished (ComponentEntity::containsComponent(ptr) no longer reaches equals()): the reachability test cannot be trusted')
    for nm in ('isEntityChildOf', 'areEntitiesSiblings'):
        g_ = F.fn1('libcellml::' + nm)
        hit = sorted(F.funcs[k].short for k in (F.reach([g_.key]) & eqs))
        rep.check(not hit, 'C19.B1', nm, g_.where(), '%s reaches %s: the answer depends on what entities look like, not on where they are' % (nm, hit[:3]), 'identity of parent() only')


def _exits_after(f, loop, call):
    """Is the removal followed by leaving the loop (break/return) on every path?"""
    p = f.parent(call)
    while p is not None and p.get('k') not in ('Compound',):
        p = f.parent(p)
    if p is None:
        return False
    sibs = p.get('c', [])
    for i, s in enumerate(sibs):
        if any(x is call for x in walk(s)):
            rest = sibs[i + 1:]
            return any(x.get('k') in ('Break', 'Return') for r in rest for x in [r])
    return False
