"""C10 - equals() is an equivalence relation that sees every attribute (structural clauses)."""
from facts import walk, render, role, is_call, AnalysisBroken
from engines import is_this_like, ff, nth_arg, receiver, unwrap_defarg, nonnull_facts, single_def, _decompose
import fields

LEVEL = ('Field-coverage and symmetry rules over the doEquals chain (clang AST/CFG): on every path to a result that can be true, every attribute the property lists '
         'has been read on this side (dominance), the other side is read through getters covering the same fields, every child collection has its size compared '
         'for equality, child matching looks at direct children only, and unit exponent/multiplier go through areNearlyEqual. Reflexivity/transitivity on concrete values are not executed.')
ASSUMPTIONS = ['a getter "covers" a field when its body (transitively through calls on this) reads that field']

CLASSES = ['Entity', 'NamedEntity', 'ImportedEntity', 'ComponentEntity', 'Component', 'Model', 'Units', 'Variable', 'Reset', 'ImportSource']

# Fields that equality deliberately does not cover (property text) or that are not attributes.
EXCLUDED = {
    'Variable': {'mVariable': 'back pointer to the public object', 'mEquivalentVariables': 'variable equivalences are deliberately not part of equality',
                 'mMappingIdMap': 'ids of equivalences (not part of equality)', 'mConnectionIdMap': 'ids of equivalences (not part of equality)'},
    'Component': {'mComponent': 'back pointer to the public object'},
    'Units': {'mUnits': 'back pointer to the public object'},
    'Reset': {'mOrderSet': 'C10 names the order value only; an unset order has value 0'},
    'ImportSource': {'mModel': 'weak link to the resolved library model, not an attribute'},
    'Model': {},
}
COLLECTIONS = {'ComponentEntity': ['mComponents'], 'Component': ['mVariables', 'mResets'], 'Model': ['mUnits'], 'Units': ['mUnitDefinitions']}


def do_equals(F, cls):
    fs = [f for f in F.funcs.values() if f.qname == 'libcellml::%s::doEquals' % cls]
    if len(fs) != 1:
        raise AnalysisBroken('%s::doEquals vanished or ambiguous (%d)' % (cls, len(fs)))
    return fs[0]


def true_capable_returns(f):
    out = []
    for r in f.walk():
        if r.get('k') == 'Return' and f.enclosing_lambda(r) is None and r.get('c'):
            e = r['c'][0]
            if e.get('k') == 'Bool' and not e.get('v'):
                continue
            out.append(r)
    return out


def evaluated_ids(f, r):
    """Ids of AST nodes that are evaluated on every path to return r: its own expression, the operands of the
    (decomposed) branch conditions known to hold at r, and every node whose CFG position dominates r."""
    cfg = f.cfg()
    ids = {x['i'] for x in walk(r)}

    def named(e, truth, depth=0):
        """a bool local defined once stands for its initialiser: when it is known to be true (false), the conjuncts (disjuncts) of the
        initialiser were all evaluated, although `&&` / `||` put them in blocks of their own that do not dominate the return"""
        while e is not None and e.get('k') in ('Paren', 'Cast') and len(e.get('c', [])) == 1:
            e = e['c'][0]
        if e is None or depth > 3 or not (e.get('k') == 'Ref' and e.get('dk') == 'local'):
            return
        i_ = single_def(f, e.get('d'))
        if i_ is None:
            return
        tmp = []
        _decompose(i_, truth, tmp)
        for c2, t2 in tmp:
            if c2.get('k') == 'Bin' and c2.get('op') in ('&&', '||'):
                lm = c2
                while lm.get('k') == 'Bin' and lm.get('op') in ('&&', '||'):
                    lm = lm['c'][0]
                ids.update(x['i'] for x in walk(lm))    # the leftmost operand is evaluated whatever the outcome
            else:
                ids.update(x['i'] for x in walk(c2))
                named(c2, t2, depth + 1)
    if r.get('c'):
        tmp0 = []
        _decompose(r['c'][0], True, tmp0)     # the result under consideration is `true`
        for c0, t0 in tmp0:
            named(c0, t0)
    for c, t in (ff(f).conds_at(r) or []):
        ids |= {x['i'] for x in walk(c)}
        named(c, t)
    for n in f.walk():
        if n['i'] not in ids and f.enclosing_lambda(n) is None and n['i'] in cfg.pos and cfg.node_dominates(n, r):
            ids.add(n['i'])
    return ids


def consulted(F, f, r):
    """Fields of `this` read by nodes that are evaluated on every path to return r; also the base-class doEquals
    calls among those nodes."""
    ev = evaluated_ids(f, r)
    fields_, bases = set(), set()
    for n in f.walk():
        if n['i'] not in ev:
            continue
        k = n.get('k')
        if k == 'Member' and n.get('field') and is_this_like(n['c'][0] if n.get('c') else None):
            fields_.add(n['n'])
        elif k == 'Call' and n.get('mc') and not n.get('opc') and n.get('c') and is_this_like(n['c'][0]):
            for ck in F.callee_keys(n):
                g = F.funcs.get(ck)
                if g is None:
                    continue
                if g.name == 'doEquals' and n.get('qualified'):
                    bases.add(g.cls.split('::')[-1])
                else:
                    fields_ |= fields.this_reads(F, g)
    return fields_, bases


def run(F, rep):
    rep.rule('C10.B1', 'each doEquals calls the doEquals of every direct base class that has one, on every path to a result that can be true')
    rep.rule('C10.F1', 'on every path to a result that can be true, doEquals has read every attribute field of its own Impl struct on this side (reads dominate the return or are part of its expression)')
    rep.rule('C10.F2', 'the getters doEquals (and its helpers) call on the other object cover every obligated field')
    rep.rule('C10.S1', 'for every child collection the two sizes are compared for equality (the structural reason behind symmetry and "different numbers of children are unequal")')
    rep.rule('C10.S2', 'child components are matched against the direct children of the other side only (no search of its whole encapsulation hierarchy)')
    rep.rule('C10.U1', 'every field of UnitDefinition is compared in Units::doEquals; exponent and multiplier through areNearlyEqual')
    rep.rule('C10.N1', 'Entity::doEquals returns false for a null argument before touching it; every derived doEquals tests its dynamic_pointer_cast result')
    for cls in CLASSES:
        f = do_equals(F, cls)
        rec = fields.impl_record(F, cls)
        own = [x['n'] for x in rec['fields']]
        excl = EXCLUDED.get(cls, {})
        for x, why in excl.items():
            if x in own:
                rep.exempt('C10.F1', '%s|%s' % (cls, x), why)
        oblig = [x for x in own if x not in excl]
        # direct bases with a doEquals of their own
        pub = [r for q, r in F.records.items() if q == 'libcellml::' + cls]
        if not pub:
            raise AnalysisBroken('class %s vanished' % cls)
        want_bases = [b.split('::')[-1] for b in pub[0]['bases'] if any(g.qname == b + '::doEquals' for g in F.funcs.values())]
        rets = true_capable_returns(f)
        if not rets:
            raise AnalysisBroken('%s::doEquals has no result that can be true' % cls)
        for i, r in enumerate(rets, 1):
            got, bases = consulted(F, f, r)
            tag = '%s::doEquals|return %s' % (cls, render(r['c'][0])[:40])
            for b in want_bases:
                rep.check(b in bases, 'C10.B1', '%s|base %s' % (tag, b), f.where(r),
                          '%s::doEquals can return a true result without having called %s::doEquals' % (cls, b), 'base doEquals consulted')
            for x in oblig:
                rep.check(x in got, 'C10.F1', '%s|%s' % (tag, x), f.where(r),
                          '%s::doEquals can return `%s` without having looked at %s on this side (fields consulted on every path to it: %s)' % (cls, render(r['c'][0])[:60], x, sorted(got)),
                          'consulted')
        oth = fields.other_reads(F, f)
        for x in oblig:
            rep.check(x in oth, 'C10.F2', '%s::doEquals|other.%s' % (cls, x), f.where(),
                      'no getter called on the other object covers field %s (covered: %s)' % (x, sorted(oth)), 'covered by a getter on the other object')
        for coll in COLLECTIONS.get(cls, []):
            comps = fields.size_comparisons(F, f)
            good = [c for c in comps if (coll + '.size()' in c[2] and 'ount()' in c[3]) or (coll + '.size()' in c[3] and 'ount()' in c[2])]
            # the comparison must be consulted on every true path
            okc = False
            for g, n, a, b in good:
                if g is f and all(n['i'] in evaluated_ids(f, r) for r in rets):
                    okc = True
                elif g is not f:
                    okc = True
            rep.check(okc, 'C10.S1', '%s::doEquals|%s.size' % (cls, coll), f.where(),
                      '%s::doEquals never compares %s.size() with the other side\'s count: a.equals(b) only checks that a\'s children occur in b, so equals is asymmetric when b has more children' % (cls, coll),
                      'sizes compared for equality')
    # S2 / O1: children are matched one-to-one
    ce = do_equals(F, 'ComponentEntity')
    cc = [n for n in ce.walk() if n.get('k') == 'Call' and n.get('fn') == 'containsComponent' and not is_this_like(n['c'][0])]
    for n in cc:
        a = unwrap_defarg(nth_arg(n, 1))
        rep.check(a is not None and a.get('k') == 'Bool' and a.get('v') is False, 'C10.S2', 'ComponentEntity::doEquals|containsComponent.searchEncapsulated', ce.where(n),
                  'children are matched with containsComponent(child, %s): a deep search lets a child of this side match a grandchild of the other side (asymmetric, ignores structure)' % render(a),
                  'searchEncapsulated=false')
    rep.rule('C10.O1', 'children are matched ONE-TO-ONE: every loop of the equality family (doEquals, equal<Kind>, equalEntities) that walks this side\'s children and compares them with the other side\'s removes the matched partner from a list of '
                       'unmatched indices (erase in the loop); a membership test (contains*/has*) or a lookup by name lets two children of this side share one partner: {c,c} equals {c,d} but not the reverse')
    fam = {}
    for cls in CLASSES:
        f0 = do_equals(F, cls)
        fam[f0.key] = f0
    work = list(fam.values())
    while work:
        g = work.pop()
        for c in g.walk():
            if c.get('k') == 'Call':
                for ck in F.callee_keys(c):
                    h = F.funcs.get(ck)
                    if h is not None and ck not in fam and h.name.startswith('equal') and h.name != 'equals':
                        fam[ck] = h
                        work.append(h)
    n_o = 0
    for g in fam.values():
        for L in g.walk():
            if L.get('k') not in ('RangeFor', 'For') or g.enclosing_lambda(L) is not None:
                continue
            if any(a.get('k') in ('RangeFor', 'For', 'While', 'Do') for a in g.ancestors(L)):
                continue   # inner search loops are judged with their outer loop
            hdr = role(L, 'range') if L.get('k') == 'RangeFor' else role(L, 'cond')
            own = hdr is not None and any((m.get('k') == 'Member' and m.get('field') and m['n'] in sum(COLLECTIONS.values(), [])) or (m.get('k') == 'Ref' and m.get('dk') == 'parm' and 'std::vector<' in (m.get('t') or '')) for m in walk(hdr))
            if not own:
                continue
            body = role(L, 'body')
            compares = [c for c in walk(body) if c.get('k') == 'Call' and (c.get('fn') in ('equals', 'areNearlyEqual') or (c.get('fn') or '').startswith(('contains', 'has')))]
            if not compares:
                continue
            n_o += 1
            erases = [c for c in walk(body) if c.get('k') == 'Call' and c.get('mc') and c.get('fn') == 'erase' and c['c'][0].get('k') == 'Ref' and c['c'][0].get('dk') == 'local' and 'std::vector<' in (c['c'][0].get('t') or '')]
            member = [c for c in compares if (c.get('fn') or '').startswith(('contains', 'has'))]
            rep.check(bool(erases) and not member, 'C10.O1', '%s|loop over %s' % (g.short, render(hdr)[:40]), g.where(L),
                      '%s walks its own children and compares each with the other side (%s) without removing the matched partner from a list of unmatched children: two equal children of this side can both match one child of the other side, so equals() is asymmetric for children that are not unique'
                      % (g.short, ', '.join(sorted({render(c)[:40] for c in compares}))[:120]), 'matched partner erased from `%s`' % (render(erases[0]['c'][0]) if erases else ''))
    if n_o < 3:
        raise AnalysisBroken('C10.O1: only %d child-matching loops found in the equality family (3 confirmed: components, entities, unit definitions)' % n_o)
    # O2: no whole-sequence comparison
    rep.rule('C10.O2', 'the equality family never compares two sequences as a whole (`==`/`!=` on std::vector / std::list / std::deque, or on a map/pair that holds one): operator== of a sequence depends on the order of its elements, '
                       'and neither the order of children nor the order of a variable\'s equivalence list is part of what an entity is (clone() rebuilds the equivalences in another order, so clone()->equals(original) would be false)')
    from engines import whole_sequence_compares
    from facts import fixture_funcs
    fxs = fixture_funcs('uniq')
    if len(whole_sequence_compares(fxs['fixtureSeqEqBad'])) != 1 or whole_sequence_compares(fxs['fixtureSeqEqGood']):
        raise AnalysisBroken('C10.O2: the detector does not separate the two fixture functions (sa/fixtures/src/uniq.cpp)')
    n_fam = 0
    for g in fam.values():
        n_fam += 1
        for c in whole_sequence_compares(g):
            rep.fail('C10.O2', '%s|%s' % (g.short, render(c)[:50]), g.where(c), '%s compares `%s` as a whole: equal only if the elements were inserted in the same order' % (g.short, render(c)[:70]))
    rep.ok('C10.O2', 'scan', None, 'no whole-sequence comparison in the %d functions of the equality family (fixture: 1 of 2 functions flagged, as expected)' % n_fam)
    # U1
    ud = [r for q, r in F.records.items() if q.endswith('::UnitDefinition')]
    if len(ud) != 1:
        raise AnalysisBroken('struct UnitDefinition vanished')
    uf = do_equals(F, 'Units')
    reads = {}
    for n in uf.walk():
        if n.get('k') == 'Member' and n.get('field') and n.get('q', '').startswith(ud[0]['qname'] + '::'):
            reads.setdefault(n['n'], []).append(n)
    for fld in ud[0]['fields']:
        ns = reads.get(fld['n'], [])
        rep.check(bool(ns), 'C10.U1', 'UnitDefinition.' + fld['n'], uf.where(), 'Units::doEquals never reads UnitDefinition::%s' % fld['n'], 'compared')
        if fld['t'] == 'double' and ns:
            via = all(any(a.get('k') == 'Call' and a.get('fn') == 'areNearlyEqual' for a in uf.ancestors(n)) for n in ns)
            rep.check(via, 'C10.U1', 'UnitDefinition.%s|areNearlyEqual' % fld['n'], uf.where(ns[0]), '%s is compared without areNearlyEqual' % fld['n'], 'compared with areNearlyEqual')
    # N1
    ent = do_equals(F, 'Entity')
    der = [n for n in ent.walk() if n.get('k') == 'Call' and n.get('opc') in ('->', '*') and n['c'][0].get('k') == 'Ref' and n['c'][0].get('n') == 'other']
    for n in der:
        nn = nonnull_facts(ent, n) or set()
        rep.check('other' in nn, 'C10.N1', 'Entity::doEquals|other', ent.where(n), 'Entity::doEquals dereferences `other` without a null test', 'null-tested')
    if not der:
        raise AnalysisBroken('Entity::doEquals no longer reads the other entity')
    for cls in CLASSES[1:]:
        f = do_equals(F, cls)
        for v in f.walk():
            if v.get('k') == 'Var' and v.get('c') and v['c'][0].get('k') == 'Call' and v['c'][0].get('callee') == 'std::dynamic_pointer_cast':
                uses = [n for n in f.walk() if n.get('k') == 'Call' and n.get('opc') in ('->', '*') and n['c'][0].get('k') == 'Ref' and n['c'][0].get('d') == v['d']]
                bad = [n for n in uses if v['n'] not in (nonnull_facts(f, n) or set())]
                rep.check(not bad, 'C10.N1', '%s::doEquals|%s' % (cls, v['n']), f.where(v), 'cast result `%s` is dereferenced at line(s) %s without a null test' % (v['n'], sorted({n.get('l') for n in bad})), 'cast result null-tested before use (%d uses)' % len(uses))
    rep.floor('C10.F1', 20)
    rep.floor('C10.F2', 15)

    # ------------------------------------------------------------------ M: one-to-one matching of children
    rep.rule('C10.M1', 'where children are matched one to one (a container of still-unmatched candidates is shrunk by erase on every match), that container lives across the whole matching: '
                       'it is declared outside the loop over the children being matched - otherwise every child merely needs SOME partner and multisets with different multiplicities compare equal')
    n_m = 0
    scope = [do_equals(F, c) for c in CLASSES] + [g for g in F.funcs.values() if g.name in ('equalEntities', 'areEquivalentEntities') and g.file.endswith('/utilities.cpp')]
    # helpers split off from a doEquals (same file, not themselves an equals/doEquals) are part of the comparison
    seen = {g.key for g in scope}
    work = [do_equals(F, c) for c in CLASSES]
    while work:
        g = work.pop()
        for ck in sorted(F.callees.get(g.key, ())):
            h = F.funcs.get(ck)
            if h is not None and ck not in seen and h.file == g.file and h.name not in ('equals', 'doEquals', 'pFunc'):
                seen.add(ck)
                scope.append(h)
                work.append(h)
    for f in scope:
        for e in f.walk():
            if e.get('k') == 'Call' and e.get('mc') and e.get('fn') == 'erase' and e['c'][0].get('k') == 'Ref' and e['c'][0].get('dk') == 'local':
                loops = [a for a in f.ancestors(e) if a.get('k') in ('For', 'RangeFor', 'While', 'Do')]
                if not loops:
                    continue
                outer = loops[-1]
                decl = [v for v in f.walk() if v.get('k') == 'Var' and v.get('d') == e['c'][0]['d']]
                inside = bool(decl) and any(x is decl[0] for x in walk(outer))
                n_m += 1
                rep.check(not inside, 'C10.M1', '%s|%s' % (f.short, e['c'][0]['n']), f.where(e), '%s: the candidates container `%s` is re-created in every iteration of the outer matching loop, so a matched partner is offered again to the next child' % (f.short, e['c'][0]['n']),
                          'declared before the outer loop')
    # M2: a partner is only ever taken from the still-unmatched candidates
    rep.rule('C10.M2', 'inside a one-to-one matching loop every child fetched from the other side by index is fetched at an index taken FROM the container of still-unmatched candidates (an element of it, the parameter of a lambda run over it): '
                       'a shortcut that tries "the same position first" compares against a partner that an earlier child may already have taken, so one child of the other side is matched twice and equals() becomes asymmetric')
    from engines import _loop_of_var

    def derives(f, e, ud, depth=0):
        if depth > 6:
            return False
        for r in walk(e):
            if r.get('k') != 'Ref':
                continue
            if r.get('d') == ud:
                return True
            if r.get('dk') == 'local':
                lv = _loop_of_var(f).get(r.get('d'))
                if lv is not None:
                    if derives(f, role(lv, 'range'), ud, depth + 1):
                        return True
                    continue
                i_ = single_def(f, r.get('d'))
                if i_ is not None and derives(f, i_, ud, depth + 1):
                    return True
            if r.get('dk') == 'parm':
                lam = f.enclosing_lambda(r)
                while lam is not None:
                    if any(p_.get('d') == r.get('d') for p_ in lam.get('params', [])):
                        host = next((a for a in f.ancestors(lam) if a.get('k') == 'Call'), None)
                        if host is not None and any(derives(f, a, ud, depth + 1) for a in host.get('c', []) if not any(x is lam for x in walk(a))):
                            return True
                        break
                    lam = f.enclosing_lambda(lam)
        return False
    n_m2 = 0
    for f in scope:
        for e in f.walk():
            if e.get('k') == 'Call' and e.get('mc') and e.get('fn') == 'erase' and e['c'][0].get('k') == 'Ref' and e['c'][0].get('dk') == 'local':
                loops = [a for a in f.ancestors(e) if a.get('k') in ('For', 'RangeFor', 'While', 'Do')]
                if not loops:
                    continue
                outer, ud, un = loops[-1], e['c'][0]['d'], e['c'][0]['n']
                for c in walk(outer):
                    if c.get('k') == 'Call' and not c.get('opc') and c.get('c'):
                        if c.get('mc') and is_this_like(c['c'][0]):
                            continue
                        if c.get('mc') and c['c'][0].get('k') == 'Ref' and c['c'][0].get('d') == ud:
                            continue
                        args = c['c'][1:] if c.get('mc') else c['c']
                        idx = [a for a in args if (a.get('t') or a.get('rt') or '').replace('const ', '') in ('unsigned long', 'size_t', 'int', 'long')]
                        if not idx or (c.get('callee') or '').startswith('std::'):
                            continue
                        n_m2 += 1
                        rep.check(all(derives(f, a, ud) for a in idx), 'C10.M2', '%s|%s' % (f.short, render(c)[:50]), f.where(c),
                                  '%s: `%s` fetches a partner at an index that does not come from the unmatched candidates `%s`: that partner may already have been matched by an earlier child' % (f.short, render(c)[:60], un), 'index taken from ' + un)
    if n_m2 < 5:
        raise AnalysisBroken('C10.M2: only %d indexed fetches found inside one-to-one matching loops (5 confirmed)' % n_m2)
    if n_m < 2:
        raise AnalysisBroken('C10.M1: one-to-one matching sites vanished (%d found, Units::doEquals and equalEntities confirmed)' % n_m)

    # ------------------------------------------------------------------ P: a condition pairs the same attribute on both sides
    rep.rule('C10.P1', 'in doEquals a conjunction that tests a field of this object for null together with a null test on the other object tests the SAME attribute there '
                       '(the getter, possibly through a local, covers that field): a guard that pairs my variable with the other side\'s test variable makes equals() asymmetric')
    from facts import null_test
    n_p = 0
    for cls in CLASSES:
        f = do_equals(F, cls)
        for b in f.walk():
            if b.get('k') != 'Bin' or b.get('op') != '&&':
                continue
            p_ = f.parent(b)
            if p_ is not None and p_.get('k') == 'Bin' and p_.get('op') == '&&':
                continue    # only maximal conjunctions
            conj = []
            st = [b]
            while st:
                x = st.pop()
                if x.get('k') == 'Bin' and x.get('op') == '&&':
                    st.extend(x['c'])
                elif x.get('k') == 'Paren' and x.get('c'):
                    st.append(x['c'][0])
                else:
                    conj.append(x)
            mine, theirs = [], []
            for cnd in conj:
                nt = null_test(cnd)
                if nt is None:
                    continue
                e = nt[0]
                flds = [m['n'] for m in walk(e) if m.get('k') == 'Member' and m.get('field') and is_this_like((m.get('c') or [None])[0])]
                if flds:
                    mine.append((flds[0], cnd))
                    continue
                # the other side: a getter call, or a local initialised by one
                src = e
                if e.get('k') == 'Ref' and e.get('dk') == 'local':
                    for v in f.walk():
                        if v.get('k') == 'Var' and v.get('d') == e['d'] and v.get('c'):
                            src = v['c'][0]
                getters = [c for c in walk(src) if c.get('k') == 'Call' and c.get('mc') and not c.get('opc') and not is_this_like(c['c'][0])]
                cov = set()
                for g_ in getters:
                    for ck in F.callee_keys(g_):
                        if ck in F.funcs:
                            cov |= fields.this_reads(F, F.funcs[ck])
                if cov:
                    theirs.append((cov, cnd))
            for fld, cnd in mine:
                for cov, cnd2 in theirs:
                    n_p += 1
                    rep.check(fld in cov, 'C10.P1', '%s|%s' % (cls, render(b)[:60]), f.where(b), '%s::doEquals pairs the null test of %s with `%s`, which reads %s on the other object' % (cls, fld, render(cnd2)[:40], sorted(cov)[:3]), 'same attribute on both sides')
    # the same pairing written with nesting instead of a conjunction: `if (mine != nullptr) {...} else if (other->getter() != nullptr) return false;`
    # - the null test on the other object is paired with the NEAREST enclosing condition that tests a field of this object for null
    from engines import enclosing_conditions as _encl
    for cls in CLASSES:
        f = do_equals(F, cls)
        for t_ in f.walk():
            nt = null_test(t_)
            if nt is None or (t_.get('k') == 'Ref'):
                continue
            e = nt[0]
            if any(m.get('k') == 'Member' and m.get('field') and is_this_like((m.get('c') or [None])[0]) for m in walk(e)):
                continue
            src = e
            if e.get('k') == 'Ref' and e.get('dk') == 'local':
                for v in f.walk():
                    if v.get('k') == 'Var' and v.get('d') == e['d'] and v.get('c'):
                        src = v['c'][0]
            cov = set()
            for g_ in [c for c in walk(src) if c.get('k') == 'Call' and c.get('mc') and not c.get('opc') and c.get('c') and not is_this_like(c['c'][0])]:
                for ck in F.callee_keys(g_):
                    if ck in F.funcs:
                        cov |= fields.this_reads(F, F.funcs[ck])
            if not cov:
                continue
            for cnd, br, st_ in _encl(f, t_):
                if st_.get('k') == 'Bin':
                    continue      # conjunction peers are handled above
                tmp = []
                _decompose(cnd, br == 'then', tmp)
                mine_ = []
                for c2, t2 in tmp:
                    n2 = null_test(c2)
                    if n2 is None:
                        continue
                    fl = [m['n'] for m in walk(n2[0]) if m.get('k') == 'Member' and m.get('field') and is_this_like((m.get('c') or [None])[0])]
                    if fl:
                        mine_.append(fl[0])
                if mine_:
                    for fld in mine_:
                        n_p += 1
                        rep.check(fld in cov, 'C10.P1', '%s|%s|under %s' % (cls, render(t_)[:40], render(cnd)[:30]), f.where(t_), '%s::doEquals pairs the null test of %s with `%s`, which reads %s on the other object' % (cls, fld, render(t_)[:40], sorted(cov)[:3]), 'same attribute on both sides')
                    break
    if n_p < 2:
        raise AnalysisBroken('C10.P1: paired null tests vanished (%d found, 2 confirmed in Reset::doEquals)' % n_p)

    # ------------------------------------------------------------------ U2: special values in the near-equality used for unit attributes
    rep.rule('C10.U2', 'ulpsDistance gives up (maximal distance) exactly when an operand is NaN or exactly one operand is infinite - decided by evaluating its early-return guards on the classes {finite, infinite, NaN} x {finite, infinite, NaN}; '
                       'two infinite operands must reach the bit comparison, otherwise units with an infinite exponent or multiplier are not equal to themselves')
    ud = [g for g in F.funcs.values() if g.name == 'ulpsDistance' and g.file.endswith('/utilities.cpp')]
    if len(ud) != 1:
        # the distance computation folded into its only caller: the same guards, giving up by `return false`
        ud = [g for g in F.funcs.values() if g.name == 'areNearlyEqual' and g.file.endswith('/utilities.cpp') and any(c.get('k') == 'Call' and c.get('fn') in ('isnan', 'isinf') for c in g.walk())]
    if len(ud) != 1:
        raise AnalysisBroken('ulpsDistance vanished')
    ud = ud[0]
    pa, pb = ud.params[0]['n'], ud.params[1]['n']

    def ev(e, st):
        k = e.get('k')
        c = e.get('c', [])
        if k == 'Paren' and c:
            return ev(c[0], st)
        if k == 'Un' and e.get('op') == '!':
            return not ev(c[0], st)
        if k == 'Bin' and e.get('op') == '||':
            return ev(c[0], st) or ev(c[1], st)
        if k == 'Bin' and e.get('op') == '&&':
            return ev(c[0], st) and ev(c[1], st)
        if k == 'Bin' and e.get('op') in ('==', '!='):
            v = ev(c[0], st) == ev(c[1], st)
            return v if e['op'] == '==' else not v
        if k == 'Call' and e.get('fn') in ('isnan', 'isinf', 'isfinite') and c:
            arg = c[-1]
            while arg.get('k') in ('Cast', 'Paren') and arg.get('c'):
                arg = arg['c'][0]
            cls_ = st.get(arg.get('n'))
            if cls_ is None:
                raise AnalysisBroken('ulpsDistance: %s of something that is not a parameter' % e['fn'])
            return {'isnan': cls_ == 'nan', 'isinf': cls_ == 'inf', 'isfinite': cls_ == 'fin'}[e['fn']]
        if k == 'Call' and e.get('conv') and c:
            return ev(c[0], st)
        raise AnalysisBroken('ulpsDistance: cannot interpret guard `%s`' % render(e)[:60])
    guards = []
    for i_ in ud.walk():
        gives_up = any(r.get('k') == 'Return' and r.get('c') and (render(r['c'][0]) == 'max' or (ud.name != 'ulpsDistance' and render(r['c'][0]) == 'false')) for r in walk(role(i_, 'then') or {}))
        if i_.get('k') == 'If' and gives_up and (ud.name == 'ulpsDistance' or any(c.get('k') == 'Call' and c.get('fn') in ('isnan', 'isinf', 'isfinite') for c in walk(role(i_, 'cond')))):
            guards.append(role(i_, 'cond'))
    if not guards:
        raise AnalysisBroken('ulpsDistance: early `return max` guards vanished')
    for ca in ('fin', 'inf', 'nan'):
        for cb in ('fin', 'inf', 'nan'):
            got = any(ev(gd, {pa: ca, pb: cb}) for gd in guards)
            want = 'nan' in (ca, cb) or ((ca == 'inf') != (cb == 'inf'))
            rep.check(got == want, 'C10.U2', 'ulpsDistance|%s,%s' % (ca, cb), ud.where(), 'for operands (%s, %s) the early return of the maximal distance is %s, expected %s' % (ca, cb, 'taken' if got else 'not taken', 'taken' if want else 'not taken'),
                      'maximal distance' if want else 'bit comparison')

    # ------------------------------------------------------------------ U3: the absolute shortcut of areNearlyEqual
    rep.rule('C10.U3', 'the shortcut of areNearlyEqual accepts two values whose ABSOLUTE difference is at most machine epsilon: the quantity compared with the epsilon is |a - b| itself, not scaled by the magnitude of the operands '
                       '(a relative test lets 1024 and the double two steps below it through, ahead of the one-ulp rule)')
    ne = F.fn1('libcellml::areNearlyEqual')
    eps = [v for v in ne.walk() if v.get('k') == 'Var' and v.get('c') and 'epsilon' in render(v['c'][0])]
    cmps = [b for b in ne.walk() if b.get('k') == 'Bin' and b.get('op') in ('<=', '<', '>=', '>') and eps and any(x.get('k') == 'Ref' and x.get('d') == eps[0]['d'] for x in walk(b))]
    if not eps or not cmps:
        raise AnalysisBroken('areNearlyEqual: comparison with the machine epsilon vanished')
    from engines import single_def as _sd10
    for b in cmps:
        other = [x for x in b['c'] if not any(y.get('k') == 'Ref' and y.get('d') == eps[0]['d'] for y in walk(x))]
        expr = [other[0]] if other else []
        seen_ = set()
        while expr:                      # spell out locals that hold the difference
            e_ = expr.pop()
            for y in walk(e_):
                if y.get('k') == 'Ref' and y.get('dk') == 'local' and y['d'] not in seen_ and _sd10(ne, y['d']) is not None:
                    seen_.add(y['d'])
                    expr.append(_sd10(ne, y['d']))
                if y.get('k') == 'Bin' and y.get('op') in ('/', '*'):
                    other = None
        rep.check(other is not None and bool(other) and any(y.get('k') == 'Call' and (y.get('fn') or y.get('callee') or '').split('::')[-1] in ('fabs', 'abs') for y in walk(other[0])), 'C10.U3', 'areNearlyEqual|absolute', ne.where(b),
                  'the value compared with the machine epsilon is `%s`: the difference is scaled, so the shortcut is no longer an absolute one' % render(b)[:70], 'absolute difference compared with epsilon')
    import c10

    # ------------------------------------------------------------------ G1: both sides are read the same way
    rep.rule('C10.G1', 'where doEquals compares a data member of this object with a getter called on the other object, that getter is the plain accessor of the same member (`return <member>;`): '
                       'a getter that edits the value on the way out (e.g. reports 0 for an order that is not set while the member keeps its old value) makes a.equals(b) and b.equals(a) disagree')
    n_g1 = 0
    for cls in c10.CLASSES:
        f_ = c10.do_equals(F, cls)
        for b in f_.walk():
            op_ = b.get('op') or b.get('opc')
            if not (b.get('k') in ('Bin', 'Call') and op_ in ('==', '!=') and len(b.get('c', [])) == 2):
                continue
            for x, y in ((b['c'][0], b['c'][1]), (b['c'][1], b['c'][0])):
                mem = [m_ for m_ in walk(x) if m_.get('k') == 'Member' and m_.get('field')]
                calls = [c_ for c_ in walk(y) if c_.get('k') == 'Call' and c_.get('mc') and not c_.get('opc')]
                if not mem or not calls or any(m_.get('k') == 'Member' and m_.get('field') for m_ in walk(y)):
                    continue
                gs = [F.funcs[ck] for ck in F.callee_keys(calls[0]) if ck in F.funcs]
                if not gs:
                    continue
                n_g1 += 1
                rets = [r_ for r_ in gs[0].walk() if r_.get('k') == 'Return' and r_.get('c')]
                want = render(x).split('->')[-1].split('.')[0] if mem else ''
                plain = len(rets) == 1 and render(rets[0]['c'][0]).replace('mPimpl->', 'pFunc()->').split('pFunc()->')[-1] == render(x).replace('mPimpl->', 'pFunc()->').split('pFunc()->')[-1]
                rep.check(plain, 'C10.G1', '%s::doEquals|%s' % (cls, render(b)[:50]), gs[0].where(), '%s compares `%s` with the other object\'s %s(), which returns `%s`' % (cls, render(x)[:40], calls[0].get('fn'), '; '.join(render(r_['c'][0])[:50] for r_ in rets)), 'plain accessor of the same member')
    if n_g1 < 8:
        raise AnalysisBroken('C10.G1: only %d member/getter comparisons found in the doEquals chain (13 confirmed)' % n_g1)


