"""C05 - the analysed model is well formed (structural clauses only; the classification fixpoint itself is NOT decided)."""
from facts import walk, render, role, AnalysisBroken
from engines import ff, nth_arg, receiver, label_enum, enclosing_conditions

LEVEL = ('Only the bookkeeping clauses of C05 whose truth is in the shape of AnalyserImpl::analyseModel and its helpers: '
         '(T) the internal variable / equation types are mapped to the public ones exhaustively and by name, and the model type is the documented function of (has a variable of integration, has an NLA system) '
         'and of (under-, over-constrained variables); (I) state and variable indices are handed out by counters that start at 0, advance once per created variable and are chosen by the same predicate that chooses the list the variable is stored in; '
         '(U) one internal variable per class of connected variables: creation only after the search over all existing ones failed; (E) every unknown variable of an equation is listed with it. '
         'What each equation computes (the iterative check loop), the resulting classification, dependency wiring and independence of document order are runtime facts and are NOT decided by this check.')
ASSUMPTIONS = ['AnalyserModel::areEquivalentVariables is the equivalence of connected variables (its structural clauses are checked under C18)']

PUBLIC_OF_INTERNAL = {'STATE': 'STATE', 'CONSTANT': 'CONSTANT', 'COMPUTED_TRUE_CONSTANT': 'COMPUTED_CONSTANT', 'COMPUTED_VARIABLE_BASED_CONSTANT': 'COMPUTED_CONSTANT',
                      'ALGEBRAIC': 'ALGEBRAIC', 'INITIALISED_ALGEBRAIC': 'ALGEBRAIC'}


def _assigned_enum(case_node, var):
    """Enumerator assigned to local `var` under a case label (statements up to the break)."""
    out = []
    for x in walk(case_node):
        c = x.get('c', [])
        if x.get('k') == 'Bin' and x.get('op') == '=' and c and c[0].get('k') == 'Ref' and c[0].get('n') == var and c[1].get('k') == 'Ref' and c[1].get('dk') == 'enumc':
            out.append(c[1]['n'])
    return out


def _switch_rows(sw, var):
    """label enumerator -> enumerator assigned to `var`, following fall-through (a label without statements shares the next label's)."""
    rows = {}
    pending = []
    body = role(sw, 'body') or sw
    for c in walk(body):
        if c.get('k') == 'Case':
            pending.append(label_enum(c))
            direct = [x for x in c.get('c', [])[1:]]
            val = None
            for st in direct:
                if st.get('k') == 'Case':
                    break
                v = _assigned_enum(st, var)
                if v:
                    val = v[0]
                    break
            if val is not None:
                for p in pending:
                    rows[p] = val
                pending = []
    return rows, pending


def run(F, rep):
    am = F.fn1('Analyser::AnalyserImpl::analyseModel')
    iv_types = [e['n'] for e in F.enum('AnalyserInternalVariable::Type')['enumerators']]
    ie_types = [e['n'] for e in F.enum('AnalyserInternalEquation::Type')['enumerators']]
    av_types = [e['n'] for e in F.enum('libcellml::AnalyserVariable::Type')['enumerators']]
    ae_types = [e['n'] for e in F.enum('libcellml::AnalyserEquation::Type')['enumerators']]
    sws = [s for s in am.walk() if s.get('k') == 'Switch']

    def labels(sw):
        return [label_enum(c) for c in walk(sw) if c.get('k') == 'Case']

    # ------------------------------------------------------------------ T1: variable types
    rep.rule('C05.T1', 'every AnalyserInternalVariable::Type is either reported as making the model invalid (switch after the check loop), mapped to the AnalyserVariable::Type of the same stem (switch that creates the public variables), '
                       'or is the variable of integration; no enumerator falls silently into a default')
    pub = [s for s in sws if 'mType' in render(role(s, 'cond')) and set(labels(s)) & {'STATE', 'CONSTANT'} and 'Variable' in ''.join(c.get('c', [{}])[0].get('q', '') for c in walk(s) if c.get('k') == 'Case')]
    inv = [s for s in sws if set(labels(s)) >= {'UNKNOWN', 'OVERCONSTRAINED'} and s not in pub and am.enclosing_lambda(s) is None]
    if len(pub) != 1 or len(inv) != 1:
        raise AnalysisBroken('analyseModel: switches over the internal variable type: %d mapping, %d invalid-reporting (1 + 1 confirmed)' % (len(pub), len(inv)))
    rows, dangling = _switch_rows(pub[0], 'type')
    for t in iv_types:
        where = am.where(pub[0])
        if t in rows:
            rep.check(PUBLIC_OF_INTERNAL.get(t) == rows[t] and rows[t] in av_types, 'C05.T1', 'maps|' + t, where, 'internal variable type %s becomes AnalyserVariable::Type::%s' % (t, rows[t]), '-> ' + rows[t])
        elif t in labels(inv[0]):
            rep.ok('C05.T1', 'invalid|' + t, am.where(inv[0]), 'handled by the validity switch')
        else:
            rep.check(t == 'VARIABLE_OF_INTEGRATION', 'C05.T1', 'unmapped|' + t, where, 'internal variable type %s is in neither switch: such variables are silently left out of the analysed model' % t, 'the variable of integration is published separately')
    for t in PUBLIC_OF_INTERNAL:
        if t not in iv_types:
            raise AnalysisBroken('C05.T1: enumerator %s vanished from AnalyserInternalVariable::Type' % t)
    # the default of the mapping switch skips the variable: it must not be reachable for a mapped type
    rep.check(not dangling, 'C05.T1', 'fallthrough', am.where(pub[0]), 'labels %s fall through to the default (skipped)' % dangling, 'every label assigns a type')

    # ------------------------------------------------------------------ T2: equation types
    rep.rule('C05.T2', 'every AnalyserInternalEquation::Type except UNKNOWN (dummy equations of true constants) is mapped to the AnalyserEquation::Type of the same name')
    def label_quals(sw):
        return ''.join(c.get('c', [{}])[0].get('q', '') for c in walk(sw) if c.get('k') == 'Case')
    eq = [s for s in sws if 'mType' in render(role(s, 'cond')) and 'AnalyserInternalEquation' in label_quals(s) and _switch_rows(s, 'type')[0]]
    if len(eq) == 1:
        rows, dangling = _switch_rows(eq[0], 'type')
    else:
        # table-driven form: a map from the internal to the public type, looked up with find(...mType); a key that is not found is skipped
        rows = None
        for v in am.walk():
            if v.get('k') == 'Var' and 'map<libcellml::AnalyserInternalEquation::Type, libcellml::AnalyserEquation::Type>' in (v.get('t') or ''):
                pairs = [p_ for p_ in walk(v) if p_.get('k') in ('Construct', 'InitList') and len(p_.get('c', [])) == 2 and all(x.get('k') == 'Ref' and x.get('dk') == 'enumc' for x in p_['c'])]
                finds = [c for c in am.walk() if c.get('k') == 'Call' and c.get('fn') == 'find' and c.get('c') and c['c'][0].get('k') == 'Ref' and c['c'][0].get('d') == v['d']
                         and any(m.get('k') == 'Member' and m.get('q') == 'libcellml::AnalyserInternalEquation::mType' for m in walk(c))]
                skips = [i_ for i_ in am.walk() if i_.get('k') == 'If' and '.end()' in render(role(i_, 'cond')) and v['n'] in render(role(i_, 'cond')) and '==' in render(role(i_, 'cond'))
                         and any(x.get('k') == 'Continue' for x in walk(role(i_, 'then') or {}))]
                if pairs and len(finds) == 1 and skips:
                    rows = {p_['c'][0]['n']: p_['c'][1]['n'] for p_ in pairs if 'AnalyserInternalEquation' in p_['c'][0].get('q', '')}
                    eq = [v]
        if not rows:
            raise AnalysisBroken('analyseModel: switch (or looked-up table) mapping the internal equation type vanished (%d)' % len(eq))
    for t in ie_types:
        if t == 'UNKNOWN':
            rep.check(t not in rows, 'C05.T2', 'skip|UNKNOWN', am.where(eq[0]), 'UNKNOWN equations are published as %s' % rows.get(t), 'skipped by the default')
            continue
        rep.check(rows.get(t) == t and t in ae_types, 'C05.T2', 'maps|' + t, am.where(eq[0]), 'internal equation type %s becomes AnalyserEquation::Type::%s' % (t, rows.get(t)), '-> ' + t)

    # ------------------------------------------------------------------ T3: model type
    rep.rule('C05.T3', 'the model type is DAE/ODE/NLA/ALGEBRAIC exactly for (variable of integration?, NLA system?) = (yes,yes)/(yes,no)/(no,yes)/(no,no), and UNSUITABLY_/UNDER-/OVERCONSTRAINED exactly for (under?, over?) = (yes,yes)/(yes,no)/(no,-)')
    preds = {}
    for v in am.walk():
        if v.get('k') == 'Var' and v.get('c') and am.enclosing_lambda(v) is None:
            t = render(v['c'][0])
            if 'any_of' in t:
                from engines import walk_pred as _wp5
                en = {x['n'] for x in _wp5(F, v) if x.get('k') == 'Ref' and x.get('dk') == 'enumc'}
                if en == {'NLA'}:
                    preds[v['n']] = 'nla'
                elif en == {'UNKNOWN', 'SHOULD_BE_STATE'}:
                    preds[v['n']] = 'under'
                elif en == {'OVERCONSTRAINED'}:
                    preds[v['n']] = 'over'
    if set(preds.values()) != {'nla', 'under', 'over'}:
        raise AnalysisBroken('analyseModel: predicates over NLA / under- / over-constrained not recognised: %s' % preds)

    def sem(t, truth):
        t = t.strip()
        if t in preds:
            return (preds[t], truth)
        if t.startswith('!') and t[1:] in preds:
            return (preds[t[1:]], not truth)
        if t.replace(' ', '') in ('mModel->mPimpl->mVoi!=nullptr',):
            return ('voi', truth)
        if t.replace(' ', '') in ('mModel->mPimpl->mVoi==nullptr',):
            return ('voi', not truth)
        return None
    table = {}
    for a in am.walk():
        c = a.get('c', [])
        if a.get('k') == 'Bin' and a.get('op') == '=' and c and render(c[0]).endswith('mModel->mPimpl->mType') and am.enclosing_lambda(a) is None:
            facts = {sem(t, tr) for t, tr in (ff(am).rendered_conds_at(a) or set())} - {None}
            # propositional closure: `!(under && over)` and `under` give `not over`, however the if/else chain is written
            from engines import implied_literals

            def _atom(n_):
                s_ = sem(render(n_), True)
                return s_[0] if s_ and s_[1] is True else None
            facts |= set((implied_literals(am, a, _atom) or {}).items())
            rhs = c[1]
            if rhs.get('k') == 'Cond':
                cc = rhs['c']
                s0 = sem(render(cc[0]), True)
                for branch, truth in ((cc[1], True), (cc[2], False)):
                    if branch.get('dk') == 'enumc':
                        table.setdefault(branch['n'], []).append((facts | ({(s0[0], s0[1] == truth)} if s0 else set()), a))
            elif rhs.get('dk') == 'enumc':
                table.setdefault(rhs['n'], []).append((facts, a))
    want = {'DAE': {('voi', True), ('nla', True)}, 'ODE': {('voi', True), ('nla', False)}, 'NLA': {('voi', False), ('nla', True)}, 'ALGEBRAIC': {('voi', False), ('nla', False)},
            'UNSUITABLY_CONSTRAINED': {('under', True), ('over', True)}, 'UNDERCONSTRAINED': {('under', True), ('over', False)}, 'OVERCONSTRAINED': {('under', False)}}
    for t, need in want.items():
        rowsT = table.get(t, [])
        # OVERCONSTRAINED is also assigned after the equation check (another site): at least one site must carry the documented signs, none may contradict them
        good = [1 for f_, a in rowsT if need <= f_]
        contra = [a for f_, a in rowsT if any((p, not v) in f_ for p, v in need)]
        rep.check(bool(good) and not contra, 'C05.T3', 'type|' + t, am.where(rowsT[0][1]) if rowsT else am.where(),
                  'AnalyserModel::Type::%s is assigned under %s, documented: %s' % (t, [sorted(f_) for f_, a in rowsT], sorted(need)), 'assigned under %s' % sorted(need))

    # ------------------------------------------------------------------ I: indices
    rep.rule('C05.I1', 'public variables: the counter (state / variable) that numbers a variable and the list (states / variables) that stores it are chosen by the same test; each created variable is numbered once and stored once; '
                       'both counters are reset so that the first index is 0')
    pops = [c for c in am.walk() if c.get('k') == 'Call' and c.get('fn') == 'populate' and 'AnalyserVariable' in (c.get('cls') or '') and any(x.get('k') == 'Un' and x.get('op') == '++' for x in walk(c))]
    if len(pops) != 1:
        raise AnalysisBroken('analyseModel: populate(...) of the public variables with a counter argument: %d found' % len(pops))
    pop = pops[0]
    idx = [a for a in pop['c'][1:] if any(x.get('k') == 'Un' and x.get('op') == '++' for x in walk(a))][0]
    if idx.get('k') != 'Cond':
        raise AnalysisBroken('analyseModel: the index argument is no longer a conditional over two counters')
    sel = render(idx['c'][0])
    cnt = {True: [x for x in walk(idx['c'][1]) if x.get('k') == 'Ref'][0]['n'], False: [x for x in walk(idx['c'][2]) if x.get('k') == 'Ref'][0]['n']}
    pushes = [c for c in am.walk() if c.get('k') == 'Call' and c.get('fn') == 'push_back' and render(receiver(c)).endswith(('mStates', 'mVariables')) and am.enclosing_lambda(c) is None]
    loop = None
    for anc in am.ancestors(pop):
        if anc.get('k') in ('RangeFor', 'For'):
            loop = anc
            break
    pushes = [p for p in pushes if loop is not None and any(x is p for x in walk(loop))]
    if len(pushes) != 2 or loop is None:
        raise AnalysisBroken('analyseModel: the two push_back sites for mStates/mVariables in the variable loop vanished (%d)' % len(pushes))
    for p in pushes:
        lst = render(receiver(p)).split('->')[-1]
        conds = {(t, tr) for t, tr in (ff(am).rendered_conds_at(p) or set())}
        want_truth = lst == 'mStates'
        counter_for = cnt[want_truth]
        okk = (sel, want_truth) in conds
        rep.check(okk and (('state' in counter_for.lower()) == want_truth), 'C05.I1', 'list|' + lst, am.where(p),
                  'a variable numbered with `%s` when `%s` is stored in %s under %s' % (counter_for, sel, lst, sorted(conds)[-2:]), 'stored in %s exactly when numbered with %s' % (lst, counter_for))
    # counters: last assignment before the loop, and the increment form
    for truth, name in cnt.items():
        inc = [x for x in walk(idx) if x.get('k') == 'Un' and x.get('op') == '++' and render(x['c'][0]) == name]
        pre = bool(inc) and not inc[0].get('postfix')
        resets = [a for a in am.walk() if a.get('k') == 'Bin' and a.get('op') == '=' and render(a['c'][0]) == name and am.cfg().node_dominates(a, pop) and am.enclosing_lambda(a) is None]
        last = max(resets, key=lambda a: a.get('l', 0)) if resets else None
        val = render(last['c'][1]) if last is not None else None
        okk = last is not None and ((pre and val in ('MAX_SIZE_T', 'SIZE_MAX', 'std::numeric_limits<size_t>::max()')) or (not pre and val == '0'))
        rep.check(okk, 'C05.I1', 'reset|' + name, am.where(last) if last is not None else am.where(pop),
                  'counter %s is %s-incremented from %s: the first %s index is not 0' % (name, 'pre' if pre else 'post', val, 'state' if truth else 'variable'), 'first index 0 (%s-increment from %s)' % ('pre' if pre else 'post', val))
        # no other reset between the last one and the loop, inside the loop
        inside = [a for a in walk(loop) if a.get('k') == 'Bin' and a.get('op') == '=' and render(a['c'][0]) == name]
        rep.check(not inside, 'C05.I1', 'no-reset-in-loop|' + name, am.where(loop), 'counter %s is reassigned inside the loop that numbers the variables' % name, 'only incremented in the loop')
    # every iteration that creates a variable numbers and stores it: the create call is followed on every path by populate and by one of the pushes
    from issues import must_pass
    creates = [c for c in walk(loop) if c.get('k') == 'Call' and c.get('fn') == 'create' and 'AnalyserVariable' in (c.get('callee') or '')]
    if len(creates) != 1:
        raise AnalysisBroken('analyseModel: creation of the public variable vanished from the loop')
    cfg = am.cfg()
    rep.check(must_pass(cfg, creates[0], [pop['i']]) and must_pass(cfg, pop, [p['i'] for p in pushes]), 'C05.I1', 'create->number->store', am.where(creates[0]),
              'a created public variable is not numbered and stored on every path of the iteration', 'every created variable is populated (numbered) and pushed to one list')

    rep.rule('C05.I2', 'AnalyserInternalEquation::check numbers a variable with the state counter exactly when it has just been typed STATE, with the variable counter otherwise')
    chk = F.fn1('AnalyserInternalEquation::check')
    conds_idx = [x for x in chk.walk() if x.get('k') == 'Cond' and any(u.get('k') == 'Un' and u.get('op') == '++' for u in walk(x))]
    if len(conds_idx) != 1:
        raise AnalysisBroken('AnalyserInternalEquation::check: the conditional choosing the counter vanished (%d)' % len(conds_idx))
    ci = conds_idx[0]
    t = render(ci['c'][0])
    a_name = [x for x in walk(ci['c'][1]) if x.get('k') == 'Ref'][0]['n']
    b_name = [x for x in walk(ci['c'][2]) if x.get('k') == 'Ref'][0]['n']
    is_state_test = 'Type::STATE' in t and '==' in t
    rep.check(is_state_test and 'state' in a_name.lower() and 'state' not in b_name.lower(), 'C05.I2', 'counter', chk.where(ci), 'counter chosen by `%s`: %s / %s' % (t, a_name, b_name), '`%s` ? ++%s : ++%s' % (t, a_name, b_name))

    # ------------------------------------------------------------------ U: one internal variable per class
    rep.rule('C05.U1', 'AnalyserImpl::internalVariable creates an internal variable only after a search over all existing ones with areEquivalentVariables returned nothing, and records what it creates')
    ivf = F.fn1('Analyser::AnalyserImpl::internalVariable')
    cr = [c for c in ivf.walk() if c.get('k') == 'Call' and c.get('fn') == 'create']
    lp = [l for l in ivf.walk() if l.get('k') in ('RangeFor', 'For', 'While')]
    alg = [c for c in ivf.walk() if c.get('k') == 'Call' and c.get('callee') in ('std::find_if', 'std::any_of', 'std::none_of') and 'mInternalVariables' in render(c)]
    if len(cr) != 1 or len(lp) + len(alg) != 1:
        raise AnalysisBroken('internalVariable: create/search vanished (%d creations, %d loops, %d algorithm calls)' % (len(cr), len(lp), len(alg)))
    cfgv = ivf.cfg()
    if lp:
        l = lp[0]
        rng = render(l['c'][1]) if l.get('k') == 'RangeFor' else render(role(l, 'cond'))
        eqv = [c for c in walk(l) if c.get('k') == 'Call' and c.get('fn') == 'areEquivalentVariables']
        rets = [r for r in walk(l) if r.get('k') == 'Return']
        early = [x for x in walk(l) if x.get('k') in ('Break', 'Goto')]
        complete = 'mInternalVariables' in rng and bool(rets) and not early and cfgv.node_dominates(l['c'][1] if l.get('k') == 'RangeFor' else role(l, 'cond'), cr[0])
    else:
        # the same search written with an algorithm: find_if over the whole of mInternalVariables with a predicate that asks areEquivalentVariables, the creation only where nothing was found
        a = alg[0]
        rng = 'mInternalVariables'
        eqv = [c for c in walk(a) if c.get('k') == 'Call' and c.get('fn') == 'areEquivalentVariables']
        whole = any(x.get('k') == 'Call' and x.get('fn') in ('begin', 'cbegin') for x in walk(a)) and any(x.get('k') == 'Call' and x.get('fn') in ('end', 'cend') for x in walk(a))
        rets = [r for r in ivf.walk() if r.get('k') == 'Return' and ivf.enclosing_lambda(r) is None and r is not None]
        complete = whole and cfgv.node_dominates(a, cr[0]) and any(('.end()' in c and ((('!=' in c) and not t) or (('==' in c) and t))) for c, t in (ff(ivf).rendered_conds_at(cr[0]) or set()))
    rep.check(complete and len(eqv) == 1 and render(nth_arg(eqv[0], 0)) == ivf.params[0]['n'],
              'C05.U1', 'search-before-create', ivf.where(cr[0]), 'the creation is not preceded by a complete search over mInternalVariables for a variable equivalent to `%s`' % ivf.params[0]['n'], 'created only after the search over %s failed' % rng)
    pb = [c for c in ivf.walk() if c.get('k') == 'Call' and c.get('fn') in ('push_back', 'emplace_back') and 'mInternalVariables' in render(receiver(c))]
    rep.check(bool(pb) and must_pass(cfgv, cr[0], [p['i'] for p in pb]), 'C05.U1', 'recorded', ivf.where(cr[0]), 'a created internal variable is not added to mInternalVariables on every path: the next lookup creates a second one for the same class', 'pushed to mInternalVariables')

    # ------------------------------------------------------------------ E: variables of an equation
    rep.rule('C05.E1', 'the variables listed with a public equation are all unknown variables of the internal equation (full loop, unconditional push_back)')
    vl = []
    for lp2 in am.walk():
        if lp2.get('k') == 'RangeFor' and 'mUnknownVariables' in render(lp2['c'][1]) and am.enclosing_lambda(lp2) is None:
            pbs = [c for c in walk(lp2) if c.get('k') == 'Call' and c.get('fn') == 'push_back' and render(receiver(c)) == 'variables']
            if pbs:
                vl.append((lp2, pbs))
    if len(vl) != 1:
        raise AnalysisBroken('analyseModel: loop collecting the variables of an equation vanished (%d)' % len(vl))
    lp2, pbs = vl[0]
    body_first = role(lp2, 'body')
    extra = (ff(am).rendered_conds_at(pbs[0]) or set()) - (ff(am).rendered_conds_at(lp2['c'][1]) or set())
    extra = {e for e in extra if 'mUnknownVariables' not in e[0]}
    early = [x for x in walk(lp2) if x.get('k') in ('Break', 'Return', 'Continue')]
    rep.check(not extra and not early, 'C05.E1', 'variables', am.where(pbs[0]), 'an unknown variable is listed only when %s (or the loop is left early): the equation does not list everything it computes' % sorted(extra), 'every unknown variable is listed')

    rep.rule('C05.E2', 'the equations listed with a public variable are ALL internal equations that have it among their unknowns (a variable of an NLA system is computed by every equation of that system): '
                       'the list is filled inside a loop over all of mInternalEquations with no early exit')
    eqpb = [c for c in walk(loop) if c.get('k') == 'Call' and c.get('fn') in ('push_back', 'emplace_back') and render(receiver(c)) == 'equations']
    if not eqpb:
        raise AnalysisBroken('analyseModel: the list of equations of a public variable is no longer filled in the variable loop')
    for c in eqpb:
        inner = None
        for anc in am.ancestors(c):
            if anc is loop:
                break
            if anc.get('k') == 'RangeFor' and 'mInternalEquations' in render(anc['c'][1]):
                inner = anc
                break
            if anc.get('k') == 'For' and 'mInternalEquations' in render(role(anc, 'cond')):
                inner = anc
                break
        early = [x for x in walk(inner) if x.get('k') in ('Break', 'Return')] if inner is not None else []
        rep.check(inner is not None and not early, 'C05.E2', 'equations-of-variable', am.where(c),
                  'the equations of a variable are not gathered by a complete loop over mInternalEquations (first match only, or early exit): a variable of an NLA system lists one of its equations only', 'complete loop over mInternalEquations')

    # ------------------------------------------------------------------ D / R
    rep.rule('C05.D1', 'an internal equation records a variable once per ROLE: add<Role>Variable tests membership in the list it is about to extend (its own role list) - testing another list (e.g. the list of all variables) '
                       'drops a variable that occurs both plain and inside a derivative from one of its roles')
    n_d = 0
    for g in F.funcs.values():
        if g.cls and g.cls.endswith('AnalyserInternalEquation') and g.name.startswith('add') and g.name.endswith('Variable'):
            finds = [c for c in g.walk() if c.get('k') == 'Call' and c.get('callee') in ('std::find', 'std::count', 'std::find_if')]
            pushes = [c for c in g.walk() if c.get('k') == 'Call' and c.get('mc') and c.get('fn') in ('push_back', 'emplace_back')]
            if not finds or not pushes:
                continue
            n_d += 1
            tested = {m_['n'] for fnd in finds for m_ in walk(fnd) if m_.get('k') == 'Member' and m_.get('field')}
            first = render(receiver(sorted(pushes, key=lambda c: (c.get('l', 0), c['i']))[0])).split('->')[-1]
            rep.check(tested == {first}, 'C05.D1', g.name, g.where(finds[0]), '%s tests membership in %s but extends %s first' % (g.short, sorted(tested), first), 'tests and extends %s' % first)
    if n_d < 2:
        raise AnalysisBroken('C05.D1: addVariable/addOdeVariable vanished (%d found)' % n_d)

    rep.rule('C05.R1', 'a function of analyser.cpp that calls itself makes progress: the recursive call does not receive exactly the function\'s own arguments again (the walk over connected variables must continue from the neighbour, not from the variable it started at)')
    n_r = 0
    for g in F.funcs.values():
        if not g.file.endswith('/analyser.cpp'):
            continue
        for c in g.walk():
            if c.get('k') == 'Call' and not c.get('opc') and g.key in F.callee_keys(c):
                args = c['c'][1:] if c.get('mc') else c['c']
                if not args:
                    continue
                n_r += 1
                same = all(a.get('k') == 'Ref' and a.get('dk') == 'parm' and i < len(g.params) and a.get('d') == g.params[i]['d'] for i, a in enumerate(args))
                reassigned = any(((x.get('k') == 'Call' and x.get('opc') == '=') or (x.get('k') == 'Bin' and x.get('op') == '=')) and x['c'][0].get('k') == 'Ref' and x['c'][0].get('dk') == 'parm' for x in g.walk())
                other_obj = c.get('mc') and c.get('c') and c['c'][0].get('k') not in ('This', 'NoObj') and render(c['c'][0]) != 'this'
                rep.check(not same or reassigned or other_obj, 'C05.R1', '%s|%s' % (g.short.split('::')[-1], render(c)[:50]), g.where(c), '%s calls itself with its own arguments unchanged: the traversal never leaves the node it started from' % g.short, 'arguments change')
    if n_r < 10:
        raise AnalysisBroken('C05.R1: only %d self-recursive calls in analyser.cpp (20+ confirmed)' % n_r)

    # ------------------------------------------------------------------ H: analyser state is rebuilt for every model (clause shared with C12)
    import c12
    c12.rule_h1(F, rep, 'C05.H1', [st for st in c12.STATE if st[0] == 'Analyser::AnalyserImpl'])

    # ------------------------------------------------------------------ A: flags gathered over loops
    from engines import rule_accumulators
    rule_accumulators(F, rep, 'C05.A1', lambda g: g.file.endswith('/analyser.cpp'), 2, 'analyser.cpp', 'e.g. whether some variable of integration is initialised / whether an equation has become external must not depend on which variable comes last')

    # ------------------------------------------------------------------ W: walks over the component tree are complete
    import recursion as _recw
    _recw.rule_walkers(F, rep, 'C05.W1', ['analyseComponent', 'analyseComponentVariables'], 2, 'analysing the equations and variables of every component')

    # ------------------------------------------------------------------ M: type transitions of the internal variables
    rep.rule('C05.M1', 'transition functions of AnalyserInternalVariable::mType read from makeVoi/makeState (abstract execution over the enum): each is idempotent (a variable can occur under several <diff>/<bvar>), '
                       'and makeState yields STATE only from INITIALISED or STATE - a differentiated variable without an initial value must stay SHOULD_BE_STATE so that the model is reported as underconstrained')
    import enumexec
    FQ, EQ = 'libcellml::AnalyserInternalVariable::mType', 'libcellml::AnalyserInternalVariable::Type'
    for nm in ('makeVoi', 'makeState'):
        fs = [g for g in F.funcs.values() if g.name == nm and g.cls == 'libcellml::AnalyserInternalVariable']
        if len(fs) != 1:
            raise AnalysisBroken('AnalyserInternalVariable::%s vanished' % nm)
        try:
            T = enumexec.transition(F, fs[0], FQ, EQ)
        except enumexec.Unknown as e:
            raise AnalysisBroken('AnalyserInternalVariable::%s: %s is outside the fragment the abstract execution understands' % (nm, e))
        bad = sorted(x for x in T if T[T[x]] != T[x])
        rep.check(not bad, 'C05.M1', '%s|idempotent' % nm, fs[0].where(), '%s applied twice differs from applied once for %s (%s): a variable that occurs in two derivatives ends in another type than one that occurs in a single derivative'
                  % (nm, bad, ', '.join('%s -> %s -> %s' % (x, T[x], T[T[x]]) for x in bad)), 'T(T(x)) = T(x) for all %d types' % len(T))
        if nm == 'makeState':
            src_ = sorted(x for x in T if T[x] == 'STATE')
            rep.check(set(src_) <= {'INITIALISED', 'STATE'} and T.get('INITIALISED') == 'STATE' and T.get('UNKNOWN') == 'SHOULD_BE_STATE', 'C05.M1', 'makeState|state-needs-initial-value', fs[0].where(),
                      'makeState turns %s into STATE and UNKNOWN into %s: only an initialised variable may become a state, an uninitialised one must become SHOULD_BE_STATE (reported later as underconstrained)' % (src_, T.get('UNKNOWN')),
                      'INITIALISED -> STATE, UNKNOWN -> SHOULD_BE_STATE, nothing else becomes a state')

    # ------------------------------------------------------------------ O: an overconstrained equation blames all its variables
    rep.rule('C05.O1', 'where AnalyserInternalEquation::check finds that an equation has nothing left to compute (overconstrained), it marks EVERY variable of the equation OVERCONSTRAINED: the marking in the loop over mAllVariables depends on nothing but the loop '
                       '(if some kinds are spared and the equation only reads those - a second ODE for a state - nothing is marked, the redundant equation is dropped later and the model is reported valid)')
    ck = [g for g in F.funcs.values() if g.name == 'check' and g.cls == 'libcellml::AnalyserInternalEquation']
    if len(ck) != 1:
        raise AnalysisBroken('AnalyserInternalEquation::check vanished')
    ck = ck[0]
    from engines import enclosing_conditions as _encl
    marks = [a for a in ck.walk() if a.get('k') == 'Bin' and a.get('op') == '=' and a['c'][0].get('k') == 'Member' and a['c'][0].get('q') == 'libcellml::AnalyserInternalVariable::mType'
             and a['c'][1].get('k') == 'Ref' and a['c'][1].get('n') == 'OVERCONSTRAINED']
    n_o = 0
    for a in marks:
        loops = [l for l in ck.ancestors(a) if l.get('k') == 'RangeFor' and render(role(l, 'range')).endswith('mAllVariables')]
        if not loops:
            continue
        n_o += 1
        inner = [render(cnd)[:60] for cnd, br, st in _encl(ck, a) if any(x is loops[0] for x in ck.ancestors(st))]
        rep.check(not inner, 'C05.O1', 'check|mark-all-variables', ck.where(a), 'the marking of the variables of an overconstrained equation is conditional (`%s`): an equation whose variables are all spared marks nothing and the redundancy goes unreported' % '`, `'.join(inner), 'unconditional inside the loop over mAllVariables')
    if n_o < 1:
        raise AnalysisBroken('AnalyserInternalEquation::check: the loop that marks the variables of an overconstrained equation vanished')

    # ------------------------------------------------------------------ loop-carried locals
    from engines import rule_loop_state
    rule_loop_state(F, rep, 'C05.S1', lambda g: g.file.endswith('/analyser.cpp'), 'analyser.cpp')

    # ------------------------------------------------------------------ every element of a collection is handled
    from engines import rule_visit_all
    rule_visit_all(F, rep, 'C05.Y1', lambda g: g.file.endswith('/analyser.cpp'), 30, 'analyser.cpp')

    # ------------------------------------------------------------------ Q: late requalification (rules shared with C03/C17)
    import requalify
    requalify.rule_requalify(F, rep, 'C05.Q1', 'C05.Q2')

    # ------------------------------------------------------------------ U2: the set of internal variables is closed before the results are published
    rep.rule('C05.U2', 'AnalyserImpl::internalVariable(), which registers a new internal variable when it finds none, is not called any more once analyseModel has started to publish its results (the mappings from internal to public variables): '
                       'a lookup by equivalence class at that stage resolves a dependency to a different public variable than the pointer the rest of the bookkeeping (e.g. the removal of an equation\'s dependency on its own unknown) compares with')
    from faillog import _can_reach as _cr5
    pub = [c for c in am.walk() if c.get('k') == 'Call' and c.get('mc') and c.get('fn') in ('emplace', 'insert') and 'aiv2avMappings' in render(receiver(c))]
    ivc = [c for c in am.walk() if c.get('k') == 'Call' and c.get('fn') == 'internalVariable' and am.enclosing_lambda(c) is None]
    if not pub or len(ivc) < 2:
        raise AnalysisBroken('analyseModel: publication of aiv2avMappings / internalVariable calls not found')
    cfg5 = am.cfg()
    from engines import _loop_of_var as _lov5
    for c in ivc:
        late = _cr5(cfg5, pub[0], c)
        if late:
            # the one legitimate late use: the dependencies DECLARED for an external variable were recorded before the analysis re-pointed the representatives
            # of the classes; they have no "own unknown" bookkeeping and must be resolved again by class (C20.D3).  Recognised structurally: the argument is the
            # element of a loop over AnalyserInternalVariable::mDependencies
            a0 = nth_arg(c, 0)
            from engines import walk_x as _wx5
            srcs5 = []
            for x_ in (_wx5(am, a0) if a0 is not None else []):
                srcs5.append(x_)
                if x_.get('k') == 'Ref' and x_.get('d') in _lov5(am):
                    srcs5 += list(walk(role(_lov5(am)[x_['d']], 'range')))
            if any(m_.get('k') == 'Member' and (m_.get('q') or '') == 'libcellml::AnalyserInternalVariable::mDependencies' for m_ in srcs5):
                rep.ok('C05.U2', 'analyseModel|%s@declared dependencies of an external variable' % render(c)[:40], am.where(c), 're-resolution of recorded external dependencies (see C20.D3)')
                continue
        rep.check(not late, 'C05.U2', 'analyseModel|%s@%d' % (render(c)[:40], sum(1 for x in ivc if x.get('l', 0) < c.get('l', 0))), am.where(c), '`%s` is evaluated after the public variables have been created' % render(c)[:60], 'before publication')

    # ------------------------------------------------------------------ V1: an internal variable stays inside its equivalence class
    rep.rule('C05.V1', 'an AnalyserInternalVariable stands for one class of equivalent variables: AnalyserInternalVariable::setVariable(v) is only called on a freshly created object, on the object that internalVariable(v) returned for '
                       'that very v, or where areEquivalentVariables(<its current variable>, v) is known to hold; re-pointing it to a variable chosen any other way (e.g. "the variable of the same name in this component") merges or splits '
                       'classes, and the model type then depends on how variables are named')
    from engines import facts_x as _fx5, single_def as _sd5
    import re as _re5
    n_v1 = 0
    for g in F.funcs.values():
        if not g.file.endswith('/analyser.cpp'):
            continue
        for c in g.walk():
            if not (c.get('k') == 'Call' and c.get('mc') and c.get('fn') == 'setVariable' and c.get('cls') == 'libcellml::AnalyserInternalVariable'):
                continue
            n_v1 += 1
            rcv, arg = receiver(c), nth_arg(c, 0)
            rbase = rcv
            while rbase is not None and rbase.get('k') == 'Call' and rbase.get('opc') in ('->', '*') and rbase.get('c'):
                rbase = rbase['c'][0]
            rtxt, atxt = render(rbase), render(arg)
            how = None
            if rbase is not None and rbase.get('k') == 'Ref' and rbase.get('dk') == 'local':
                i_ = _sd5(g, rbase.get('d'))
                ir = render(i_) if i_ is not None else ''
                if i_ is not None and (any(x.get('k') == 'New' and 'AnalyserInternalVariable' in (x.get('t') or '') for x in walk(i_))
                                       or any(x.get('k') == 'Call' and x.get('fn') in ('create', 'make_shared') and 'AnalyserInternalVariable' in (x.get('rt') or '') for x in walk(i_))):
                    how = 'fresh object'
                elif i_ is not None and any(x.get('k') == 'Call' and x.get('fn') == 'internalVariable' and render(nth_arg(x, 0)) == atxt for x in walk(i_)):
                    how = 'the object internalVariable(%s) returned' % atxt
            if how is None:
                for t, tr in (_fx5(F, g, c) or set()):
                    m_ = _re5.search(r'areEquivalentVariables\((.*), (.*)\)$', t)
                    if m_ and tr and {m_.group(1), m_.group(2)} == {rtxt + '->mVariable', atxt}:
                        how = 'under ' + t[:60]
            rep.check(how is not None, 'C05.V1', '%s|%s' % (g.short.split('::')[-1], render(c)[:50]), g.where(c),
                      '%s re-points the internal variable `%s` to `%s` although that variable is not known to be equivalent to the one it stands for (no areEquivalentVariables(%s->mVariable, %s) fact holds here)' % (g.short, rtxt, atxt, rtxt, atxt), how)
    if n_v1 < 3:
        raise AnalysisBroken('C05.V1: only %d calls of AnalyserInternalVariable::setVariable found (3 confirmed)' % n_v1)

    # ------------------------------------------------------------------ N1: siblings of an NLA system share its index
    rep.rule('C05.N1', 'AnalyserInternalEquation::mNlaSystemIndex is written in two ways only: a fresh number (++counter) for an equation that has none yet (tested == MAX_SIZE_T), or a copy of the index of the equation into whose '
                       'mNlaSiblings the written equation has just been entered; anything else (the running counter, say) lets the equations of one system carry different indices when systems are interleaved in the model')
    n_n1 = 0
    for g in F.funcs.values():
        if not g.file.endswith('/analyser.cpp'):
            continue
        for a in g.walk():
            if not (a.get('k') == 'Bin' and a.get('op') == '=' and a['c'][0].get('k') == 'Member' and a['c'][0].get('n') == 'mNlaSystemIndex' and 'AnalyserInternalEquation' in (a['c'][0].get('q') or '')):
                continue
            n_n1 += 1
            tgt = render(a['c'][0]['c'][0]) if a['c'][0].get('c') else 'this'
            from engines import value_of as _vo5
            rhs = _vo5(g, a['c'][1])
            how = None
            if rhs.get('k') == 'Un' and rhs.get('op') == '++':
                fx = _fx5(F, g, a) or set()
                if any(tr and t.startswith(tgt.replace('operator->', '')) and 'mNlaSystemIndex == ' in t and 'MAX_SIZE_T' in t for t, tr in fx) or any(tr and ('%s->mNlaSystemIndex == ' % tgt.split('.operator')[0]) in t for t, tr in fx):
                    how = 'fresh number for an equation that has none'
            elif rhs.get('k') == 'Member' and rhs.get('n') == 'mNlaSystemIndex':
                src = render(rhs['c'][0]) if rhs.get('c') else 'this'
                blk = g.parent(g.parent(a)) if g.parent(a) is not None and g.parent(a).get('k') != 'Compound' else g.parent(a)
                pushes = [x for x in walk(blk or a) if x.get('k') == 'Call' and x.get('fn') in ('push_back', 'emplace_back') and 'mNlaSiblings' in render(receiver(x)) and render(receiver(x)).startswith(src.split('.operator')[0])
                          and render(nth_arg(x, 0)) == tgt.split('.operator')[0].replace('->', '') ]
                if pushes and g.cfg().node_dominates(pushes[0], a):
                    how = 'copy of the index of the equation it has just become a sibling of'
            rep.check(how is not None, 'C05.N1', '%s|%s' % (g.short.split('::')[-1], render(a)[:60]), g.where(a),
                      '%s: `%s` is neither a fresh number for an equation without index nor a copy of the index of the equation whose sibling it has just become' % (g.short, render(a)[:70]), how)
    if n_n1 < 2:
        raise AnalysisBroken('C05.N1: only %d writes of mNlaSystemIndex found in analyser.cpp (2 confirmed)' % n_n1)

    # ------------------------------------------------------------------ K1: one internal variable per equivalence class
    rep.rule('C05.K1', 'AnalyserImpl::internalVariable(v) returns the tracked variable of v\'s equivalence class whenever there is one: in its search loop, areEquivalentVariables(v, tracked) being true is SUFFICIENT for a hit '
                       '(decided by evaluating the loop\'s test with that atom true and every other atom false). A further conjunct ("not in the same component") makes a second internal variable for a class that already has one: '
                       'the class is then computed once and needed twice, and a valid model is reported underconstrained depending on the order of the components')
    from engines import value_of as _vo5k
    ivf = F.fn1('Analyser::AnalyserImpl::internalVariable')
    hits = [r for r in ivf.walk() if r.get('k') == 'Return' and ivf.enclosing_lambda(r) is None and any(a.get('k') in ('RangeFor', 'For', 'While') for a in ivf.ancestors(r))]
    # the same search written with std::find_if: the predicate lambda's return expression is the test
    lam_tests = [r['c'][0] for c in ivf.walk() if c.get('k') == 'Call' and (c.get('callee') or '') in ('std::find_if', 'std::any_of') for l_ in walk(c) if l_.get('k') == 'Lambda'
                 for r in walk(l_) if r.get('k') == 'Return' and r.get('c')]
    if not hits and not lam_tests:
        raise AnalysisBroken('internalVariable: no return inside the search loop')

    def _suff(e):
        """value of e when every areEquivalentVariables(...) atom is true and every other atom is false"""
        e = _vo5k(ivf, e)
        k_ = e.get('k')
        if k_ == 'Bin' and e.get('op') == '&&':
            return _suff(e['c'][0]) and _suff(e['c'][1])
        if k_ == 'Bin' and e.get('op') == '||':
            return _suff(e['c'][0]) or _suff(e['c'][1])
        if k_ == 'Un' and e.get('op') == '!':
            return not _suff(e['c'][0])
        if k_ == 'Bool':
            return bool(e.get('v'))
        return k_ == 'Call' and e.get('fn') == 'areEquivalentVariables'
    for t_ in lam_tests:
        okl = _suff(t_) and any(x.get('k') == 'Call' and x.get('fn') == 'areEquivalentVariables' for x in walk(t_))
        rep.check(okl, 'C05.K1', 'internalVariable|predicate %s' % render(t_)[:60], ivf.where(t_), 'internalVariable() does not find the tracked variable for every variable that is equivalent to it: the predicate `%s` can fail although areEquivalentVariables holds' % render(t_)[:80], 'equivalence alone decides')
    for r in hits:
        conds_ = [(cnd, br) for cnd, br, st in enclosing_conditions(ivf, r) if st.get('k') == 'If']
        okk = bool(conds_) and all((_suff(cnd) if br == 'then' else not _suff(cnd)) for cnd, br in conds_) and any(x.get('k') == 'Call' and x.get('fn') == 'areEquivalentVariables' for cnd, br in conds_ for x in walk(_vo5k(ivf, cnd)))
        rep.check(okk, 'C05.K1', 'internalVariable|hit under %s' % ' & '.join(render(cnd)[:50] for cnd, br in conds_)[:90], ivf.where(r),
                  'internalVariable() does not return the tracked variable for every variable that is equivalent to it: the test `%s` can fail although areEquivalentVariables holds' % ' & '.join(render(cnd)[:70] for cnd, br in conds_), 'equivalence alone decides')

