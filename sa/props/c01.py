"""C01 - no input can crash, hang or corrupt the processing pipeline (structural clauses)."""
import re

from facts import walk, render, role, is_call, null_test, AnalysisBroken
from engines import facts_x, render_x, rendered_conds_x, ff, nth_arg, receiver, path, is_this_like, unwrap_defarg
import exc
import recursion
from nullflow import nonnull_at

LEVEL = ('Necessary conditions of crash freedom decided on all paths of the library code (clang AST/CFG/call graph): (X) exception channels - every std::sto*, container .at(), std::string(const char*) '
         'from libxml2 data and recogniser is screened/handled, no throw; (M) libxml2 resources are released once on every exit and never used after release; (R) every recursive call-graph cycle that follows a '
         'reference which input can make cyclic (units by name, imports, equivalences) is dominated by a visited/history test or sits behind a verified gate; (G) the analyser runs only behind a clean validation, '
         'the generator behind a valid model, the parser behind a non-null root, flattening behind its import/definedness gates; (N) results of lookups that input can make null are tested before use. '
         'Absence of all undefined behaviour, libxml2 internals and memory exhaustion are not decided.')
ASSUMPTIONS = ['exceptions only originate from the standard-library primitives listed in rule X (libCellML has no throw; verified by X4)',
               'finite structures: XML trees, component hierarchies (acyclic by C09.A1) and equation ASTs are finite, so recursion along them terminates']

STO_EXEMPT = {}   # (an exemption for AnalyserImpl::powerValue was removed: the e-notation <cn>1<sep/>400</cn> passes validation and made std::stod throw; repaired by cb4ff39)
AT_EXEMPT = {
    'Logger::error|pFunc()->mIssues.at(pFunc()->mErrors.at(index))': 'positions stored in the level vectors are valid positions of mIssues (invariant kept by addIssue/removeError: rules C15.L2, C15.L5)',
    'Logger::warning|pFunc()->mIssues.at(pFunc()->mWarnings.at(index))': 'positions stored in the level vectors are valid positions of mIssues (rules C15.L2, C15.L5)',
    'Logger::message|pFunc()->mIssues.at(pFunc()->mMessages.at(index))': 'positions stored in the level vectors are valid positions of mIssues (rules C15.L2, C15.L5)',
    'Logger::LoggerImpl::removeError|mErrors.at(index)': 'internal primitive; its two callers loop from an errorCount() snapshot downwards (rule C15.L5)',
    'printConnections|variableMap.at(componentMapIndex1)': 'componentMap and variableMap are parallel vectors filled pairwise in buildMaps; the index advances with the iterator over componentMap',
    'printConnections|variableMap.at(componentMapIndex2)': 'same parallel-vector invariant (index starts at componentMapIndex1 + 1 with iterPair + 1)',
    'getVariableLocatedAt|stack.at(index)': 'index stacks are produced by indexStackOf/recordVariableEquivalences and always hold at least the variable index, so size() - 1 cannot wrap',
    'updateBaseUnitCount|unitMap.at(iter.first)': 'unitMap is seeded with every entry of baseUnitsList by unitsAreEquivalent and every base named by standardUnitsList is in baseUnitsList (rule C08.T4)',
    'XmlDoc::xmlError|mPimpl->mXmlErrors.at(index)': 'internal accessor; its only caller iterates index < xmlErrorCount()',
}
# recursive call sites that follow a reference without a visited test of their own but are only reachable behind a gate
REC_GATED = {
    'updateUnitsMap@units.cpp': 'only called from defineUnitsMap <- Units::compatible, after both units passed isDefined() (rule C08.G1); isDefined follows imports with a history and rejects missing references',
    'transferUnitsRenamingIfRequired@importer.cpp': 'only reached from Importer::flattenModel behind hasImportIssues()==false and model->isDefined() (rule C01.G4)',
    'flattenUnitsImports@importer.cpp': 'only reached from Importer::flattenModel behind hasImportIssues()==false and model->isDefined() (rule C01.G4)',
    'retrieveUnitsDependencies@importer.cpp': 'only reached from Importer::flattenModel behind hasImportIssues()==false and model->isDefined() (rule C01.G4)',
    'Analyser::AnalyserImpl::updateUnitsMap@analyser.cpp': 'analyser internals run only when the validator found no issue (rule C01.G1); the validator reports cyclic units',
    'Analyser::AnalyserImpl::updateUnitsMultiplier@analyser.cpp': 'analyser internals run only when the validator found no issue (rule C01.G1); the validator reports cyclic units',
}
REC_GATE_CALLERS = {
    # function -> the only functions outside its SCC that may call it
    'updateUnitsMap@units.cpp': {'defineUnitsMap'},
    'transferUnitsRenamingIfRequired@importer.cpp': {'flattenComponent', 'retrieveUnitsDependencies'},
    'flattenUnitsImports@importer.cpp': {'Importer::flattenModel', 'flattenComponent', 'retrieveUnitsDependencies'},
    'retrieveUnitsDependencies@importer.cpp': {'flattenUnitsImports'},
    'Analyser::AnalyserImpl::updateUnitsMap@analyser.cpp': {'Analyser::AnalyserImpl::analyseEquationUnits'},
    'Analyser::AnalyserImpl::updateUnitsMultiplier@analyser.cpp': {'Analyser::AnalyserImpl::analyseEquationUnits'},
}
XML_FREE = {'xmlFree', 'xmlFreeNs', 'xmlFreeDoc', 'xmlFreeDtd', 'xmlFreeParserCtxt', 'xmlBufferFree', 'xmlFreeURI', 'xmlFreeNode', 'xmlFreeProp'}
XML_ACQUIRE = {'xmlNewParserCtxt': 'xmlFreeParserCtxt', 'xmlBufferCreate': 'xmlBufferFree', 'xmlGetProp': 'xmlFree', 'xmlGetNsProp': 'xmlFree', 'xmlParseURI': 'xmlFreeURI',
               'xmlIOParseDTD': 'xmlFreeDtd', 'xmlBuildQName': 'xmlFree', 'xmlNodeGetContent': 'xmlFree'}
STRING_NULL_EXEMPT = {
    'XmlAttribute::namespacePrefix|string(mPimpl->mXmlAttributePtr->ns->prefix)': 'an attribute is in a namespace only through a prefix (XML namespaces: unprefixed attributes have no namespace), so ns->prefix is non-NULL whenever ns is, and ns is tested',
    'XmlAttribute::value|string(value)': 'xmlGetProp is asked for the very attribute node this object wraps (parent, name), so the property exists and libxml2 returns its (possibly empty) value, never NULL',
    'XmlNode::convertToString|string(buffer->content)': 'buffer comes from xmlBufferCreate(), whose content is an allocated, NUL-terminated array even when nothing was dumped',
}


def cname(n):
    """Callee name; libxml2's xmlFree is a global function pointer, so the call is unresolved by clang."""
    if n.get('callee') == '?' and n.get('c') and n['c'][0].get('k') == 'Ref':
        return n['c'][0].get('n')
    return n.get('callee')


def call_args(n):
    return n['c'][1:] if n.get('callee') == '?' else n.get('c', [])


def fkey(f):
    return '%s@%s' % (f.short, f.file.split('/')[-1])


def run(F, rep):
    # ------------------------------------------------------------------ X: exception channels
    rep.rule('C01.X1', 'every std::sto* call handles out_of_range and is screened by the recogniser of its kind (here or in every caller), or handles both exception types')
    n = exc.sto_rule(F, rep, 'C01.X1', STO_EXEMPT)
    if n < 4:
        raise AnalysisBroken('C01.X1: %d sto* sites, 4 confirmed (utilities.cpp x2, units.cpp, validator.cpp)' % n)
    rep.rule('C01.X2', 'every container .at() is a lookup in an exhaustive enum table, or is dominated by a bound/membership test of the same container, or is screened in every caller')
    n = exc.at_rule(F, rep, 'C01.X2', AT_EXEMPT, enum_exempt=('UNSPECIFIED',),
                    parallel={('printConnections', 'variableMap'): ('componentMap', 'componentMap and variableMap are parallel vectors filled pairwise in buildMaps')})
    if n < 60:
        raise AnalysisBroken('C01.X2: %d .at() sites, 69 confirmed' % n)
    rep.rule('C01.X3', 'recognisers are not vacuous: std::all_of over a string is preceded by a non-empty test of that string after its last mutation')
    exc.nonvacuity_rule(F, rep, 'C01.X3')
    rep.rule('C01.X4', 'no throw expression in src')
    exc.throw_rule(F, rep, 'C01.X4')

    rep.rule('C01.X5', 'std::string is never constructed from a libxml2 character pointer that can be NULL (results of xmlGetProp/xmlDocDump*/buffer content, optional struct fields) without a non-null test')
    n5 = 0
    for f in sorted(F.funcs.values(), key=lambda f: (f.file, f.line)):
        if not re.search(r'xml\w*\.cpp$', f.file):
            continue
        for n_ in f.walk():
            src = None
            if n_.get('k') == 'Construct' and n_.get('cls') == 'std::basic_string' and len(n_.get('c', [])) == 1:
                a = n_['c'][0]
                if a.get('k') == 'Cast' and 'char' in a.get('t', '') and a.get('c'):
                    src = a['c'][0]
            if src is None:
                continue
            n5 += 1
            k = '%s|string(%s)' % (f.short, render(src))
            if k in STRING_NULL_EXEMPT:
                rep.exempt('C01.X5', k, STRING_NULL_EXEMPT[k])
                continue
            t = render(src)
            nn = nonnull_at(f, n_) or set()
            # struct fields that libxml2 guarantees non-NULL for the node kinds used: name of element/attribute nodes, href of namespace nodes
            fieldname = src.get('n') if src.get('k') == 'Member' else None
            # struct fields that libxml2 guarantees non-NULL: the name of an attribute node and the href of a namespace node.  The name of a
            # general node is NOT guaranteed (CDATA sections have none) - an earlier version of this rule assumed it was; see DESIGN.md 6.4.
            if (fieldname == 'name' and 'Attribute' in t) or fieldname == 'href':
                rep.ok('C01.X5', k, f.where(n_), 'libxml2 guarantees a non-NULL %s for this node kind' % fieldname)
                continue
            rc5 = ff(f).rendered_conds_at(n_) or set()
            # xmlGetProp(node, name) under hasAttribute(name) returns the existing property
            guarded_prop = False
            if src.get('k') == 'Ref' and src.get('dk') == 'local':
                for v in f.walk():
                    if v.get('k') == 'Var' and v.get('d') == src['d'] and v.get('c') and v['c'][0].get('callee') == 'xmlGetProp':
                        guarded_prop = any(t_ and c_.startswith('hasAttribute(') for c_, t_ in rc5)
            good = path(src) in nn or t in nn or guarded_prop
            rep.check(good, 'C01.X5', k, f.where(n_), 'std::string(%s): the pointer can be NULL (libxml2 returns NULL on failure / for an absent value) and is not tested; constructing std::string from nullptr throws std::logic_error' % t,
                      'null-tested')
    if n5 < 8:
        raise AnalysisBroken('C01.X5: %d string-from-xml-pointer sites, 10 confirmed' % n5)

    # ------------------------------------------------------------------ M: libxml2 memory discipline
    rep.rule('C01.M1', 'a pointer passed to a libxml2 free function is not read again on any path before it is reassigned (no use after release)')
    rep.rule('C01.M2', 'every libxml2 acquisition held in a local (parser context, buffer, property value, URI, DTD) is released by the matching free function on every path to the function exit')
    n_free = 0
    n_acq = 0
    for f in sorted(F.funcs.values(), key=lambda f: (f.file, f.line)):
        if not re.search(r'xml\w*\.cpp$', f.file):
            continue
        cfg = f.cfg()
        if cfg is None:
            continue
        for n_ in f.walk():
            if n_.get('k') == 'Call' and cname(n_) in XML_FREE and call_args(n_):
                a = call_args(n_)[0]
                while a.get('k') in ('Cast', 'Construct') and a.get('c'):
                    a = a['c'][0]
                if a.get('k') != 'Ref' or a.get('dk') not in ('local', 'parm'):
                    continue
                n_free += 1
                d = a['d']
                # forward search from the free: first event on each path is either a write to d (fine) or a read (violation)
                pos = cfg.block_of(n_)
                bad = None
                if pos:
                    def scan(blk, start):
                        for e in blk['el'][start:]:
                            x = f.nodes.get(e)
                            if x is None:
                                continue
                            if x.get('k') in ('Bin', 'Call') and (x.get('op') == '=' or x.get('opc') == '=') and x.get('c') and x['c'][0].get('k') == 'Ref' and x['c'][0].get('d') == d:
                                return 'write', x
                            if x.get('k') == 'Ref' and x.get('d') == d:
                                p = f.parent(x)
                                if p is not None and p.get('k') in ('Bin',) and p.get('op') == '=' and p['c'][0] is x:
                                    continue
                                return 'read', x
                        return None, None
                    r, x = scan(cfg.blocks[pos[0]], pos[1] + 1)
                    if r == 'read':
                        bad = x
                    elif r is None:
                        seen = set()
                        st = list(cfg.succ[pos[0]])
                        while st and bad is None:
                            b = st.pop()
                            if b in seen:
                                continue
                            seen.add(b)
                            r, x = scan(cfg.blocks[b], 0)
                            if r == 'read':
                                bad = x
                            elif r is None:
                                st.extend(cfg.succ[b])
                rep.check(bad is None, 'C01.M1', '%s|%s(%s)' % (f.short, cname(n_), a['n']), f.where(n_),
                          '`%s` is read at line %s after it was released by %s at line %s (use after free)' % (a['n'], bad.get('l') if bad else '?', cname(n_), n_.get('l')), 'not read again before reassignment')
    # acquisitions: acquire ... release on every path, also when the two halves live in file-local helpers (the helper that returns what it
    # acquired hands the obligation to its callers; a helper that frees its parameter discharges it)
    from engines import pairing_with_helpers

    def _acq(c):
        return XML_ACQUIRE[c['callee']] if c.get('callee') in XML_ACQUIRE and (f_par(c) is not None) else None

    def f_par(c):
        return c

    def _rel(c):
        return cname(c) if cname(c) in set(XML_ACQUIRE.values()) else None
    xfs = [f for f in F.funcs.values() if re.search(r'xml\w*\.cpp$', f.file)]
    for f, c, k_, ok, how in pairing_with_helpers(F, xfs, _acq, _rel):
        # only acquisitions held in a local (ownership handed to a document/tree is not held locally)
        p_ = f.parent(c)
        direct = c.get('callee') in XML_ACQUIRE
        if direct and not (p_ is not None and p_.get('k') == 'Var'):
            continue
        n_acq += 1
        rep.check(ok, 'C01.M2', '%s|%s->%s' % (f.short, c.get('callee') or c.get('fn'), p_['n'] if p_ is not None and p_.get('k') == 'Var' else '?'), f.where(c),
                  'what %s acquires here is not released by %s on every path to the exit' % (c.get('callee') or c.get('fn'), k_), 'released on every path (%s)' % how)
    if n_free < 5 or n_acq < 5:
        raise AnalysisBroken('C01.M: %d frees / %d acquisitions found (5/7 confirmed)' % (n_free, n_acq))

    # ------------------------------------------------------------------ R: recursion over cyclic relations
    rep.rule('C01.R1', 'every recursive call that follows a units reference, an import or a variable equivalence is dominated by a visited/history test whose container is handed on (or the callee starts with one, '
                       'or the import step is under isResolved()/isDefined() of the same object), or the function is reachable only behind a verified gate')
    S = recursion.sites(F)
    sccs = F.sccs()
    if len(sccs) < 60:
        raise AnalysisBroken('recursive SCCs: %d found, 83 confirmed' % len(sccs))
    rep.extra['recursion'] = {'sccs': len(sccs), 'recursive_call_sites': len(S), 'reference_step_sites': sum(1 for s in S if s[4])}
    scc_of = {}
    for i, comp in enumerate(sccs):
        for k in comp:
            scc_of[k] = i

    def callee_side_guard(g, comp):
        """Every outgoing recursive call of g is visited-guarded inside g."""
        outs = [n for n in g.walk() if n.get('k') == 'Call' and any(ck in comp for ck in F.callee_keys(n))]
        return bool(outs) and all(recursion.visited_guard(F, g, n) for n in outs)
    counters = {}
    for i, f, g, call, kinds in S:
        if not kinds:
            continue
        comp = set(sccs[i])
        kk = '+'.join(sorted(kinds))
        base = '%s->%s|%s' % (fkey(f), g.short.split('::')[-1], kk)
        ec = [c for c, t in (ff(f).conds_at(call) or [])]
        under = ''
        for c, t in (ff(f).conds_at(call) or []):
            if c.get('k') == 'Call' and c.get('fn') in ('isImport', 'isStandardUnitName', 'hasUnits'):
                under = '|under %s%s' % ('' if t else 'not ', c['fn'])
        base += under
        counters[base] = counters.get(base, 0) + 1
        key = base + ('#%d' % counters[base] if counters[base] > 1 else '')
        how = recursion.visited_guard(F, f, call)
        if not how and callee_side_guard(g, comp) and g is not f:
            how = 'the callee %s tests its history before every recursive step' % g.short
        if not how and kinds <= {'import', 'units-reference', 'component-by-name'} and 'import' in kinds:
            rc = ff(f).rendered_conds_at(call) or set()
            res = [c for c, t in rc if t and (c.endswith('->isResolved()') or c.endswith('->isDefined()'))]
            # the import step is the only reference step actually taken on this branch when the call is under isImport()
            imp_branch = any(t and c.endswith('->isImport()') for c, t in rc)
            if res and imp_branch:
                how = 'import step under %s (import cycles are rejected there with a history)' % res[0]
        if how and 'equivalence' in kinds:
            # a network of variable equivalences is an undirected graph: the list must be a VISITED set, i.e. only ever extended.  With a path set
            # (entries removed on the way back) the search still terminates but enumerates every simple path - factorial in a fully connected network
            conts_ = [p_ for p_ in f.params if 'std::vector<' in p_['t'] and p_['t'].rstrip().endswith('&')]
            shr = [c_ for c_ in f.walk() if c_.get('k') == 'Call' and c_.get('mc') and c_.get('fn') in ('pop_back', 'erase', 'clear', 'resize') and c_['c'][0].get('k') == 'Ref' and any(c_['c'][0].get('d') == p_['d'] for p_ in conts_)]
            if shr:
                rep.fail('C01.R1', key + '|visited-set-shrinks', f.where(shr[0]), '%s removes entries from its visited list (`%s`): the search along variable equivalences then enumerates every simple path of the network (14 fully connected variables: ~10^10 steps), a hang for a small valid model'
                         % (f.short, render(shr[0])[:40]))
                continue
        if how:
            rep.ok('C01.R1', key, f.where(call), how)
            continue
        if fkey(f) in REC_GATED:
            rep.exempt('C01.R1', key, REC_GATED[fkey(f)])
            continue
        rep.fail('C01.R1', key, f.where(call),
                 '%s recurses along a %s step (%s) with no visited/history test: a cyclic input (e.g. units a -> b -> a) exhausts the stack' % (f.short, kk, render(call)[:70]))
    # gated functions keep their frozen set of outside callers
    for fk_, allowed in REC_GATE_CALLERS.items():
        fs = [x for x in F.funcs.values() if fkey(x) == fk_]
        if not fs:
            raise AnalysisBroken('gated recursive function vanished: ' + fk_)
        f = fs[0]
        comp = set(sccs[scc_of[f.key]]) if f.key in scc_of else {f.key}
        outside = {F.funcs[c].short for c in F.callers.get(f.key, ()) if c not in comp or True} - {f.short}
        rep.check(outside <= allowed, 'C01.R1', 'gate-callers|' + fk_, f.where(), '%s has callers outside the verified gate: %s' % (f.short, sorted(outside - allowed)), 'callers %s' % sorted(outside))

    # ------------------------------------------------------------------ G: gates
    rep.rule('C01.G1', 'AnalyserImpl::analyseModel is called only where Validator::validateModel ran on the same model, its issues were copied, and issueCount() == 0')
    am = F.fn1('libcellml::Analyser::analyseModel')
    inner = [c for c in am.walk() if c.get('k') == 'Call' and c.get('fn') == 'analyseModel' and c.get('cls', '').endswith('AnalyserImpl')]
    if len(inner) != 1:
        raise AnalysisBroken('Analyser::analyseModel: inner call not found')
    rc = rendered_conds_x(am, inner[0]) or set()
    val = [c for c in am.walk() if c.get('k') == 'Call' and c.get('fn') == 'validateModel']
    copy = [c for c in am.walk() if c.get('k') == 'Call' and c.get('fn') == 'addIssue' and 'validator->issue(' in render(c)]
    okc = False
    for c in copy:
        loops = [a for a in am.ancestors(c) if a.get('k') == 'For']
        okc = okc or (bool(loops) and 'validator->issueCount()' in render_x(am, role(loops[0], 'cond')))
    rep.check(('issueCount() == 0', True) in rc, 'C01.G1', 'analyse-only-without-issues', am.where(inner[0]), 'the analysis proper is not guarded by issueCount() == 0 (facts: %s)' % sorted(rc), 'guarded by issueCount() == 0')
    rep.check(bool(val) and am.cfg().node_dominates(val[0], inner[0]) and render(nth_arg(val[0], 0)) == render(nth_arg(inner[0], 0)), 'C01.G1', 'validated-first', am.where(), 'validateModel(model) does not dominate the analysis of the same model', 'validator runs first on the same model')
    rep.check(okc, 'C01.G1', 'validator-issues-copied', am.where(), 'validator issues are not all copied into the analyser (loop over validator->issueCount())', 'all validator issues copied before the issueCount() test')
    # nothing removes issues between the copy and the test
    rm = [c for c in am.walk() if c.get('k') == 'Call' and c.get('fn') in ('removeAllIssues', 'removeError') and val and am.cfg().node_dominates(val[0], c)]
    rep.check(not rm, 'C01.G1', 'no-issue-removal-after-validation', am.where(), 'issues are removed after validation', 'no removal after validation')

    rep.rule('C01.G4b', 'inside AnalyserImpl::analyseModel the equations\' ASTs are analysed only if the component pass reported no error: every call of analyseEquationAst from analyseModel is reached only where errorCount() != 0 was found false '
                        '(a root-level <ci> is reported by the component pass and would otherwise be dereferenced through its missing parent)')
    aim = F.fn1('Analyser::AnalyserImpl::analyseModel')
    aec = [c for c in aim.walk() if c.get('k') == 'Call' and c.get('fn') == 'analyseEquationAst']
    if not aec:
        raise AnalysisBroken('analyseModel: call of analyseEquationAst vanished')
    for c in aec:
        rc_ = facts_x(F, aim, c)
        rep.check(any(('errorCount() != 0' in t_ and not v_) or ('errorCount() == 0' in t_ and v_) for t_, v_ in rc_), 'C01.G4b', 'analyseModel|ast-pass-after-error-gate', aim.where(c),
                  'analyseEquationAst is reached although the component pass may have reported errors (no `errorCount() != 0` gate holds here)', 'behind the errorCount() gate')

    rep.rule('C01.G2', 'Generator::interfaceCode/implementationCode return {} before touching the model when model or profile is null or the model is not valid')
    for nm in ('interfaceCode', 'implementationCode'):
        g = F.fn1('libcellml::Generator::' + nm)
        first = [c for c in g.walk() if c.get('k') == 'Call' and c.get('mc') and c.get('fn') in ('reset', 'addOriginCommentCode')]
        if not first:
            raise AnalysisBroken('Generator::%s: emission start not found' % nm)
        rc = facts_x(F, g, first[0])
        need = [('mPimpl->mModel == nullptr', False), ('mPimpl->mProfile == nullptr', False), ('mPimpl->mModel->isValid()', True)]
        miss = [x for x in need if x not in rc]
        rep.check(not miss, 'C01.G2', 'Generator::%s' % nm, g.where(first[0]), 'code emission starts without the gate conditions %s' % miss, 'gated by non-null model/profile and isValid()')

    rep.rule('C01.G3', 'ParserImpl::loadModel returns before touching the root node when the document has none; XmlDoc::parse installs the structured-error handler before reading')
    lm = F.fn1('Parser::ParserImpl::loadModel')
    root = [v for v in lm.walk() if v.get('k') == 'Var' and v.get('c') and 'rootNode()' in render(v['c'][0])]
    if not root:
        raise AnalysisBroken('loadModel: rootNode() variable not found')
    rn = root[0]
    uses = [c for c in lm.walk() if c.get('k') == 'Call' and c.get('opc') in ('->', '*') and c['c'][0].get('k') == 'Ref' and c['c'][0].get('d') == rn['d'] and lm.enclosing_lambda(c) is None]
    bad = [c for c in uses if rn['n'] not in (nonnull_at(lm, c) or set())]
    rep.check(bool(uses) and not bad, 'C01.G3', 'loadModel|root-node', lm.where(rn), 'root node `%s` is dereferenced at line(s) %s without a null test' % (rn['n'], sorted({c.get('l') for c in bad})), '%d uses, all after the null test' % len(uses))
    for nm in ('parse', 'parseMathML'):
        xp = F.fn1('libcellml::XmlDoc::' + nm)
        seth = [c for c in xp.walk() if c.get('k') == 'Call' and (c.get('callee') == 'xmlSetStructuredErrorFunc'
                                                                 or any(ck in F.funcs and F.funcs[ck].file == xp.file and any(y.get('k') == 'Call' and y.get('callee') == 'xmlSetStructuredErrorFunc' and y.get('c') and render(y['c'][-1]) != 'nullptr' for y in F.funcs[ck].walk()) for ck in F.callee_keys(c)))]
        rd = [c for c in xp.walk() if c.get('k') == 'Call' and c.get('callee') in ('xmlCtxtReadDoc', 'xmlReadDoc', 'xmlParseDoc')]
        if not rd:
            raise AnalysisBroken('XmlDoc::%s: no libxml2 read call' % nm)
        rep.check(bool(seth) and all(xp.cfg().node_dominates(seth[0], r) for r in rd), 'C01.G3', 'XmlDoc::%s|error-handler-first' % nm, xp.where(), 'libxml2 errors are not captured before the document is read', 'handler installed before reading')

    rep.rule('C01.G4', 'Importer::flattenModel clones and flattens only after the null test, hasImportIssues(model) == false and model->isDefined()')
    fm = F.fn1('libcellml::Importer::flattenModel')
    work = [c for c in fm.walk() if c.get('k') == 'Call' and c.get('fn') in ('clone', 'flattenUnitsImports', 'flattenComponentImports')]
    if len(work) < 3:
        raise AnalysisBroken('flattenModel: clone/flatten calls not found')
    for c in work:
        rc = ff(fm).rendered_conds_at(c) or set()
        need = [('model == nullptr', False), ('pFunc()->hasImportIssues(model)', False), ('model->isDefined()', True)]
        miss = [x for x in need if x not in rc]
        rep.check(not miss, 'C01.G4', 'flattenModel|%s' % c['fn'], fm.where(c), '%s is reachable without %s' % (c['fn'], miss), 'behind the three gates')

    # ------------------------------------------------------------------ N: nullable results
    import nullres
    nullres.run(F, rep, 'C01.N1', kinds=('rootNode', 'importSource.model', 'units(name)', 'variable(name)', 'component(name)', 'ast.parent', 'owningComponent', 'owningModel', 'parent', 'mathmlChildNode', 'variable.units', 'nonCommentChildNode', 'weak.lock'))

    # ------------------------------------------------------------------ V: what the validator checks is what the later stages use
    rep.rule('C01.V1', 'the text of a <ci>/<cn> token is obtained through the comment-skipping accessors (nonCommentChildNode/-Count, mathmlChild*) both where the validator checks the variable name and where the analyser builds its AST: '
                       'firstChild()/next() would pick a comment, the check would pass vacuously and the analyser would dereference the variable it cannot find')
    an = F.fn1('Analyser::AnalyserImpl::analyseNode')
    n_v = 0
    for tok in ('ci', 'cn'):
        sites = []
        for cnd, node_if in [(role(i, 'cond'), i) for i in an.walk() if i.get('k') == 'If']:
            if cnd is not None and render(cnd) == 'node->isMathmlElement("%s")' % tok:
                sites.append(role(node_if, 'then'))
        if len(sites) != 1:
            raise AnalysisBroken('analyseNode: branch for <%s> vanished (%d)' % (tok, len(sites)))
        def _from_node(c_):
            root = render(receiver(c_)).split('->')[0].split('(')[0]
            if root == 'node':
                return True
            for v_ in an.walk():      # a local that holds a child of the token (`auto valueNode = nonCommentChildNode(node, 0);`)
                if v_.get('k') == 'Var' and v_.get('n') == root and v_.get('c') and any(x.get('k') == 'Ref' and x.get('n') == 'node' for x in walk(v_['c'][0])):
                    return True
            return False
        raw = [c for c in walk(sites[0]) if c.get('k') == 'Call' and c.get('mc') and c.get('fn') in ('firstChild', 'next') and _from_node(c) and 'parent()' not in render(c)]
        good = [c for c in walk(sites[0]) if c.get('k') == 'Call' and c.get('fn') in ('nonCommentChildNode', 'mathmlChildNode')]
        n_v += 1
        rep.check(not raw and bool(good), 'C01.V1', 'analyser|' + tok, an.where(sites[0]), 'analyseNode reads the content of <%s> with %s: a leading comment is taken for the content' % (tok, sorted({render(c)[:40] for c in raw}) or 'no comment-skipping accessor'), 'comment-skipping accessor')
    vci = F.fn1('Validator::ValidatorImpl::validateAndCleanCiNode')
    raw = [c for c in vci.walk() if c.get('k') == 'Call' and c.get('mc') and c.get('fn') in ('firstChild', 'next')]
    good = [c for c in vci.walk() if c.get('k') == 'Call' and c.get('fn') in ('nonCommentChildNode', 'mathmlChildNode')]
    rep.check(not raw and bool(good), 'C01.V1', 'validator|ci name check', vci.where(), 'validateAndCleanCiNode looks for the variable name with %s: for <ci><!-- c -->name</ci> nothing is checked' % sorted({render(c)[:40] for c in raw}), 'comment-skipping accessor')
    rep.exempt('C01.V1', 'validator|cn text', 'validateAndCleanCnNode uses the first child only to quote the number in a message; the format of the number is checked through nonCommentChildNode in validateMathMLElementsChildrenAndSiblings')

    rep.rule('C01.V2', 'wherever the text of an initial value that is not a number is looked up as a variable name, "is a number" is decided by isCellMLReal - the predicate of the validator rule that guarantees the variable exists; '
                       'a different predicate (e.g. one that also depends on the range of double) sends valid numbers to the lookup')
    n_v2 = 0
    for g in F.funcs.values():
        if not g.file.endswith(('/generator.cpp', '/analyser.cpp', '/validator.cpp')):
            continue
        for i in g.walk():
            if i.get('k') != 'If':
                continue
            cnd = role(i, 'cond')
            preds = [c for c in walk(cnd) if c.get('k') == 'Call' and not c.get('opc') and not c.get('mc') and (c.get('callee') or '').startswith('libcellml::') and any('initialValue()' in render(a) for a in c.get('c', []))] if cnd is not None else []
            if not preds:
                continue
            # a lookup of that text as a variable name in the other branch / after an early return
            other = [x for r_ in ('then', 'else') for x in walk(role(i, r_) or {})]
            rest = [x for x in g.walk() if x.get('l', 0) > i.get('l', 0)]
            looks = [c for c in other + rest if c.get('k') == 'Call' and c.get('mc') and c.get('fn') == 'variable' and any('initialValue()' in render(a) for a in c['c'][1:])]
            if not looks:
                continue
            n_v2 += 1
            names = sorted({c.get('fn') for c in preds})
            rep.check(names == ['isCellMLReal'], 'C01.V2', '%s|%s' % (g.short.split('::')[-1], '+'.join(names)), g.where(i),
                      '%s decides with %s whether an initial value is a number, and looks the text up as a variable name otherwise; the validator guarantees that variable only for text that is not a CellML real (isCellMLReal)' % (g.short, names), 'isCellMLReal')
    if n_v2 < 1:
        raise AnalysisBroken('C01.V2: no number-or-reference decision on an initial value found (generateDoubleOrConstantVariableNameCode confirmed)')

    rep.rule('C01.N3', 'contradiction rule: a local pointer that the function itself compares with nullptr somewhere (so it can be null there) is dereferenced only where a non-null fact holds; '
                       'locals that are reassigned after their initialisation are not tracked')
    N3_EXEMPT = {
        'Analyser::AnalyserImpl::analyseEquationAst|astParent': 'runs after the error gate of analyseModel: every equation root is EQUALITY, and the CI/CN nodes whose parent is read here are never roots (same invariant as C01.N1 ast.parent)',
        'Analyser::AnalyserImpl::analyseEquationAst|astGrandparent': 'read only for a CN under DEGREE (parent type tested first); DEGREE nodes are children of BVAR/ROOT nodes, never roots behind the error gate',
        'mathmlChildNode|res': 'every caller asks for a child index below mathmlChildCount(node) (the validator checks the child counts of every MathML element before the analyser runs), so the first child exists',
    }
    n_n3 = 0
    for g in sorted(F.funcs.values(), key=lambda f_: (f_.file, f_.line)):
        tested = {}
        for n_ in g.walk():
            nt = null_test(n_) if n_.get('k') in ('Call', 'Bin', 'Un') else None
            if nt and nt[0].get('k') == 'Ref' and nt[0].get('dk') == 'local':
                tested[nt[0]['d']] = nt[0]['n']
        if not tested:
            continue
        reass = {x['c'][0]['d'] for x in g.walk() if ((x.get('k') == 'Call' and x.get('opc') == '=') or (x.get('k') == 'Bin' and x.get('op') == '=')) and x.get('c') and x['c'][0].get('k') == 'Ref' and x['c'][0].get('d') in tested}
        bad = {}
        for n_ in g.walk():
            if n_.get('k') == 'Call' and n_.get('opc') in ('->', '*') and n_['c'][0].get('k') == 'Ref' and n_['c'][0].get('d') in tested and n_['c'][0]['d'] not in reass and g.enclosing_lambda(n_) is None:
                n_n3 += 1
                nn = nonnull_at(g, n_)
                if nn is None or n_['c'][0]['n'] in nn:
                    continue
                bad.setdefault(n_['c'][0]['n'], n_)
        for nm, n_ in sorted(bad.items()):
            key = '%s|%s' % (g.short, nm)
            if key in N3_EXEMPT:
                rep.exempt('C01.N3', key, N3_EXEMPT[key])
            else:
                rep.fail('C01.N3', key, g.where(n_), '%s compares `%s` with nullptr elsewhere but dereferences it here (`%s`) on a path where nothing says it is non-null' % (g.short, nm, render(g.parent(n_) or n_)[:50]))
    rep.ok('C01.N3', 'scan', None, '%d dereferences of null-tested locals examined' % n_n3)
    if n_n3 < 80:
        raise AnalysisBroken('C01.N3: only %d dereferences of null-tested, not reassigned locals (118 confirmed)' % n_n3)

    rep.rule('C01.L1', 'libxml2 parses untrusted text with its safety limits on: the options handed to xmlCtxtReadDoc/xmlReadMemory/xmlReadDoc are 0 or taken from a harmless set; XML_PARSE_HUGE (no limits: entity amplification), '
                       'XML_PARSE_NOENT/DTDLOAD/DTDATTR/XINCLUDE (entity substitution, external subsets) are not used')
    SAFE_OPTS = {'XML_PARSE_NOBLANKS', 'XML_PARSE_NONET', 'XML_PARSE_NOERROR', 'XML_PARSE_NOWARNING', 'XML_PARSE_PEDANTIC', 'XML_PARSE_COMPACT', 'XML_PARSE_NOCDATA'}
    n_l = 0
    for g in F.funcs.values():
        if not re.search(r'xml\w*\.cpp$', g.file):
            continue
        for c in g.walk():
            if c.get('k') == 'Call' and cname(c) in ('xmlCtxtReadDoc', 'xmlCtxtReadMemory', 'xmlReadMemory', 'xmlReadDoc', 'xmlCtxtReadFile', 'xmlReadFile', 'xmlCtxtUseOptions'):
                n_l += 1
                opt = c['c'][-1]
                flags = {x['n'] for x in walk(opt) if x.get('k') == 'Ref' and x.get('dk') == 'enumc'}
                lit0 = opt.get('k') == 'Int' and opt.get('v') == 0
                rep.check(lit0 or (flags and flags <= SAFE_OPTS and not any(x.get('k') == 'Ref' and x.get('dk') != 'enumc' for x in walk(opt))), 'C01.L1', '%s|%s' % (g.short, cname(c)), g.where(c),
                          '%s parses with options `%s`: %s switch off the limits that protect against hostile documents' % (g.short, render(opt)[:50], sorted(flags - SAFE_OPTS) or 'non-constant options'), 'options %s' % (render(opt)[:30]))
    if n_l < 2:
        raise AnalysisBroken('C01.L1: libxml2 parse calls vanished (%d found, 2 confirmed)' % n_l)

    rep.rule('C01.N2', 'a model taken out of the importer\'s library (which the public API can fill with null models) is null-tested before fetchModel hands it to ImportSource::setModel and reports success; '
                       'resolveImports dereferences the model of every import source whose fetch succeeded')
    fm_ = F.fn1('Importer::ImporterImpl::fetchModel')
    from engines import single_def as _sd

    def _from_library(e):
        if 'mLibrary' in render(e):
            return True
        def _defs(d):
            out = [v['c'][0] for v in fm_.walk() if v.get('k') == 'Var' and v.get('d') == d and v.get('c')]
            out += [a['c'][1] for a in fm_.walk() if a.get('k') == 'Call' and a.get('opc') == '=' and len(a.get('c', [])) == 2 and a['c'][0].get('k') == 'Ref' and a['c'][0].get('d') == d]
            return out
        # a local (an iterator, a reference) every definition of which looks into the library
        return any(x.get('k') == 'Ref' and x.get('dk') == 'local' and _defs(x.get('d')) and all('mLibrary' in render(d_) for d_ in _defs(x.get('d'))) for x in walk(e))
    reads = [c for c in fm_.walk() if c.get('k') == 'Call' and c.get('opc') == '=' and c['c'][0].get('k') == 'Ref' and (c['c'][0].get('t') or '').replace('const ', '').startswith('std::shared_ptr<libcellml::Model>') and _from_library(c['c'][1])]
    sets = [c for c in fm_.walk() if c.get('k') == 'Call' and c.get('fn') == 'setModel']
    if not reads or len(sets) != 1:
        raise AnalysisBroken('fetchModel: library read / setModel vanished (%d reads, %d setModel)' % (len(reads), len(sets)))
    cfg_ = fm_.cfg()
    for rd in reads:
        var = rd['c'][0]
        tests = []
        for i_ in fm_.walk():
            if i_.get('k') != 'If':
                continue
            nt = null_test(role(i_, 'cond'))
            if nt is None or nt[0].get('k') != 'Ref' or nt[0].get('d') != var.get('d'):
                continue
            branch = role(i_, 'then') if not nt[1] else role(i_, 'else')
            leaves = branch is not None and any(x.get('k') == 'Return' and x.get('c') and render(x['c'][0]) == 'false' for x in walk(branch))
            if leaves and cfg_.node_dominates(rd, role(i_, 'cond')):
                tests.append(i_)
        rep.check(bool(tests), 'C01.N2', 'fetchModel|%s' % render(rd)[:40], fm_.where(rd), 'fetchModel takes `%s` and hands it to setModel without a null test that returns false: a null library entry is reported as a successful fetch and dereferenced by resolveImports' % render(rd)[:40],
                  'null-tested (returns false) before setModel')

    # ------------------------------------------------------------------ clause shared with C07: the library only holds models of files that were read successfully
    import core
    import c07
    if not getattr(rep, 'nested', False):
        core.borrow(F, rep, c07, only={'C07.L1'})

    # ------------------------------------------------------------------ R2: self-recursion makes progress (library-wide)
    import recursion as _rec
    rep.rule('C01.A1', 'the analyser and the generator take MathML apart assuming the operands are there; that assumption is discharged by the validator: every branch of the element dispatch in validateMathMLElementsChildrenAndSiblings '
                       'checks the number of children or siblings of its elements (a has...MathmlChild(ren)/Sibling(s) helper) or their content; an operator branch (isFirstMathmlSibling) guarantees at least one operand, '
                       'and the operators the generator emits as two-argument functions (min, max, rem, divide, power) at least two')
    vd = F.fn1('Validator::ValidatorImpl::validateMathMLElementsChildrenAndSiblings')
    tops = [n for n in vd.walk() if n.get('k') == 'If' and not any(a.get('k') == 'If' for a in vd.ancestors(n))]
    if not tops:
        raise AnalysisBroken('validateMathMLElementsChildrenAndSiblings: element dispatch vanished')
    n_ = tops[0]
    n_a = 0
    seen_els = set()
    while n_ is not None and n_.get('k') == 'If':
        els = re.findall(r'isMathmlElement\("(\w+)"\)', render(role(n_, 'cond')))
        th = role(n_, 'then')
        calls = {c.get('fn') for c in walk(th) if c.get('k') == 'Call' and c.get('fn')}
        counts = {c for c in calls if re.match(r'^has(One|Two|AtLeastOne|AtLeastTwo|OneOrTwo)Mathml(Sibling|Siblings|Child|Children)$', c)}
        n_ = role(n_, 'else')
        if not els:
            continue
        n_a += 1
        seen_els |= set(els)
        key = '|'.join(els[:3]) + ('..' if len(els) > 3 else '')
        if els == ['piecewise']:
            rep.check('validateMathMLElementsChildrenAndSiblings' in calls, 'C01.A1', key + '|children validated', vd.where(th), 'the children of piecewise are not validated', 'pieces validated (the missing "at least one child" check is a known finding of C01.N1)')
            continue
        rep.check(bool(counts) or 'addMathmlIssue' in calls, 'C01.A1', key + '|arity checked', vd.where(th), 'the branch for %s checks neither the number of children/siblings nor the content of the element: an application with missing operands passes validation and is dereferenced by the analyser/generator' % els,
                  'checked by %s' % sorted(counts or {'addMathmlIssue'}))
        # a branch that admits element children of its element (a has...MathmlChild(ren)(node, ..) test on the node itself) hands them on to the same validation: otherwise what is
        # nested below it (the <ci> and <degree> of a bvar) is never checked, and an empty <ci/> there reaches the analyser
        child_tests = [c for c in walk(th) if c.get('k') == 'Call' and re.match(r'^has(One|Two|AtLeastOne|AtLeastTwo|OneOrTwo)Mathml(Child|Children)$', c.get('fn') or '') and render(nth_arg(c, 0)) == 'node']
        if child_tests:
            rep.check('validateMathMLElementsChildrenAndSiblings' in calls, 'C01.A1', key + '|children validated', vd.where(th), 'the branch for %s admits child elements (%s) but does not validate them: whatever is nested below is accepted unchecked' % (els, child_tests[0].get('fn')),
                      'children handed on to the same validation')
        if set(els) & {'min', 'max', 'rem', 'divide', 'power'}:
            rep.check(bool(counts & {'hasTwoMathmlSiblings', 'hasAtLeastTwoMathmlSiblings'}), 'C01.A1', key + '|two operands', vd.where(th), '%s is emitted as a two-argument function/operator but the validator guarantees only %s' % (els, sorted(counts)), 'at least two operands')
    if n_a < 20 or not {'min', 'max', 'rem', 'plus', 'piece', 'bvar'} <= seen_els:
        raise AnalysisBroken('C01.A1: only %d element branches found (25 confirmed)' % n_a)
    _rec.rule_progress(F, rep, 'C01.R2', lambda g: '/src/' in g.file, 60, 'the library')
    _rec.rule_stack_discipline(F, rep, 'C01.S1', lambda g: '/src/' in g.file, 8, 'the library')
    # A2: the "how many children" helper and the "child number i" helper of one family count the same kind of child
    rep.rule('C01.A2', 'mathmlChildCount / mathmlChildNode (and nonCommentChildCount / nonCommentChildNode) classify a child node with the SAME predicate: every caller loops `i < count(node)` and dereferences `child(node, i)`, '
                       'so a count that also counts, say, elements of a foreign namespace makes the index helper walk off the end and hand back a null node')
    n_a2 = 0
    for cnt_n, idx_n in (('mathmlChildCount', 'mathmlChildNode'), ('nonCommentChildCount', 'nonCommentChildNode')):
        fc, fi = F.fn1('libcellml::' + cnt_n), F.fn1('libcellml::' + idx_n)

        def preds(g_):
            return sorted({c_.get('fn') + '(' + ','.join(render(x) for x in c_['c'][1:]) + ')'
                           for c_ in g_.walk() if c_.get('k') == 'Call' and c_.get('mc') and (c_.get('cls') or '').endswith('XmlNode') and (c_.get('fn') or '').startswith('is')})
        pc, pi = preds(fc), preds(fi)
        n_a2 += 1
        rep.check(bool(pc) and pc == pi, 'C01.A2', '%s/%s' % (cnt_n, idx_n), fc.where(), '%s counts the children for which %s holds, %s indexes those for which %s holds: with a child that satisfies only one of the two the loops `i < count` dereference a null node' % (cnt_n, pc, idx_n, pi), 'both use %s' % pc)
    # U1: a reference that is the name of a standard unit is never looked up in a model
    rep.rule('C01.U1', 'wherever a function distinguishes standard unit names (isStandardUnitName(ref)) and also resolves the same reference in a model (model->units(ref)), the look-up happens only where the name is NOT a standard one: '
                       'all walks over unit references (definedness, multiplier, unit map, base-unit count, flattening) must take the same turn, otherwise a model that defines units under a standard name sends one walk round a cycle '
                       'that the cycle-detecting walk (isDefined, the validator) never enters')
    from engines import facts_x as _fxu
    n_u1 = 0
    for g in F.funcs.values():
        if '/src/' not in g.file:
            continue
        stds = {render(nth_arg(c, 0)) for c in g.walk() if c.get('k') == 'Call' and c.get('fn') == 'isStandardUnitName' and nth_arg(c, 0) is not None}
        if not stds:
            continue
        for c in g.walk():
            if c.get('k') == 'Call' and c.get('mc') and c.get('fn') == 'units' and (c.get('cls') or '').endswith('Model') and len(c.get('c', [])) == 2 and render(c['c'][1]) in stds:
                n_u1 += 1
                a_ = render(c['c'][1])
                fx = _fxu(F, g, c) or set()
                # a walk that keeps its own path / visited list and tests it before following a reference is safe whichever turn it takes; so is a function that does not recurse
                recursive_ = g.key in F.reach(list(F.callees.get(g.key, ())))
                guarded_ = any(x.get('k') == 'Call' and x.get('fn') in ('find', 'find_if', 'count') and any(y.get('k') == 'Ref' and y.get('dk') == 'parm' and 'std::vector<' in (y.get('t') or '') for y in walk(x)) for x in g.walk())
                if ('isStandardUnitName(%s)' % a_, False) not in fx and (not recursive_ or guarded_):
                    rep.ok('C01.U1', '%s|%s' % (g.short.split('::')[-1], render(c)[:50]), g.where(c), 'own cycle guard' if guarded_ else 'does not recurse')
                    continue
                rep.check(('isStandardUnitName(%s)' % a_, False) in fx, 'C01.U1', '%s|%s' % (g.short.split('::')[-1], render(c)[:50]), g.where(c),
                          '%s resolves `%s` in the model although it may be the name of a standard unit (no `!isStandardUnitName(%s)` holds there): this walk follows a user-defined "%s" that the other walks treat as a base unit' % (g.short, a_, a_, 'volt'),
                          'only for names that are not standard units')
    if n_u1 < 6:
        raise AnalysisBroken('C01.U1: only %d model look-ups of references that are also tested with isStandardUnitName (9 confirmed)' % n_u1)
    from engines import rule_regex_depth
    rule_regex_depth(F, rep, 'C01.X6', lambda g: '/src/' in g.file,
                     {('addVersionAndLibcellmlVersionCode', '([0-9]+\\.[0-9]+\\.[0-9]+)'): 'applied to GeneratorProfile::implementationVersionString(), a string the caller configures on the profile: it does not derive from the bytes handed to parseModel, which is what C01 quantifies over'},
                     3, 'the library')
    _rec.rule_path_verdicts(F, rep, 'C01.R3', lambda g: '/src/' in g.file, 2, 'the library')


