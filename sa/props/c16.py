"""C16 - numeric text is recognised per the CellML grammar and never throws (structural clauses)."""
from facts import walk, render, role, is_call, AnalysisBroken
from engines import ff, nth_arg, receiver, enclosing_conditions, call_sites, issues_depending_on
import exc
import tables

LEVEL = ('Static rules over the recognisers and conversions in utilities.cpp and their use sites: (N) no recogniser accepts through a vacuous std::all_of; '
         '(G) the grammar terminals (sign sets, digit set, single decimal point, single e/E, integer exponent) are read from the AST and compared with the CellML grammar; '
         '(X) every std::sto* conversion is screened by the matching recogniser and handles out_of_range; (U) parser/validator use sites convert only on the recogniser\'s true branch '
         'and report an issue otherwise; (P) doubles are printed with >= 15 significant digits. The language accepted is not enumerated by execution.')
ASSUMPTIONS = ['std::stod/std::stoi throw only std::invalid_argument (no conversion possible) and std::out_of_range, as the C++ standard specifies',
               'a string accepted by the recognisers (sign, digits, one point, optional e-part) is convertible by std::stod/std::stoi']

STO_EXEMPT = {}   # the former exemption of AnalyserImpl::powerValue was unsound (e-notation cn out of range) and is gone with the repair cb4ff39


def chars_compared_with_first(f, pname):
    out = set()
    for n in f.walk():
        if n.get('k') == 'Bin' and n.get('op') == '==' and len(n['c']) == 2:
            a, b = n['c']
            if b.get('k') == 'Char' and pname + '.begin()' in render(a):
                out.add(chr(b['v']))
    return out


def at_most_one(rc, sized=True):
    """Branch facts that imply `count <= 1` for some counter (x.size() when sized, a plain integer local otherwise)."""
    import re
    out = []
    pat = r'^(\w+)\.size\(\) (<|<=|>|>=) (\d+)$' if sized else r'^(\w+) (<|<=|>|>=) (\d+)$'
    for c, t in rc:
        m = re.match(pat, c)
        if not m:
            continue
        op, k = m.group(2), int(m.group(3))
        le1 = (t and ((op == '<' and k <= 2) or (op == '<=' and k <= 1))) or ((not t) and ((op == '>=' and k <= 2) or (op == '>' and k <= 1)))
        if le1:
            out.append(m.group(1))
    return out


def derives_from_(f, c, m):
    from engines import derives_from
    return derives_from(f, c, m)


def _srcs(f, cond):
    """Expressions assigned to the local variables a condition reads."""
    out = []
    for x in walk(cond):
        if x.get('k') == 'Ref' and x.get('dk') == 'local':
            for v in f.walk():
                c = v.get('c', [])
                if v.get('k') == 'Var' and v.get('d') == x['d'] and c:
                    out.append(c[0])
                elif v.get('k') in ('Bin', 'CAssign') and c and c[0].get('k') == 'Ref' and c[0].get('d') == x['d'] and len(c) > 1:
                    out.append(c[1])
    return out


def run(F, rep):
    # ---------------------------------------------------------------- N: non-vacuity
    rep.rule('C16.N1', 'a recogniser whose verdict is std::all_of over a string tests that string non-empty after its last mutation (all_of over an empty range is true)')
    n = exc.nonvacuity_rule(F, rep, 'C16.N1')
    if n < 1:
        raise AnalysisBroken('C16.N1: %d all_of recognisers found (2 on the pinned tree; a recogniser rewritten without all_of has no vacuous-truth case and needs no such test)' % n)

    # ---------------------------------------------------------------- G: grammar terminals
    rep.rule('C16.G1', 'grammar terminals read from the recognisers equal the CellML grammar: real sign {-}, integer signs {-,+}, digits 0-9, at most one ".", at most one e/E, exponent part is a CellML integer')
    basic = F.fn1('libcellml::isCellMLBasicReal')
    integer = F.fn1('libcellml::isCellMLInteger')
    nonneg = F.fn1('libcellml::isNonNegativeCellMLInteger')
    digit = F.fn1('libcellml::isEuropeanNumericCharacter')
    real = F.fn1('libcellml::isCellMLReal')
    expo = F.fn1('libcellml::isCellMLExponent')
    # the terminals are read off one algorithm (strip sign, strip point, all digits): another algorithm is not interpreted, and nothing is reported about it
    verd = list(exc.string_verdicts(basic))
    if not verd:
        raise AnalysisBroken('isCellMLBasicReal no longer ends in an all-digits verdict (std::all_of or the equivalent loop)')
    s = chars_compared_with_first(basic, 'candidate')
    rep.check(s == {'-'}, 'C16.G1', 'isCellMLBasicReal|sign-set', basic.where(), 'sign characters accepted at the start of a real: %s (grammar: {-})' % sorted(s), 'sign set {-}')
    s = chars_compared_with_first(integer, 'candidate')
    rep.check(s == {'-', '+'}, 'C16.G1', 'isCellMLInteger|sign-set', integer.where(), 'sign characters accepted at the start of an integer: %s (grammar: {+,-})' % sorted(s), 'sign set {+,-}')
    ds = {chr(x['v']) for x in digit.walk() if x.get('k') == 'Char'}
    rep.check(ds == set('0123456789'), 'C16.G1', 'isEuropeanNumericCharacter|digits', digit.where(), 'digit set is %s' % sorted(ds), 'digit set 0-9')
    # the sign is only stripped when present at position 0, and only once
    er = [m for m in basic.walk() if m.get('k') == 'Call' and m.get('fn') == 'erase' and render(nth_arg(m, 0)) == '0']
    def _is_minus_test(c):
        srcs = [c] + _srcs(basic, c)
        return any(x.get('k') == 'Bin' and x.get('op') == '==' and any(y.get('k') == 'Char' and y.get('v') == ord('-') for y in x['c']) and '.begin()' in render(x) for e in srcs for x in walk(e))
    ok = len(er) == 1 and any(t and _is_minus_test(c) for c, t in (ff(basic).conds_at(er[0]) or []))
    rep.check(ok, 'C16.G1', 'isCellMLBasicReal|sign-stripped-once', basic.where(), 'the leading sign is not stripped exactly once under the sign test', 'one erase(0,1) under beginsMinus')
    # decimal point: findOccurrences(candidate, ".") and at most one occurrence where the all-digits verdict is given
    occ = [m for m in basic.walk() if is_call(m, 'findOccurrences')]
    lits = {x.get('v') for m in occ for x in walk(m) if x.get('k') == 'Str'}
    rc = ff(basic).rendered_conds_at(verd[0][0]) or set()
    bound = at_most_one(rc)
    rep.check(lits == {'.'} and bool(bound), 'C16.G1', 'isCellMLBasicReal|decimal-point', basic.where(),
              'decimal point handling: searched %s, count facts at the verdict %s (grammar: at most one ".")' % (sorted(lits), sorted(c for c, t in rc if '.size()' in c)), 'at most one "."')
    # the verdict is the digit test
    pred = verd[0][2]
    rep.check(pred == 'isEuropeanNumericCharacter', 'C16.G1', 'isCellMLBasicReal|digit-predicate', basic.where(), 'the all-characters predicate is `%s`' % pred, 'every character isEuropeanNumericCharacter')
    verd2 = list(exc.string_verdicts(nonneg))
    pred2 = verd2[0][2] if verd2 else ''
    rep.check(pred2 == 'isEuropeanNumericCharacter', 'C16.G1', 'isNonNegativeCellMLInteger|digit-predicate', nonneg.where(), 'the all-characters predicate is `%s`' % pred2, 'every character isEuropeanNumericCharacter')
    # integer: the signed form strips exactly one character and both forms end in the non-negative recogniser
    rets = [render(r['c'][0]).replace(', npos', '').replace(', std::string::npos', '') for r in integer.walk() if r.get('k') == 'Return' and r.get('c')]
    rep.check(sorted(rets) == ['isNonNegativeCellMLInteger(candidate)', 'isNonNegativeCellMLInteger(candidate.substr(1))'], 'C16.G1', 'isCellMLInteger|shape', integer.where(),
              'isCellMLInteger returns %s' % rets, 'sign stripped with substr(1), digits checked by isNonNegativeCellMLInteger')
    # real: e/E markers, count bound, parts
    occ = [m for m in real.walk() if is_call(m, 'findOccurrences')]
    lits = {str(x.get('v')).strip('"') for x in real.walk() if x.get('k') == 'Str' and str(x.get('v')).strip('"') in ('e', 'E')} | {chr(x['v']) for x in real.walk() if x.get('k') == 'Char' and isinstance(x.get('v'), int) and chr(x['v']) in 'eE'}
    rep.check(lits == {'E', 'e'}, 'C16.G1', 'isCellMLReal|exponent-markers', real.where(), 'exponent markers searched: %s' % sorted(lits), 'markers {e,E}')
    parts = [m for m in real.walk() if m.get('k') == 'Call' and m.get('fn') in ('isCellMLBasicReal', 'isCellMLExponent')]
    okb = True
    det = []
    for m in parts:
        rc = ff(real).rendered_conds_at(m) or set()
        if not at_most_one(rc, sized=False):
            okb = False
            det.append('%s not under eIndicatorCount < 2' % render(m))
    sig = [m for m in parts if m['fn'] == 'isCellMLBasicReal']
    ex = [m for m in parts if m['fn'] == 'isCellMLExponent']
    # significand && exponent conjunction
    conj = any(p.get('k') == 'Bin' and p.get('op') == '&&' and {x.get('fn') for x in p['c'] if x.get('k') == 'Call'} == {'isCellMLBasicReal', 'isCellMLExponent'} for p in real.walk())
    rep.check(okb and len(sig) == 2 and len(ex) == 1 and conj, 'C16.G1', 'isCellMLReal|parts', real.where(),
              'e-notation handling changed: %s; significand tests %d, exponent tests %d, conjunction %s' % (det, len(sig), len(ex), conj),
              'at most one e/E; significand is a basic real AND exponent is a CellML integer')
    # every positive verdict of isCellMLReal is made of the parts of the real grammar: a value returned (or assigned to the local that is returned) is `false` or an
    # expression whose only recogniser calls are isCellMLBasicReal / isCellMLExponent; a shortcut through another recogniser (isCellMLInteger accepts "+5") or a bare `true` is not
    verdict_exprs = []
    ret_locals = set()
    for r in real.walk():
        if r.get('k') == 'Return' and r.get('c') and real.enclosing_lambda(r) is None:
            e_ = r['c'][0]
            while e_.get('k') in ('Paren', 'Cast') and len(e_.get('c', [])) == 1:
                e_ = e_['c'][0]
            if e_.get('k') == 'Ref' and e_.get('dk') == 'local':
                ret_locals.add(e_['d'])
            else:
                verdict_exprs.append((r, e_))
    for a_ in real.walk():
        c_ = a_.get('c', [])
        if a_.get('k') == 'Var' and a_.get('d') in ret_locals and c_:
            verdict_exprs.append((a_, c_[0]))
        elif a_.get('k') == 'Bin' and a_.get('op') == '=' and c_ and c_[0].get('k') == 'Ref' and c_[0].get('d') in ret_locals:
            verdict_exprs.append((a_, c_[1]))
    if not verdict_exprs:
        raise AnalysisBroken('isCellMLReal: no verdict expression found')
    for k_, (site, e_) in enumerate(verdict_exprs):
        e2 = e_
        while e2.get('k') in ('Paren', 'Cast') and len(e2.get('c', [])) == 1:
            e2 = e2['c'][0]
        if e2.get('k') == 'Bool' and not e2.get('v'):
            continue
        recs = {x.get('fn') for x in walk(e2) if x.get('k') == 'Call' and (x.get('fn') or '').startswith(('isCellML', 'isNonNegative', 'isEuropean'))}
        if e2.get('k') == 'Bool' and e2.get('v'):
            # a bare `true` takes its meaning from the recogniser tests known to hold where it is given
            recs = {x.get('fn') for c3, t3 in (ff(real).conds_at(site) or []) if t3 for x in walk(c3) if x.get('k') == 'Call' and (x.get('fn') or '').startswith(('isCellML', 'isNonNegative', 'isEuropean'))}
        rep.check(bool(recs) and recs <= {'isCellMLBasicReal', 'isCellMLExponent'}, 'C16.G1', 'isCellMLReal|verdict#%d from the grammar parts' % k_, real.where(site),
                  'isCellMLReal can answer `%s`: a positive verdict that does not come from isCellMLBasicReal / isCellMLExponent (recognisers used: %s) - e.g. isCellMLInteger also accepts a leading "+", which a real may not have' % (render(e2)[:50], sorted(recs) or 'none'),
                  'built from isCellMLBasicReal / isCellMLExponent')
    rr = [render(r['c'][0]) for r in expo.walk() if r.get('k') == 'Return' and r.get('c')]
    rep.check(rr == ['isCellMLInteger(candidate)'], 'C16.G1', 'isCellMLExponent|integer', expo.where(), 'isCellMLExponent returns %s' % rr, 'exponent = CellML integer')
    # the significand/exponent are split at the marker: substr(0, ePos) and substr(ePos + 1)
    subs = sorted(render(m) for m in real.walk() if m.get('k') == 'Call' and m.get('fn') == 'substr')
    rep.check(subs == ['normalisedCandidate.substr(0, ePos)', 'normalisedCandidate.substr(ePos + 1, npos)'] or subs == ['normalisedCandidate.substr(0, ePos)', 'normalisedCandidate.substr(ePos + 1, std::string::npos)']
              or (len(subs) == 2 and subs[0].endswith('.substr(0, ePos)') and '.substr(ePos + 1' in subs[1]), 'C16.G1', 'isCellMLReal|split', real.where(),
              'split at the exponent marker is %s' % subs, 'split at ePos / ePos+1')

    # ---------------------------------------------------------------- X: conversions never throw
    rep.rule('C16.X1', 'every std::sto* call is applied only to text accepted by the recogniser of its kind (here or in every caller) - sto* itself accepts a larger language - and handles out_of_range')
    n = exc.sto_rule(F, rep, 'C16.X1', STO_EXEMPT, require_screen=True)
    if n < 4:
        raise AnalysisBroken('C16.X1: %d sto* sites found, 4 confirmed (utilities.cpp x2, units.cpp, validator.cpp)' % n)
    rep.rule('C16.X2', 'no throw expression in src')
    exc.throw_rule(F, rep, 'C16.X2')

    # ---------------------------------------------------------------- U: use sites screen first
    rep.rule('C16.U1', 'parser: unit exponent/multiplier and reset order are converted only on the recogniser\'s true branch; the false branch adds an issue')
    lu = F.fn1('Parser::ParserImpl::loadUnit')
    lr = F.fn1('Parser::ParserImpl::loadReset')
    n_u = 0
    for f, conv in ((lu, 'convertToDouble'), (lu, 'canConvertToBasicDouble'), (lu, 'isCellMLReal'), (lr, 'convertToInt'), (lr, 'isCellMLInteger')):
        for m in f.walk():
            if is_call(m, conv):
                n_u += 1
                deps = issues_depending_on(f, m)
                rej = [a for a in deps if any(derives_from_(f, c, m) and not t for c, t in (ff(f).conds_at(a) or []))]
                rep.check(bool(rej), 'C16.U1', '%s|%s(%s)' % (f.short, conv, render(nth_arg(m, 0))), f.where(m),
                          'no issue is added on the rejecting branch of %s in %s' % (conv, f.short), '%d issue site(s) on the rejecting branch' % len(rej))
    # conversions happen only on the accepting branch of a recogniser
    for f, conv, recog in ((lu, 'convertToDouble', 'isCellMLReal'), (lr, 'convertToInt', 'isCellMLInteger')):
        for m in f.walk():
            if is_call(m, conv):
                arg = render(nth_arg(m, 0))
                facts_ = ff(f).conds_at(m) or []
                scr = [c for c, t in facts_ if t and any(is_call(x, recog) and render(nth_arg(x, 0)) == arg for x in [c] + [
                    src for src in _srcs(f, c)])]
                rep.check(bool(scr), 'C16.U1', '%s|%s(%s)|screened' % (f.short, conv, arg), f.where(m),
                          '%s(%s) in %s is not on the accepting branch of %s' % (conv, arg, f.short, recog), 'on the accepting branch of %s' % recog)
    if n_u < 2:
        raise AnalysisBroken('C16.U1: %d parser conversion sites, 3 confirmed on the pinned tree (exponent, multiplier, reset order; the first two may share one helper)' % n_u)
    rep.rule('C16.U2', 'validator: <cn> text and variable initial values are screened with isCellMLReal; unit prefixes with isCellMLInteger/isStandardPrefixName')
    val = [f for f in F.funcs.values() if f.file.endswith('validator.cpp')]
    uses = {}
    for f in val:
        for m in f.walk():
            if m.get('k') == 'Call' and m.get('fn') in ('isCellMLReal', 'isCellMLInteger', 'isStandardPrefixName', 'isBasicReal', 'isInteger'):
                uses.setdefault(m['fn'], []).append((f, m))
    want = {'isCellMLReal': 1, 'isBasicReal': 2, 'isInteger': 1, 'isCellMLInteger': 1, 'isStandardPrefixName': 1}
    for fn, mn in want.items():
        got = uses.get(fn, [])
        rep.check(len(got) >= mn, 'C16.U2', 'validator|' + fn, got[0][0].where(got[0][1]) if got else None,
                  'validator.cpp calls %s %d time(s), %d confirmed' % (fn, len(got), mn), '%d call(s): %s' % (len(got), sorted({g.short.split('::')[-1] for g, _ in got})))
    for fn, got in uses.items():
        if fn == 'isStandardPrefixName':
            continue
        for f, m in got:
            deps = issues_depending_on(f, m)
            rep.check(bool(deps), 'C16.U2', '%s|%s(%s)|decides-issue' % (f.short, fn, render(nth_arg(m, 0)) if fn.startswith('isCellML') else render(receiver(m))), f.where(m),
                      'no issue is control dependent on %s in %s' % (render(m), f.short), '%d issue site(s) depend on it' % len(deps))
    xb = F.fn1('libcellml::XmlNode::isBasicReal')
    xi = F.fn1('libcellml::XmlNode::isInteger')
    rb = [render(r['c'][0]) for r in xb.walk() if r.get('k') == 'Return' and r.get('c')]
    ri = [render(r['c'][0]) for r in xi.walk() if r.get('k') == 'Return' and r.get('c')]
    rep.check(len(rb) == 1 and rb[0].startswith('canConvertToBasicDouble('), 'C16.U2', 'XmlNode::isBasicReal|recogniser', xb.where(), 'isBasicReal returns %s' % rb, 'canConvertToBasicDouble')
    rep.check(len(ri) == 1 and ri[0].startswith('convertToInt('), 'C16.U2', 'XmlNode::isInteger|recogniser', xi.where(), 'isInteger returns %s' % ri, 'convertToInt')
    cc = F.fn1('libcellml::canConvertToBasicDouble')
    # the conversion itself (std::stod, here or in a helper it calls) happens behind isCellMLBasicReal; with no conversion at all the recogniser alone decides
    g1 = [m for m in cc.walk() if m.get('k') == 'Call' and not m.get('opc') and ((m.get('callee') or '').startswith('std::sto') or any((F.funcs[k_].name if k_ in F.funcs else '').startswith(('stringTo', 'convertTo')) for k_ in F.callee_keys(m)))]
    okc = all(any(t and is_call(c, 'isCellMLBasicReal') for c, t in (ff(cc).conds_at(m_) or [])) for m_ in g1) and (g1 or any(is_call(x, 'isCellMLBasicReal') for x in cc.walk()))
    rep.check(bool(okc), 'C16.U2', 'canConvertToBasicDouble|screened', cc.where(), 'the conversion in canConvertToBasicDouble is not behind isCellMLBasicReal', 'isCellMLBasicReal first')

    # ---------------------------------------------------------------- P: output precision
    rep.rule('C16.P1', 'convertToString(double) prints with setprecision(std::numeric_limits<double>::digits10 or more) on the full-precision path, which is the default and the one used by the printer')
    cts = [f for f in F.fn('libcellml::convertToString') if f.params and f.params[0]['t'] == 'double']
    if len(cts) != 1:
        raise AnalysisBroken('convertToString(double) vanished')
    f = cts[0]
    sp = [m for m in f.walk() if is_call(m, 'std::setprecision')]
    good = False
    det = 'no setprecision'
    for m in sp:
        a = nth_arg(m, 0)
        txt = render(a)
        val_ = None
        if a.get('k') == 'Int':
            val_ = a['v']
        digits = [x for x in walk(a) if x.get('k') == 'Ref' and x.get('n') == 'digits10']
        max_d = [x for x in walk(a) if x.get('k') == 'Ref' and x.get('n') == 'max_digits10']
        ty = [x.get('t', '') for x in walk(a)]
        is_double = any('numeric_limits<double>' in x.get('qq', '') for x in walk(a))
        rc = ff(f).rendered_conds_at(m) or set()
        if ((digits or max_d) and is_double or (val_ is not None and val_ >= 15)) and ('fullPrecision', True) in rc:
            good = True
        det = 'setprecision(%s) under %s' % (txt, sorted(rc))
    rep.check(good, 'C16.P1', 'convertToString|precision', f.where(), det, det)
    # default argument of fullPrecision is true (declaration in utilities.h is what callers see)
    dflt = None
    for g in F.funcs.values():
        for m in g.walk():
            if m.get('k') == 'Call' and f.key in F.callee_keys(m) and len(m['c']) == 2 and m['c'][1].get('k') == 'DefArg':
                dflt = render(m['c'][1])
    rep.check(dflt == 'true', 'C16.P1', 'convertToString|default-full-precision', f.where(), 'default of fullPrecision is %s' % dflt, 'callers that omit the flag get full precision')
    # printer prints unit exponent/multiplier and never asks for reduced precision
    pr = [g for g in F.funcs.values() if g.file.endswith('printer.cpp')]
    red = [(g, m) for g in pr for m in g.walk() if m.get('k') == 'Call' and f.key in F.callee_keys(m) and len(m['c']) == 2 and render(m['c'][1]) == 'false']
    usesp = [(g, m) for g in pr for m in g.walk() if m.get('k') == 'Call' and f.key in F.callee_keys(m)]
    rep.check(not red and len(usesp) >= 2, 'C16.P1', 'printer|full-precision', None, 'printer calls convertToString(double) %d times, %d with reduced precision' % (len(usesp), len(red)),
              '%d printer conversions, all full precision' % len(usesp))

    # ------------------------------------------------------------------ clause shared with C01: "is this initial value a number or the name of a variable" is decided by the grammar recogniser
    if not getattr(rep, 'nested', False):
        import core
        import c01
        core.borrow(F, rep, c01, only={'C01.V1', 'C01.V2'})

    # ------------------------------------------------------------------ E: exact child counts of token elements
    rep.rule('C16.E1', 'the validator accepts a ci / cn token only with EXACTLY the expected number of non-comment children (1, or 3 for an e-notation cn): nonCommentChildCount is compared with == / != only, '
                       'never with an ordering operator (with >= 3 only the first three children are looked at and trailing content such as `1.5<sep/>3<sep/>4` is accepted)')
    n_e1 = 0
    for g in F.funcs.values():
        if not g.file.endswith('/validator.cpp') or g.name != 'validateMathMLElementsChildrenAndSiblings':
            continue
        for b in g.walk():
            op_ = b.get('op') or b.get('opc')
            if b.get('k') in ('Bin', 'Call') and op_ in ('==', '!=', '<', '<=', '>', '>=') and len(b.get('c', [])) == 2 and any(x.get('k') == 'Call' and x.get('fn') == 'nonCommentChildCount' for x in b['c']):
                n_e1 += 1
                rep.check(op_ in ('==', '!='), 'C16.E1', '%s|%s' % (g.short.split('::')[-1], render(b)[:50]), g.where(b), '%s tests `%s`: more children than expected are accepted' % (g.short, render(b)[:60]), 'exact count')
    if n_e1 < 3:
        raise AnalysisBroken('C16.E1: only %d comparisons of nonCommentChildCount in validator.cpp (4 confirmed)' % n_e1)


