"""C17 - generated code's declared structure matches the analysed model (structural clauses)."""
import re

from facts import walk, render, role, is_call, AnalysisBroken
from engines import ff, nth_arg, receiver, enclosing_conditions, is_this_like, use_facts

LEVEL = ('(N) for each of the 24 helper-function flags the four places that must agree are tied together by their stem: the analyser sets mNeed<X>Function in the branch that recognises MathML <x> and populates AST type <X>, '
         'AnalyserModel::need<X>Function() returns that very flag, and the generator emits the profile\'s <x>FunctionString under need<X>Function() (and !has<X>Operator() for the operator-backed ones); '
         '(I) for every emitted family the interface and the implementation emitters use the same model predicates as guards and pass the same arguments to the profile; (C) the count placeholders are replaced by the model\'s counts and the info tables iterate the full state/variable lists; '
         '(G) both emitters return {} for a missing/invalid model. Generated code is not compiled or run.')
ASSUMPTIONS = ['the naming convention need<X>Function / mNeed<X>Function / <x>FunctionString / Type::<X> / MathML <x> identifies the pieces that belong together']

OPERATOR_BACKED = ['Eq', 'Neq', 'Lt', 'Leq', 'Gt', 'Geq', 'And', 'Or', 'Xor', 'Not']
MODEL_PREDS = ('modelHasOdes()', 'hasExternalVariables()', 'modelHasNlas()', 'stateCount()', 'variableCount()', 'equationCount()', 'mModel->type()')


def lc(s):
    return s[0].lower() + s[1:]


def run(F, rep):
    rec = F.record('AnalyserModel::AnalyserModelImpl')
    stems = [m.group(1) for f in rec['fields'] for m in [re.match(r'mNeed(\w+)Function$', f['n'])] if m]
    if len(stems) < 20:
        raise AnalysisBroken('need-function flags: %d found, 24 confirmed' % len(stems))
    rep.rule('C17.N1', 'AnalyserModel::need<X>Function() returns the flag mNeed<X>Function (for valid models)')
    rep.rule('C17.N2', 'the analyser sets mNeed<X>Function exactly in the branch that tests MathML element <x> and populates AST type <X>')
    rep.rule('C17.N3', 'the generator emits profile-><x>FunctionString() under need<X>Function() (plus !has<X>Operator() for operator-backed helpers), and nowhere else')
    an = F.fn1('Analyser::AnalyserImpl::analyseNode')
    gens = [f for f in F.funcs.values() if f.cls == 'libcellml::Generator::GeneratorImpl' and re.match(r'add\w+FunctionsCode$', f.name)]
    if len(gens) < 2:
        raise AnalysisBroken('generator add*FunctionsCode emitters: %d found' % len(gens))
    for X in stems:
        g = F.fn('libcellml::AnalyserModel::need%sFunction' % X, required=False)
        if len(g) != 1:
            rep.fail('C17.N1', X, None, 'AnalyserModel::need%sFunction() vanished' % X)
            continue
        g = g[0]
        rets = [render(r['c'][0]) for r in g.walk() if r.get('k') == 'Return' and r.get('c') and render(r['c'][0]) != 'false']
        rep.check(rets == ['mPimpl->mNeed%sFunction' % X], 'C17.N1', X, g.where(), 'need%sFunction() returns %s: the generator would emit (or omit) the %s helper for the wrong reason' % (X, rets, lc(X)), 'returns mNeed%sFunction' % X)
        # analyser
        ws = [n for n in an.walk() if n.get('k') == 'Bin' and n.get('op') == '=' and n['c'][0].get('k') == 'Member' and n['c'][0].get('n') == 'mNeed%sFunction' % X]
        if len(ws) != 1:
            rep.fail('C17.N2', X, an.where(), 'mNeed%sFunction is written %d times in analyseNode (1 confirmed)' % (X, len(ws)))
        else:
            w = ws[0]
            rc = ff(an).rendered_conds_at(w) or set()
            el = ('arc' + X[1:].lower()) if (X[0] == 'A' and X[1:] in ('sec', 'csc', 'cot', 'sech', 'csch', 'coth')) else lc(X)
            okb = ('node->isMathmlElement("%s")' % el, True) in rc
            pops = [c for c in an.walk() if c.get('k') == 'Call' and c.get('fn') == 'populate' and any(x.get('k') == 'Ref' and x.get('dk') == 'enumc' and x.get('n') == X.upper() for x in walk(c))]
            same = any(('node->isMathmlElement("%s")' % el, True) in (ff(an).rendered_conds_at(p) or set()) for p in pops)
            rep.check(okb and same and render(w['c'][1]) == 'true', 'C17.N2', X, an.where(w), 'mNeed%sFunction is set under %s; the <%s> branch populates Type::%s: %s' % (X, sorted(c for c, t in rc if 'isMathmlElement' in c and t), el, X.upper(), same),
                      'set in the <%s> branch together with Type::%s' % (el, X.upper()))
        # generator
        emits = []
        for gf in gens:
            for c in gf.walk():
                if c.get('k') == 'Call' and c.get('fn') == '%sFunctionString' % lc(X):
                    emits.append((gf, c))
        if not emits:
            rep.fail('C17.N3', X, None, 'the generator never emits %sFunctionString()' % lc(X))
            continue
        good = True
        det = ''
        for gf, c in emits:
            rc = use_facts(F, gf, c)     # also through a local lambda / helper that does the emitting: add(mModel->needX(), mProfile->xString())
            need = ('mModel->need%sFunction()' % X, True) in rc
            opok = X not in OPERATOR_BACKED or ('mProfile->has%sOperator()' % X, False) in rc
            other = [cc for cc, t in rc if t and re.match(r'mModel->need\w+Function\(\)$', cc) and cc != 'mModel->need%sFunction()' % X]
            if not (need and opok) or other:
                good = False
                det = '%sFunctionString() is emitted under %s' % (lc(X), sorted(cc for cc, t in rc if 'need' in cc or 'Operator' in cc))
        rep.check(good, 'C17.N3', X, emits[0][0].where(emits[0][1]), det, 'emitted under need%sFunction()' % X + (' && !has%sOperator()' % X if X in OPERATOR_BACKED else ''))

    # E1: "=" versus "==": only an <eq> directly under <math> is the equality of an equation
    rep.rule('C17.E1', 'in analyseNode an <eq/> keeps the type EQUALITY (the "=" of an equation) exactly when its application sits directly under <math>: the test that separates it from the comparison "==" names the element `math` '
                       'and nothing else - a positive list of the places where a comparison may appear (apply, piece) misses the others (otherwise, degree, logbase, bvar), and the generated code then contains an assignment inside an expression')
    an17 = F.fn1('Analyser::AnalyserImpl::analyseNode')
    eqpop = [c for c in an17.walk() if c.get('k') == 'Call' and c.get('fn') == 'populate' and any(x.get('k') == 'Ref' and x.get('dk') == 'enumc' and x.get('n') == 'EQ' for x in walk(c))]
    if len(eqpop) != 1:
        raise AnalysisBroken('analyseNode: populate(EQ) not found (%d)' % len(eqpop))
    names17 = set()
    pos17 = []
    for cnd, br, st in enclosing_conditions(an17, eqpop[0]):
        t_ = render(cnd)
        if 'isMathmlElement("eq")' in t_:
            break
        for m_ in re.finditer(r'isMathmlElement\("(\w+)"\)', t_):
            names17.add(m_.group(1))
        pos17.append((t_[:70], br))
    rep.check(names17 == {'math'}, 'C17.E1', 'analyseNode|eq versus equality', an17.where(eqpop[0]), 'whether <eq/> is a comparison is decided by %s (elements named: %s): comparisons in the places that are not listed keep the type EQUALITY' % (pos17, sorted(names17)),
              'decided by "the grandparent is (not) <math>" alone')

    # N4: an early return in an emitting function may only be taken when none of the helpers emitted after it is needed
    rep.rule('C17.N4', 'a function of the generator that emits helper definitions returns early only under a condition that implies that NONE of the helpers it would emit further down is needed '
                       '(decided by evaluating the condition, named sub-conditions spelled out, for every assignment of the need<X>Function() flags): a "nothing to do" shortcut that forgets one flag drops that helper for the models that need only it')
    from engines import value_of as _vo17, enclosing_conditions as _enc17
    import itertools as _it17

    def _atoms(g_, e, acc):
        e = _vo17(g_, e)
        if e is None:
            return ('const', True)
        k_ = e.get('k')
        if k_ == 'Bin' and e.get('op') in ('&&', '||'):
            return (e['op'], _atoms(g_, e['c'][0], acc), _atoms(g_, e['c'][1], acc))
        if k_ == 'Un' and e.get('op') == '!':
            return ('!', _atoms(g_, e['c'][0], acc))
        if k_ == 'Bool':
            return ('const', bool(e.get('v')))
        name = e.get('fn') if (k_ == 'Call' and re.match(r'need\w+Function$', e.get('fn') or '')) else render(e)[:80]
        acc.add(name)
        return ('atom', name)

    def _ev(t, env):
        if t[0] == 'const':
            return t[1]
        if t[0] == 'atom':
            return env[t[1]]
        if t[0] == '!':
            return not _ev(t[1], env)
        if t[0] == '&&':
            return _ev(t[1], env) and _ev(t[2], env)
        return _ev(t[1], env) or _ev(t[2], env)
    n_n4 = 0
    for gf in gens:
        emits_ = [(c, re.match(r'^(\w+)FunctionString$', c.get('fn') or '').group(1)) for c in gf.walk() if c.get('k') == 'Call' and re.match(r'^\w+FunctionString$', c.get('fn') or '') and (c.get('cls') or '').endswith('GeneratorProfile')]
        if not emits_:
            continue
        for r_ in gf.walk():
            if r_.get('k') != 'Return' or gf.enclosing_lambda(r_) is not None:
                continue
            later = sorted({x_[0].upper() + x_[1:] for c, x_ in emits_ if c.get('l', 0) > r_.get('l', 0)})
            if not later:
                continue
            n_n4 += 1
            acc = set()
            conj = ('const', True)
            for cnd, br, st in _enc17(gf, r_):
                t_ = _atoms(gf, cnd, acc)
                conj = ('&&', conj, t_ if br == 'then' else ('!', t_))
            names = sorted(acc)
            if len(names) > 16:
                raise AnalysisBroken('C17.N4: the condition of the early return in %s has %d atoms' % (gf.short, len(names)))
            forgotten = []
            for X in later:
                a_ = 'need%sFunction' % X
                if a_ not in acc:
                    forgotten.append(X)
                    continue
                for vals in _it17.product((False, True), repeat=len(names)):
                    env = dict(zip(names, vals))
                    if env[a_] and _ev(conj, env):
                        forgotten.append(X)
                        break
            rep.check(not forgotten, 'C17.N4', '%s|return@%s' % (gf.short.split('::')[-1], r_.get('l')), gf.where(r_),
                      '%s can return early although the model needs %s (the condition of the return does not depend on need%sFunction()): the helper is called by the generated code and never defined' % (gf.short, forgotten[:4], forgotten[0] if forgotten else ''),
                      'taken only when none of %d later helpers is needed' % len(later))
    rep.ok('C17.N4', 'scan', None, '%d early returns in front of helper emissions' % n_n4)

    # ------------------------------------------------------------------ I
    rep.rule('C17.I1', 'for every family with an interface and an implementation form, both emitters are guarded by the same model predicates and pass the same arguments to the profile getters')
    gi = [f for f in F.funcs.values() if f.cls in ('libcellml::Generator::GeneratorImpl', 'libcellml::Generator')]
    calls = {}
    for f in gi:
        for c in f.walk():
            if c.get('k') == 'Call' and c.get('mc'):
                m = re.match(r'(interface|implementation)(\w+)String$', c.get('fn', ''))
                if m and render(c['c'][0]).endswith('mProfile'):
                    calls.setdefault(m.group(2), {}).setdefault(m.group(1), []).append((f, c))
    fams = {k: v for k, v in calls.items() if 'interface' in v and 'implementation' in v}
    if len(fams) < 8:
        raise AnalysisBroken('interface/implementation families: %d found, 10 confirmed' % len(fams))

    def guard(sites):
        gs = None
        args = set()
        for f, c in sites:
            rc = ff(f).rendered_conds_at(c) or set()
            sel = frozenset((cc, t) for cc, t in rc if any(p in cc for p in MODEL_PREDS))
            gs = sel if gs is None else (gs & sel)
            args.add(', '.join(render(a) for a in c['c'][1:]))
        return gs or frozenset(), args
    for stem, v in sorted(fams.items()):
        gI, aI = guard(v['interface'])
        gM, aM = guard(v['implementation'])
        f0, c0 = v['implementation'][0]
        rep.check(gI == gM, 'C17.I1', '%s|guards' % stem, f0.where(c0),
                  'interface%sString is emitted under %s but implementation%sString under %s: a function can be declared without being defined (or the reverse)' % (stem, sorted(gI), stem, sorted(gM)), 'both under %s' % sorted(gI))
        rep.check(aI == aM, 'C17.I1', '%s|arguments' % stem, f0.where(c0), 'profile arguments differ: interface %s, implementation %s' % (sorted(aI), sorted(aM)), 'same arguments %s' % sorted(aI))

    # ------------------------------------------------------------------ C
    rep.rule('C17.C1', '[STATE_COUNT]/[VARIABLE_COUNT] are replaced by mModel->stateCount()/variableCount(); the state/variable info tables iterate the full mModel->states()/variables() lists')
    n_c = 0
    for f in gi:
        for c in f.walk():
            if c.get('k') == 'Call' and c.get('fn') == 'replace' and len(c.get('c', [])) >= 3:
                a = [render(x) for x in c['c']]
                for ph, getter in (('"[STATE_COUNT]"', 'mModel->stateCount()'), ('"[VARIABLE_COUNT]"', 'mModel->variableCount()')):
                    if ph in a:
                        n_c += 1
                        val = a[a.index(ph) + 1] if a.index(ph) + 1 < len(a) else ''
                        rep.check(getter in val, 'C17.C1', '%s|%s' % (f.short.split('::')[-1], ph.strip('"')), f.where(c), '%s is replaced by `%s`' % (ph, val), 'replaced by ' + getter)
    if n_c < 2:
        raise AnalysisBroken('count placeholders: %d replacements found' % n_c)
    for nm, lst in (('addImplementationStateInfoCode', 'mModel->states()'), ('addImplementationVariableInfoCode', 'mModel->variables()')):
        f = F.fn1('Generator::GeneratorImpl::' + nm)
        loops = [l for l in f.walk() if l.get('k') == 'RangeFor' and render(role(l, 'range')) == lst]
        brk = []
        for l in loops:
            for b in walk(role(l, 'body')):
                if b.get('k') == 'Return' and f.enclosing_lambda(b) is None:
                    brk.append(b)
                elif b.get('k') == 'Break':
                    own = next((a for a in f.ancestors(b) if a.get('k') in ('For', 'While', 'Do', 'RangeFor', 'Switch')), None)
                    if own is l:
                        brk.append(b)
        rep.check(bool(loops) and not brk, 'C17.C1', nm, f.where(), '%s does not iterate the whole of %s' % (nm, lst), 'iterates all of ' + lst)
    uv = F.fn1('Generator::GeneratorImpl::generateVariableInfoObjectCode', ) if F.fn('Generator::GeneratorImpl::generateVariableInfoObjectCode', required=False) else None
    if uv is not None:
        ls = {render(role(l, 'range')) for l in uv.walk() if l.get('k') == 'RangeFor'}
        rep.check({'mModel->states()', 'mModel->variables()'} <= ls, 'C17.C1', 'generateVariableInfoObjectCode|sizes', uv.where(), 'buffer sizes are not computed over states and variables: %s' % sorted(ls), 'sizes over voi, states and variables')

    # ------------------------------------------------------------------ G
    rep.rule('C17.G1', 'interfaceCode()/implementationCode() return {} for a null model, a null profile or a model that is not valid, before anything is emitted')
    for nm in ('interfaceCode', 'implementationCode'):
        g = F.fn1('libcellml::Generator::' + nm)
        first = [c for c in g.walk() if c.get('k') == 'Call' and c.get('mc') and c.get('fn') in ('reset', 'addOriginCommentCode')]
        if not first:
            raise AnalysisBroken('Generator::%s: emission start not found' % nm)
        from engines import facts_x
        rc = facts_x(F, g, first[0])
        need = [('mPimpl->mModel == nullptr', False), ('mPimpl->mProfile == nullptr', False), ('mPimpl->mModel->isValid()', True)]
        miss = [x for x in need if x not in rc]
        rep.check(not miss, 'C17.G1', nm, g.where(first[0]), 'code emission starts without the gate conditions %s' % miss, 'gated')
    iv = F.fn1('libcellml::AnalyserModel::isValid')
    from engines import case_labels_reaching, label_enum
    trues = [r for r in iv.walk() if r.get('k') == 'Return' and r.get('c') and render(r['c'][0]) == 'true']
    labs = set()
    for r in trues:
        sw, ls = case_labels_reaching(iv, r)
        labs |= {label_enum(l) for l in ls}
    txt = [render(r['c'][0]) for r in iv.walk() if r.get('k') == 'Return' and r.get('c')]
    if not labs and len(txt) == 1:
        labs = {t for t in ('ALGEBRAIC', 'ODE', 'NLA', 'DAE', 'INVALID', 'UNDERCONSTRAINED', 'OVERCONSTRAINED', 'UNSUITABLY_CONSTRAINED', 'UNKNOWN') if t in txt[0]}
    rep.check(labs == {'ALGEBRAIC', 'ODE', 'NLA', 'DAE'}, 'C17.G1', 'AnalyserModel::isValid', iv.where(), 'isValid() is true for %s' % sorted(labs), 'valid = algebraic | ode | nla | dae')

    # ------------------------------------------------------------------ O: one definition of "has ODEs" / "has NLA systems"
    rep.rule('C17.O1', 'in generator.cpp the kind of the model is consulted only through modelHasOdes() (ODE or DAE) and modelHasNlas() (NLA or DAE): no other function compares the model type with one of ODE/DAE/NLA/ALGEBRAIC, '
                       'so declarations, sizes and definitions cannot disagree about, say, a DAE')
    want = {'modelHasOdes': {'ODE', 'DAE'}, 'modelHasNlas': {'NLA', 'DAE'}}
    n_o = 0
    for g in F.funcs.values():
        if not g.file.endswith('/generator.cpp'):
            continue
        refs = [x for x in g.walk() if x.get('k') == 'Ref' and x.get('dk') == 'enumc' and (x.get('q') or '').startswith('libcellml::AnalyserModel::Type::') and x['n'] in ('ODE', 'DAE', 'NLA', 'ALGEBRAIC')]
        if not refs:
            continue
        n_o += 1
        if g.name in want:
            got = {x['n'] for x in refs}
            rep.check(got == want[g.name], 'C17.O1', 'definition|' + g.name, g.where(), '%s() is true for %s, expected %s' % (g.name, sorted(got), sorted(want[g.name])), 'true for %s' % sorted(got))
        else:
            rep.fail('C17.O1', 'direct|%s' % g.short.split('::')[-1], g.where(refs[0]), '%s compares the model type with %s itself instead of using modelHasOdes()/modelHasNlas(): the other kinds that have ODEs/NLA systems are treated differently here than in the sibling emitters' % (g.short, sorted({x['n'] for x in refs})))
    for nm_, w_ in want.items():
        gs_ = [g for g in F.funcs.values() if g.name == nm_ and g.file.endswith('/generator.cpp')]
        if gs_ and not any(x.get('k') == 'Ref' and x.get('dk') == 'enumc' and (x.get('q') or '').startswith('libcellml::AnalyserModel::Type::') for x in gs_[0].walk()):
            n_o += 1
            rep.fail('C17.O1', 'definition|' + nm_, gs_[0].where(), '%s() no longer derives its answer from the type of the model (%s): it now returns `%s`, which differs from the model type when, e.g., every state is an external variable (an ODE model without states)'
                     % (nm_, sorted(w_), '; '.join(render(r['c'][0])[:50] for r in gs_[0].walk() if r.get('k') == 'Return' and r.get('c'))))
    if n_o < 2:
        raise AnalysisBroken('C17.O1: modelHasOdes/modelHasNlas vanished')
    rep.rule('C17.K1', 'an analysed variable keeps its component alive: AnalyserVariableImpl has a strong reference (shared_ptr<Component>) that populate() sets to the owning component of the variable. '
                       'The generator names the component of every variable through the variable\'s (weak) parent link; without the strong reference an AnalyserModel outlives the components it describes as soon as the user edits the model')
    avr = F.record('AnalyserVariable::AnalyserVariableImpl')
    keep = [x for x in avr['fields'] if 'std::shared_ptr<libcellml::Component>' in x['t']]
    pop_ = [g for g in F.funcs.values() if g.name == 'populate' and 'AnalyserVariableImpl' in (g.cls or '')]
    if not pop_:
        raise AnalysisBroken('AnalyserVariableImpl::populate vanished')
    sets_ = [a for a in pop_[0].walk() if ((a.get('k') == 'Call' and a.get('opc') == '=') or (a.get('k') == 'Bin' and a.get('op') == '=')) and a.get('c') and a['c'][0].get('k') == 'Member' and keep and a['c'][0].get('n') == keep[0]['n']
             and any(x.get('k') == 'Call' and x.get('fn') in ('owningComponent', 'parent') for x in walk(a['c'][1]))]
    rep.check(bool(keep) and bool(sets_), 'C17.K1', 'AnalyserVariableImpl|component kept alive', pop_[0].where(), 'AnalyserVariableImpl no longer holds the component of its variable (fields: %s)' % [x['n'] for x in avr['fields']], 'member %s set from the owning component' % (keep[0]['n'] if keep else ''))
    rep.rule('C17.M1', 'Generator::setModel / setProfile store what they are given, whatever it is: the assignment of the member is unconditional (setModel(nullptr) must clear the model, otherwise "no model -> empty code" is false for a reused generator)')
    for nm_, fld_ in (('setModel', 'mModel'), ('setProfile', 'mProfile')):
        g_ = F.fn1('libcellml::Generator::' + nm_)
        asg_ = [a for a in g_.walk() if ((a.get('k') == 'Call' and a.get('opc') == '=') or (a.get('k') == 'Bin' and a.get('op') == '=')) and a.get('c') and a['c'][0].get('k') == 'Member' and a['c'][0].get('n') == fld_]
        from engines import enclosing_conditions as _ec17
        rep.check(bool(asg_) and any(not _ec17(g_, a) for a in asg_), 'C17.M1', nm_, g_.where(), '%s assigns %s only when %s' % (nm_, fld_, [render(c_)[:40] for a in asg_ for c_, b_, s_ in _ec17(g_, a)]), 'unconditional assignment')

    # GeneratorProfile::setProfile(p) means "the built-in strings of p", also for a profile object whose strings were customised since: the load is unconditional
    gsp = F.fn1('libcellml::GeneratorProfile::setProfile')
    lp_ = [c for c in gsp.walk() if c.get('k') == 'Call' and c.get('fn') == 'loadProfile']
    rep.check(bool(lp_) and any(not _ec17(gsp, c) for c in lp_) and all(gsp.cfg().node_dominates(lp_[0], r_) for r_ in gsp.walk() if r_.get('k') == 'Return'), 'C17.M1', 'GeneratorProfile::setProfile|loads unconditionally', gsp.where(),
              'GeneratorProfile::setProfile loads the built-in strings only when %s: setProfile(C) on a customised C profile keeps the customised (possibly empty) method strings, and the interface then declares what the implementation does not define' % (
                  [render(c_)[:40] for c in lp_ for c_, b_, s_ in _ec17(gsp, c)] or 'a return precedes it'), 'loadProfile unconditional')

    # ------------------------------------------------------------------ B: no method with an empty body
    rep.rule('C17.B1', 'every method the generator emits gets its body through generateMethodBodyCode(), which substitutes the profile\'s empty-method statement (`pass` in Python) when nothing was generated: '
                       'each replace(<...MethodString>, "[CODE]", body) has body = generateMethodBodyCode(...), and generateMethodBodyCode returns emptyMethodString for an empty body')
    n_b = 0
    for g in F.funcs.values():
        if not g.file.endswith('/generator.cpp'):
            continue
        for c in g.walk():
            if not (c.get('k') == 'Call' and c.get('fn') == 'replace' and len(c.get('c', [])) == 3 and render(c['c'][1]) == '"[CODE]"'):
                continue
            tmpl = c['c'][0]
            getters = set()
            stack = [tmpl]
            seen_d = set()
            while stack:
                e = stack.pop()
                for x in walk(e):
                    if x.get('k') == 'Call' and x.get('mc') and (x.get('fn') or '').endswith('String'):
                        getters.add(x['fn'])
                    elif x.get('k') == 'Ref' and x.get('dk') == 'local' and x['d'] not in seen_d:
                        seen_d.add(x['d'])
                        stack += [v['c'][0] for v in g.walk() if v.get('k') == 'Var' and v.get('d') == x['d'] and v.get('c')]
            meth = sorted(x for x in getters if x.endswith('MethodString') and x != 'emptyMethodString')
            if not meth:
                continue
            n_b += 1
            body = c['c'][2]
            while body.get('k') in ('Construct', 'Cast', 'Paren', 'Temp') and len(body.get('c', [])) == 1:
                body = body['c'][0]
            ok = body.get('k') == 'Call' and body.get('fn') == 'generateMethodBodyCode'
            rep.check(ok, 'C17.B1', '%s|%s' % (g.short.split('::')[-1], '+'.join(meth)[:60]), g.where(c),
                      'the body of %s is inserted as `%s`, not through generateMethodBodyCode(): when nothing is generated for it (e.g. every state is an external variable) the Python profile emits a `def` without a body and the module does not load'
                      % (meth[0], render(body)[:50]), 'body through generateMethodBodyCode')
    if n_b < 6:
        raise AnalysisBroken('C17.B1: %d method templates with a [CODE] placeholder found, 6 confirmed' % n_b)
    mb = F.fn1('Generator::GeneratorImpl::generateMethodBodyCode')
    t = ' '.join(render(r['c'][0]) for r in mb.walk() if r.get('k') == 'Return' and r.get('c'))
    rep.check('emptyMethodString' in t and '.empty()' in t.replace(' ', ''), 'C17.B1', 'generateMethodBodyCode|empty-body', mb.where(),
              'generateMethodBodyCode no longer substitutes emptyMethodString for an empty body: `%s`' % t[:100], 'empty body -> indent + emptyMethodString')

    # ------------------------------------------------------------------ Q: what ends up in computeComputedConstants
    import requalify
    requalify.rule_requalify(F, rep, 'C17.Q1', 'C17.Q2')

    # ------------------------------------------------------------------ loop-carried locals
    from engines import rule_loop_state
    rule_loop_state(F, rep, 'C17.S1', lambda g: g.file.endswith('/generator.cpp'), 'generator.cpp')

    # ------------------------------------------------------------------ every element of a collection is handled
    from engines import rule_visit_all
    rule_visit_all(F, rep, 'C17.Y1', lambda g: g.file.endswith('/generator.cpp'), 8, 'generator.cpp')

    # ------------------------------------------------------------------ D: numbers in the generated code
    rep.rule('C17.D1', 'generateDoubleCode, which turns the text of a CellML real number into a floating-point literal of the target language, looks for the exponent under BOTH spellings the CellML grammar allows (e and E) '
                       'and for the decimal point: an exponent it does not see gets ".0" appended after it (1E5 -> 1E5.0, not a number in C or Python)')
    gd = F.fn1('libcellml::generateDoubleCode')
    chars = set()
    for c in gd.walk():
        if c.get('k') == 'Call' and c.get('mc') and c.get('fn') in ('find', 'find_first_of', 'rfind', 'find_last_of'):
            for a in c['c'][1:]:
                for x in walk(a):
                    if x.get('k') == 'Char':
                        v = x.get('v')
                        chars.add(chr(v) if isinstance(v, int) else str(v).strip("'"))
                    elif x.get('k') == 'Str':
                        chars |= set(str(x.get('v', '')).strip('"'))
    if not chars:
        raise AnalysisBroken('generateDoubleCode: no character search found')
    rep.check({'e', 'E'} <= chars, 'C17.D1', 'generateDoubleCode|exponent letters', gd.where(), 'generateDoubleCode searches for %s only: the exponent letter %s of a CellML real is not recognised' % (sorted(chars), sorted({'e', 'E'} - chars)), 'searches for %s' % sorted(chars))
    rep.check('.' in chars, 'C17.D1', 'generateDoubleCode|decimal point', gd.where(), 'generateDoubleCode does not look for a decimal point', 'decimal point looked for')

    # ------------------------------------------------------------------ clause shared with C03: a profile switched with setProfile() equals a fresh one
    if not getattr(rep, 'nested', False):
        import core
        import c03
        core.borrow(F, rep, c03, only={'C03.F1'})
