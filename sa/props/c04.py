"""C04 - the validator accepts valid models and rejects every rule violation (structural clauses)."""
import json
import re
import os
import sys

from facts import walk, render, role, is_call, null_test, AnalysisBroken, VERIF
from engines import ff, nth_arg, receiver, enclosing_conditions
import issues
import tables

LEVEL = ('Rules over validator.cpp (clang AST/CFG): (T) the traversals that reach every component, variable, reset, units and identifier are complete - full child loops without early exit, descent calls under no condition other than the frozen per-entity exemption '
         '(imported components), decided on the entity itself; (D) a "reported" set is only extended where its membership test guarded the report; (R) every reference rule cited today is still cited by an error-level issue site; '
         '(M) the MathML vocabulary accepted by the validator equals the one the analyser dispatches; (I) every created issue is described and added. Correctness of each rule predicate and absence of false positives are not decided.')
ASSUMPTIONS = ['the frozen rule set in sa/tables/validator_rules.json is the set of rules the validator reported when the check was written']

# (caller, callee) -> guard facts (rendered, truth) that may hold at the descent call besides loop conditions
TRAVERSALS = {
    ('validateModel', 'validateComponentTree'): {('model == nullptr', False), ('model->componentCount() > 0', True)},
    ('validateModel', 'validateUnits'): {('model == nullptr', False), ('model->unitsCount() > 0', True)},
    ('validateModel', 'validateConnections'): {('model == nullptr', False)},
    ('validateModel', 'checkUniqueIds'): {('model == nullptr', False)},
    ('validateModel', 'checkUniqueResetOrders'): {('model == nullptr', False)},
    ('validateComponentTree', 'validateComponentTree'): set(),
    ('validateComponentTree', 'validateComponent'): set(),
    ('validateComponent', 'validateVariable'): {('isImported', False)},
    ('validateComponent', 'validateReset'): {('isImported', False)},
    ('validateComponent', 'validateMath'): {('isImported', False), ('component->math().empty()', False)},
    ('validateConnections', 'findAllVariablesWithEquivalences'): set(),
    ('validateConnections', 'validateVariableInterface'): {('parentComponent->isImport()', False)},
    ('validateConnections', 'validateEquivalenceUnits'): {('parentComponent->isImport()', False)},
    ('validateConnections', 'validateEquivalenceStructure'): {('parentComponent->isImport()', False)},
    ('buildModelIdMap', 'buildComponentIdMap'): set(),
    ('buildComponentIdMap', 'buildComponentIdMap'): set(),
    ('buildModelResetOrderMap', 'traverseComponentTree'): set(),
    ('traverseComponentTree', 'traverseComponentTree'): set(),
    ('checkUniqueIds', 'buildModelIdMap'): set(),
    ('checkUniqueResetOrders', 'buildModelResetOrderMap'): set(),
    ('validateUnits', 'validateUnitsUnitsItem'): {('checkForLocalCycles(history, h)', False), ('units->unitCount() > 0', True)},
}
LEAF_ELEMENTS = {'true', 'false', 'exponentiale', 'pi', 'infinity', 'notanumber'}


def run(F, rep):
    vfs = {f.name: f for f in F.funcs.values() if f.file.endswith('validator.cpp')}
    # ------------------------------------------------------------------ T
    rep.rule('C04.T1', 'each traversal step of the validator (frozen caller->callee table) is inside full child loops without early exit and under no condition other than the frozen per-entity exemptions')
    for (caller, callee), allowed in sorted(TRAVERSALS.items()):
        f = vfs.get(caller)
        if f is None:
            raise AnalysisBroken('validator function %s vanished' % caller)
        calls = [c for c in f.walk() if c.get('k') == 'Call' and c.get('fn') == callee and f.enclosing_lambda(c) is None]
        if not calls:
            rep.fail('C04.T1', '%s->%s' % (caller, callee), f.where(), '%s no longer calls %s: that part of the model is not validated' % (caller, callee))
            continue
        loopconds = {render(role(l, 'cond')) for l in f.walk() if l.get('k') == 'For' and role(l, 'cond') is not None}
        for j, c in enumerate(calls):
            key = '%s->%s#%d' % (caller, callee, j + 1)
            rc = ff(f).rendered_conds_at(c) or set()
            extra = {(cc, t) for cc, t in rc if cc not in loopconds} - allowed
            loops = [l for l in f.ancestors(c) if l.get('k') in ('For', 'While', 'RangeFor', 'Do')]
            bad_loop = None
            for l in loops:
                if l.get('k') == 'For':
                    cnd = render(role(l, 'cond'))
                    if '&&' in cnd or '||' in cnd:
                        bad_loop = 'loop condition `%s` can stop before the last child' % cnd
                    init = role(l, 'init')
                    iv = [x for x in walk(init) if x.get('k') == 'Var'] if init is not None else []
                    if iv and iv[0].get('c') and render(iv[0]['c'][0]) not in ('0',):
                        bad_loop = 'loop starts at %s' % render(iv[0]['c'][0])
                body = role(l, 'body')
                for x in walk(body) if body is not None else ():
                    if x.get('k') in ('Break', 'Return') and f.enclosing_lambda(x) is None:
                        own = next((a for a in f.ancestors(x) if a.get('k') in ('For', 'While', 'Do', 'RangeFor', 'Switch')), None)
                        if x.get('k') == 'Return' or own is l:
                            bad_loop = 'the loop can be left early (line %s)' % x.get('l')
                    if x.get('k') == 'Continue' and f.cfg().node_dominates(x, c) is False:
                        # a `continue` before the call skips it for some elements: allowed only as the frozen exemption
                        cs = ff(f).rendered_conds_at(x) or set()
                        ex = {(cc, not t) for cc, t in cs if cc not in loopconds}
                        pos_x, pos_c = f.cfg().block_of(x), f.cfg().block_of(c)
                        before = x.get('l', 0) < c.get('l', 0)
                        if before and not ({(cc, t) for cc, t in cs if cc not in loopconds} <= {(a, not b) for a, b in allowed}):
                            bad_loop = 'elements are skipped by `continue` under %s' % sorted(cs)
            rep.check(not extra and bad_loop is None, 'C04.T1', key, f.where(c),
                      ('%s reaches %s only under %s' % (caller, callee, sorted(extra)) if extra else '%s -> %s: %s' % (caller, callee, bad_loop)) + ': part of the model escapes this rule',
                      'unconditional apart from %s' % sorted(allowed) if allowed else 'unconditional')
    # the per-entity exemption in validateConnections is decided on the variable's own component
    vc = vfs['validateConnections']
    pc = [v for v in vc.walk() if v.get('k') == 'Var' and v.get('n') == 'parentComponent']
    rep.check(bool(pc) and render(pc[0]['c'][0]) == 'owningComponent(variable)', 'C04.T1', 'validateConnections|exemption-on-own-component', vc.where(), 'the import exemption is not decided on the variable\'s own component', 'exemption decided per variable on owningComponent(variable)')
    vcomp = vfs['validateComponent']
    ii = [v for v in vcomp.walk() if v.get('k') == 'Var' and v.get('n') == 'isImported']
    rep.check(bool(ii) and 'component->isImport()' in render(ii[0]['c'][0]), 'C04.T1', 'validateComponent|exemption-on-own-component', vcomp.where(), '`isImported` is not component->isImport()', 'exemption decided on the component itself')

    # ------------------------------------------------------------------ D
    rep.rule('C04.D1', 'an insertion into a "reported" set that suppresses repeated reports is made only where its own membership test held (the element was not yet reported and is being reported now)')
    n_d = 0
    for f in vfs.values():
        sets = {}
        for c in f.walk():
            if c.get('k') == 'Call' and c.get('mc') and c.get('fn') == 'count' and receiver(c) is not None and 'std::set<' in receiver(c).get('t', ''):
                sets.setdefault(render(receiver(c)), []).append(c)
        for c in f.walk():
            if c.get('k') == 'Call' and c.get('mc') and c.get('fn') in ('insert', 'emplace') and receiver(c) is not None and render(receiver(c)) in sets:
                n_d += 1
                s = render(receiver(c))
                a = render(nth_arg(c, 0))
                rc = ff(f).rendered_conds_at(c) or set()
                ok = ('%s.count(%s) == 0' % (s, a), True) in rc or ('%s.count(%s) != 0' % (s, a), False) in rc or ('%s.count(%s) > 0' % (s, a), False) in rc
                rep.check(ok, 'C04.D1', '%s|%s.insert(%s)' % (f.name, s, a), f.where(c),
                          '`%s.insert(%s)` is not guarded by `%s.count(%s) == 0`: an element is marked as reported on paths where nothing was checked or reported, so the rule is silently skipped for it' % (s, a, s, a), 'inserted only where the membership test held')
    if n_d < 1:
        raise AnalysisBroken('no dedupe set found in validator.cpp')

    # ------------------------------------------------------------------ R
    rep.rule('C04.R1', 'every reference rule the validator cited when the check was written is still cited by an issue site of validator.cpp, and validator issues keep the default ERROR level')
    sys.path.insert(0, os.path.join(VERIF, 'sa', 'props'))
    import c15
    floor = set(json.load(open(os.path.join(VERIF, 'sa', 'tables', 'validator_rules.json')))['rules'])
    S = [s for s in issues.sites(F) if s.func.file.endswith('validator.cpp')]
    cited = set()
    for s in S:
        for r, rn in zip(s.rules, s.rule_nodes):
            if r.startswith('?'):
                cited |= set(c15.resolve_enums(F, s.func, rn) or [])
            else:
                cited.add(r)
    for r in sorted(floor):
        rep.check(r in cited, 'C04.R1', r, None, 'no issue site of validator.cpp cites ReferenceRule::%s any more: a model breaking that rule is no longer reported under it' % r, 'cited')
    for s in S:
        if s.level_nodes:
            rep.fail('C04.R1', 'level|%s|%s' % (s.func.name, '+'.join(s.rules)), s.where, 'validator issue is given level %s; validation rule violations are errors' % s.level)
    rep.ok('C04.R1', 'levels', None, '%d validator issue sites keep the default ERROR level' % len(S))
    if len(S) < 50:
        raise AnalysisBroken('validator issue sites: %d found, 56 confirmed' % len(S))

    # ------------------------------------------------------------------ M
    rep.rule('C04.M1', 'supportedMathMLElements = elements dispatched by the validator (plus the leaf constants) = elements dispatched by AnalyserImpl::analyseNode (plus sep, and notanumber through its final else)')
    g = F.glob('supportedMathMLElements')
    els = {tables.unwrap1(v) for v, n in tables.rows(g['init'])}
    vf = vfs['validateMathMLElementsChildrenAndSiblings']
    ve = {x['v'] for c in vf.walk() if c.get('k') == 'Call' and c.get('fn') == 'isMathmlElement' for x in walk(c) if x.get('k') == 'Str'}
    af = F.fn1('Analyser::AnalyserImpl::analyseNode')
    ae = {x['v'] for c in af.walk() if c.get('k') == 'Call' and c.get('fn') == 'isMathmlElement' for x in walk(c) if x.get('k') == 'Str'}
    # table-driven dispatch: a helper called from analyseNode that tests isMathmlElement(<entry of a file-level table>) contributes the strings of that table
    for ck_ in {k_ for c in af.walk() if c.get('k') == 'Call' and not c.get('opc') for k_ in F.callee_keys(c)}:
        h_ = F.funcs.get(ck_)
        if h_ is None or h_.file != af.file or h_ is af:
            continue
        if any(c.get('k') == 'Call' and c.get('fn') == 'isMathmlElement' and not any(x.get('k') == 'Str' for x in walk(c)) for c in h_.walk()):
            for r_ in h_.walk():
                if r_.get('k') == 'Ref' and r_.get('dk') == 'global':
                    gl_ = next((v_ for k2_, v_ in F.globals.items() if v_.get('n') == r_.get('n') and v_.get('file') == h_.file), None)
                    if gl_ is not None and gl_.get('init') is not None:
                        ae |= {x['v'] for x in walk(gl_['init']) if x.get('k') == 'Str'}
    where = '%s:%d' % (g['file'], g['line'])
    for e in sorted(els | ve | ae):
        if e == 'math':
            continue
        in_v = e in ve or e in LEAF_ELEMENTS
        in_a = e in ae or e in ('sep', 'notanumber')
        rep.check(e in els and in_v and in_a, 'C04.M1', e, where,
                  'MathML element <%s>: accepted by the validator list: %s, dispatched by the validator: %s, dispatched by the analyser: %s - an accepted element that the analyser does not know silently becomes NaN' % (e, e in els, in_v, in_a), 'known to all three')
    # the analyser's last branch is a plain else (catch-all for notanumber)
    if len(els) < 60:
        raise AnalysisBroken('supportedMathMLElements: %d elements read' % len(els))
    sup = [c for f in vfs.values() for c in f.walk() if c.get('k') == 'Ref' and c.get('n') == 'supportedMathMLElements']
    rep.check(bool(sup), 'C04.M1', 'list-is-consulted', None, 'the validator no longer consults supportedMathMLElements', 'validator consults the list')

    # ------------------------------------------------------------------ I
    rep.rule('C04.I1', 'every issue created in validator.cpp is described and reaches addIssue (or is returned to a caller that adds it) on every path')
    for s in S:
        k = '%s|%s|l-order%d' % (s.func.name, '+'.join(s.rules) or 'UNDEFINED', sum(1 for x in S if x.func is s.func and x.create.get('l', 0) < s.create.get('l', 0)))
        rep.check(issues.reaches_logger(s) and s.desc is not None, 'C04.I1', k, s.where, 'issue is created but not added/described on every path', 'described and added')

    # ------------------------------------------------------------------ W: recursive XML walks
    rep.rule('C04.W1', 'a validator function that walks MathML recursively along firstChild()/next() continues the walk on every path on which the node exists: '
                       'each continuation call is conditional on null tests only (an early return or extra condition abandons the following siblings and their subtrees)')
    vkeys = {f.key for f in F.funcs.values() if f.file.endswith('/validator.cpp')}
    n_w = 0
    n_walkers = 0
    for comp in F.sccs():
        comp = [k for k in comp if k in vkeys]
        if not comp:
            continue
        # a walker component: some call inside it hands on `x->next()` / `x->firstChild()` (directly or through a local)
        def steps(f, c):
            for a in (c['c'][1:] if c.get('mc') else c['c']):
                t = render(a)
                if t.endswith('->next()') or t.endswith('->firstChild()'):
                    return True
                if a.get('k') == 'Ref' and a.get('dk') in ('local', 'parm'):
                    for d in f.walk():
                        cc = d.get('c', [])
                        rhs = None
                        if d.get('k') == 'Var' and d.get('d') == a.get('d') and cc:
                            rhs = cc[0]
                        elif d.get('k') == 'Call' and d.get('opc') == '=' and cc and cc[0].get('k') == 'Ref' and cc[0].get('d') == a.get('d'):
                            rhs = cc[1]
                        if rhs is not None and render(rhs).endswith(('->next()', '->firstChild()')):
                            return True
                if a.get('k') == 'Ref' and a.get('dk') == 'parm':
                    # parameter of a local lambda: the step is made where the lambda is called
                    lam = f.enclosing_lambda(a)
                    if lam is not None and any(p_.get('d') == a.get('d') for p_ in lam.get('params', [])):
                        j = next(i for i, p_ in enumerate(lam['params']) if p_.get('d') == a.get('d'))
                        holders = {v['d'] for v in f.walk() if v.get('k') == 'Var' and v.get('c') and any(x is lam for x in walk(v['c'][0]))}
                        for d in f.walk():
                            cc = d.get('c', [])
                            if d.get('k') == 'Call' and d.get('opc') == '()' and cc and cc[0].get('k') == 'Ref' and cc[0].get('d') in holders and len(cc) > j + 1 and render(cc[j + 1]).endswith(('->next()', '->firstChild()')):
                                return True
            return False
        calls = []
        for k in comp:
            f = F.funcs[k]
            for c in f.walk():
                if c.get('k') == 'Call' and not c.get('opc') and any(ck in comp for ck in F.callee_keys(c)):
                    calls.append((f, c))
        recursive = len(comp) > 1 or any(True for f, c in calls)
        if not recursive or not any(steps(f, c) for f, c in calls):
            continue
        n_walkers += 1
        for f, c in calls:
            conds = ff(f).conds_at(c) or []
            extra = [(render(cn), tr) for cn, tr in conds if null_test(cn) is None]
            n_w += 1
            # an early exit written before the call, in the same body, under anything but a null test abandons the walk as well (the false edge of a
            # conjunction leaves no atomic fact behind, so this is decided on the statements)
            lam_c = f.enclosing_lambda(c)
            order = {id(n_): k_ for k_, n_ in enumerate(f.walk())}
            for r_ in f.walk():
                if r_.get('k') == 'Return' and f.enclosing_lambda(r_) is lam_c and order[id(r_)] < order[id(c)] and not any(x is c for x in walk(r_)):
                    from engines import enclosing_conditions as _ec04
                    guards = [cn for cn, br, st in _ec04(f, r_) if lam_c is None or any(x is st for x in walk(lam_c))]
                    def _nullish(cn):
                        if cn.get('k') == 'Bin' and cn.get('op') in ('&&', '||'):
                            return all(_nullish(x) for x in cn['c'])
                        if cn.get('k') in ('Paren', 'Cast') and len(cn.get('c', [])) == 1:
                            return _nullish(cn['c'][0])
                        return null_test(cn) is not None
                    if guards and not all(_nullish(g_) for g_ in guards):
                        extra.append(('no early exit at line %s under `%s`' % (r_.get('l'), render(next(g_ for g_ in guards if not _nullish(g_)))[:60]), True))
            rep.check(not extra, 'C04.W1', '%s|%s' % (f.name, render(c)[:50]), f.where(c),
                      '%s: the walk is continued by `%s` only when %s: the siblings and children after such a node are never validated' % (f.short, render(c)[:50], ' and '.join('%s is %s' % e for e in extra)[:160]),
                      'continued whenever the node exists')
    if n_walkers < 2 or n_w < 3:
        raise AnalysisBroken('C04.W1: %d recursive XML walks with %d continuation calls found in validator.cpp (2 walks with 5 calls confirmed)' % (n_walkers, n_w))

    # ------------------------------------------------------------------ S: identifiers of shared objects
    rep.rule('C04.S1', 'the identifier of an object that several entities share (the import source of imported units/components: one <import> element) is entered into the identifier map once per object, '
                       'i.e. its insertion is conditional on a membership test over the import sources already entered; otherwise a valid model is reported as having a duplicated id')
    n_s = 0
    for f in vfs.values():
        for c in f.walk():
            if c.get('k') == 'Call' and c.get('fn') == 'addIdMapItem':
                a = nth_arg(c, 0)
                if a is None or 'importSource()' not in render(a) and not any('importSource()' in render(d['c'][0]) for d in f.walk() if d.get('k') == 'Var' and d.get('c') and a.get('k') == 'Call' and render(receiver(a) or {}) == d.get('n')):
                    continue
                n_s += 1
                conds = ff(f).conds_at(c) or []
                guarded = any(any(x.get('k') == 'Call' and (x.get('callee') in ('std::find', 'std::find_if', 'std::count') or x.get('fn') in ('count', 'find', 'insert')) for x in walk(cn)) and 'mport' in render(cn) for cn, tr in conds)
                rep.check(guarded, 'C04.S1', '%s|%s' % (f.name, render(a)[:40]), f.where(c),
                          '%s enters the id of an import source once per importing units/component: an <import id="x"> with two children is reported as a duplicated identifier although the model is valid' % f.short, 'entered once per import source')
    if n_s < 2:
        raise AnalysisBroken('C04.S1: import-source id insertions vanished (%d found, 2 confirmed)' % n_s)

    # ------------------------------------------------------------------ A / P: flags and cycle guards of the rule functions
    rep.rule('C04.A1', 'in validator.cpp a flag that is gathered over a loop and consulted afterwards is only ever raised inside the loop, or the loop stops at the first hit: '
                       'otherwise the last element decides (e.g. whether an equivalent variable already has a reset of that order)')
    from engines import accumulating_flags
    n_a = 0
    for g in vfs.values():
        for v, loop, x, mono in accumulating_flags(g):
            n_a += 1
            rep.check(mono, 'C04.A1', '%s|%s' % (g.name, render(x)[:50]), g.where(x), '%s: `%s` inside the loop lets the last element decide %s, which is consulted after the loop' % (g.short, render(x)[:60], v['n']), 'only raised')
    rep.ok('C04.A1', 'scan', None, '%d accumulating flags in validator.cpp' % n_a)
    rep.rule('C04.P1', 'the cycle guard of the units reduction used for connected variables pops what it pushed on every path (units reached twice along different branches are not a cycle)')
    import recursion
    n_p = 0
    for g in F.funcs.values():
        if g.file.endswith('/validator.cpp'):
            for c, name, ok, detail in recursion.path_guard_balance(F, g):
                n_p += 1
                rep.check(ok, 'C04.P1', '%s|%s' % (g.name, name), g.where(c), '%s: after `%s` some path reaches the exit without pop_back (%s)' % (g.short, render(c)[:40], detail), 'balanced (%s)' % detail)
    for g in F.funcs.values():
        if g.file.endswith('/validator.cpp'):
            for c, name, ok, detail in recursion.history_discipline(F, g):
                n_p += 1
                rep.check(ok, 'C04.P1', '%s|%s|l%s' % (g.name, name, sum(1 for x in g.walk() if x.get('k') == 'Call' and x.get('fn') == 'push_back' and x.get('l', 0) < c.get('l', 0))), g.where(c),
                          '%s pushes an epoch on the shared visit history and some path reaches the exit without popping it (%s): a later sibling import is reported as a cyclic dependency although the model is valid' % (g.short, detail), 'popped (%s)' % detail)
    if n_p < 5:
        raise AnalysisBroken('C04.P1: cycle guards / history pushes of the validator vanished (%d found, 7 confirmed)' % n_p)

    # ------------------------------------------------------------------ clauses shared with C16 (value recognisers the validator relies on)
    import core
    import c16
    if not getattr(rep, 'nested', False):
        core.borrow(F, rep, c16, only={'C16.N1', 'C16.G1', 'C16.U2'})
    # the hierarchy predicates the validator relies on for connections (siblings / parent-child) compare owners: clause shared with C09
    import c09
    if not getattr(rep, 'nested', False):
        core.borrow(F, rep, c09, only={'C09.Q1'})

    # ------------------------------------------------------------------ W: walks over the component tree are complete
    import recursion as _recw
    _recw.rule_walkers(F, rep, 'C04.W2', ['validateComponentTree', 'traverseComponentTree', 'buildComponentIdMap', 'findAllVariablesWithEquivalences'], 4, 'validating components, collecting ids and connected variables')

    # ------------------------------------------------------------------ B: belonging is decided by identity
    rep.rule('C04.B1', 'whether an entity belongs to a container is decided from the entity itself (its owner, or the pointer overload of has*/contains*), not by looking its NAME up in the container: '
                       '`c->hasVariable(v->name())` is true for a variable of another component that merely has a namesake in c (a reset that refers to a foreign variable is then accepted)')
    BY_NAME_OK = {('linkComponentVariableUnits', 'hasUnits'): 'the units of that NAME in the model are what a variable is to be linked to'}
    n_b = 0
    for g in F.funcs.values():
        if '/src/' not in g.file:
            continue
        for c in g.walk():
            if not (c.get('k') == 'Call' and c.get('mc') and re.match(r'^(has|contains)[A-Z]', c.get('fn') or '') and len(c.get('c', [])) >= 2):
                continue
            a = c['c'][1]
            while a.get('k') in ('Construct', 'Cast', 'Temp') and len(a.get('c', [])) == 1:
                a = a['c'][0]
            if not (a.get('k') == 'Call' and a.get('mc') and a.get('fn') == 'name' and a.get('c')):
                continue
            # is there an overload of the same member function that takes the entity itself?
            ptr_overload = any(h.name == c['fn'] and h.cls == (F.funcs[ck].cls if ck in F.funcs else None) and h.params and 'std::shared_ptr<' in h.params[0]['t']
                               for ck in F.callee_keys(c) for h in F.funcs.values())
            if not ptr_overload:
                continue
            n_b += 1
            if (g.name, c['fn']) in BY_NAME_OK:
                rep.exempt('C04.B1', '%s|%s' % (g.name, render(c)[:50]), BY_NAME_OK[(g.name, c['fn'])])
                continue
            rep.fail('C04.B1', '%s|%s' % (g.name, render(c)[:50]), g.where(c), '%s asks `%s`: the name of an entity is looked up although the entity itself is at hand and %s has an overload that takes it' % (g.short, render(c)[:60], c['fn']))
    rep.ok('C04.B1', 'scan', None, '%d by-name membership tests with the entity at hand in the library (1 confirmed and exempt)' % n_b)
    if n_b < 1:
        raise AnalysisBroken('C04.B1: the confirmed by-name membership test (linkComponentVariableUnits) vanished; the matcher no longer works')

    # ------------------------------------------------------------------ loop-carried locals
    from engines import rule_loop_state
    rule_loop_state(F, rep, 'C04.L1', lambda g: g.file.endswith('/validator.cpp'), 'validator.cpp')

    # ------------------------------------------------------------------ every element of a collection is handled
    from engines import rule_visit_all
    rule_visit_all(F, rep, 'C04.Y1', lambda g: g.file.endswith('/validator.cpp'), 25, 'validator.cpp')
    # per-call state: the verdict on a model does not depend on what the same Validator object looked at before (a memo keyed by component that survives validateModel)
    import c12 as _c12
    if not getattr(rep, 'nested', False):
        _c12.rule_h1(F, rep, 'C04.H1', [st for st in _c12.STATE if st[0] == 'Validator::ValidatorImpl'])
    # binary searches need a sorted range
    from engines import rule_sorted_search
    rule_sorted_search(F, rep, 'C04.U1', lambda g: '/src/' in g.file, 'the library')

    # ------------------------------------------------------------------ E: independent checks are all performed
    rep.rule('C04.E1', 'a validator function that makes several checks in sequence makes all of them: a `return` that is taken without reporting anything may only skip checks that are about the very thing its condition tested '
                       '(e.g. "the variable has no units" skips the comparison of units); if a later check does not mention that thing it is skipped for unrelated reasons and its rule violations go unreported')

    def _capable(st):
        return any(c.get('k') == 'Call' and (c.get('fn') in ('addIssue', 'addMathmlIssue') or (c.get('fn') or '').startswith(('validate', 'check'))) for c in walk(st))
    n_e = 0
    for g in vfs.values():
        if g.j.get('ret') != 'void':
            continue
        body = next((n for n in g.walk() if n.get('k') == 'Compound'), None)
        top = body.get('c', []) if body is not None else []
        for k_, st in enumerate(top):
            rets = [r for r in walk(st) if r.get('k') == 'Return' and g.enclosing_lambda(r) is None and not any(a.get('k') in ('For', 'RangeFor', 'While', 'Do') for a in g.ancestors(r))]
            later = [x for x in top[k_ + 1:] if _capable(x)]
            if not rets or not later:
                continue
            for r in rets:
                blk = g.parent(r)
                sibs = blk.get('c', []) if blk is not None else []
                before = sibs[:sibs.index(r)] if r in sibs else []
                if any(c.get('k') == 'Call' and c.get('fn') in ('addIssue', 'addMathmlIssue') for b in before for c in walk(b)):
                    continue   # error exit after a report
                n_e += 1
                conds = [cnd for cnd, br, st2 in enclosing_conditions(g, r)]
                subj_d = {x['d'] for cnd in conds for x in walk(cnd) if x.get('k') == 'Ref' and x.get('dk') in ('local',)}
                subj_t = {render(x) for cnd in conds for x in walk(cnd) if x.get('k') == 'Call' and x.get('mc') and not x.get('opc') and len(x.get('c', [])) == 1}
                # locals that carry the tested thing further (an issue whose description is built from it): one statement that mentions both ties them
                tied = set(subj_d)
                changed_ = True
                tail = top[k_ + 1:]
                while changed_:
                    changed_ = False
                    for x in tail:
                        for sub_ in ([x] if x.get('k') != 'Compound' else x.get('c', [])):
                            ds = {y['d'] for y in walk(sub_) if y.get('k') == 'Ref' and y.get('dk') == 'local'} | {y['d'] for y in walk(sub_) if y.get('k') == 'Var'}
                            if (ds & tied or any(t_ in render(sub_) for t_ in subj_t)) and not ds <= tied and sub_.get('k') not in ('If', 'For', 'RangeFor', 'While', 'Switch'):
                                tied |= ds
                                changed_ = True
                unrelated = [x for x in later if not (any(y.get('k') == 'Ref' and y.get('d') in tied for y in walk(x)) or any(t_ in render(x) for t_ in subj_t))]
                rep.check(not unrelated, 'C04.E1', '%s|return@%d' % (g.name, sum(1 for y in g.walk() if y.get('k') == 'Return' and y.get('l', 0) < r.get('l', 0))), g.where(r),
                          '%s returns silently when `%s`; %d later check(s) that have nothing to do with that test are skipped as well (first at line %s)' % (g.short, ' and '.join(render(c_)[:40] for c_ in conds), len(unrelated), unrelated[0].get('l') if unrelated else ''),
                          'only checks about the tested thing are skipped')
    rep.ok('C04.E1', 'scan', None, '%d silent early returns in front of further checks in validator.cpp (1 confirmed: validateEquivalenceUnits)' % n_e)

    # ------------------------------------------------------------------ N: XML name characters (the ids the validator accepts)
    rep.rule('C04.N1', 'the character classes behind every id check equal the XML 1.1 productions NameStartChar and NameChar: the comparison chains of isNameStartChar/isNameChar are evaluated (no execution: the expression only compares '
                       'its argument with constants, so the constants and their neighbours are representative) and compared with the intervals of the specification, encoded as the packed UTF-8 values the code uses')
    START = [(0x3A, 0x3A), (0x41, 0x5A), (0x5F, 0x5F), (0x61, 0x7A), (0xC0, 0xD6), (0xD8, 0xF6), (0xF8, 0x2FF), (0x370, 0x37D), (0x37F, 0x1FFF), (0x200C, 0x200D), (0x2070, 0x218F), (0x2C00, 0x2FEF), (0x3001, 0xD7FF),
             (0xF900, 0xFDCF), (0xFDF0, 0xFFFD), (0x10000, 0xEFFFF)]
    EXTRA = [(0x2D, 0x2D), (0x2E, 0x2E), (0x30, 0x39), (0xB7, 0xB7), (0x300, 0x36F), (0x203F, 0x2040)]

    def _pack(cp):
        return int.from_bytes(chr(cp).encode('utf-8'), 'big')

    def _member(tbl, cp):
        return any(a <= cp <= b for a, b in tbl)

    def _ev(e, val, pd):
        while e.get('k') in ('Paren', 'Cast', 'Construct') and len(e.get('c', [])) == 1:
            e = e['c'][0]
        if e.get('k') == 'Bin' and e.get('op') in ('||', '&&'):
            a, b = _ev(e['c'][0], val, pd), _ev(e['c'][1], val, pd)
            return (a or b) if e['op'] == '||' else (a and b)
        if e.get('k') == 'Bin' and e.get('op') in ('<=', '<', '>=', '>', '==', '!='):
            def term(x):
                while x.get('k') in ('Paren', 'Cast', 'Construct') and len(x.get('c', [])) == 1:
                    x = x['c'][0]
                if x.get('k') == 'Ref' and x.get('d') == pd:
                    return val
                if x.get('k') == 'Int':
                    return int(x['v'])
                raise AnalysisBroken('C04.N1: operand `%s` is neither the argument nor a constant' % render(x)[:40])
            a, b = term(e['c'][0]), term(e['c'][1])
            return {'<=': a <= b, '<': a < b, '>=': a >= b, '>': a > b, '==': a == b, '!=': a != b}[e['op']]
        if e.get('k') == 'Bool':
            return bool(e.get('v'))
        raise AnalysisBroken('C04.N1: cannot evaluate `%s`' % render(e)[:60])
    fs_ = F.fn1('libcellml::isNameStartChar')
    fn_ = F.fn1('libcellml::isNameChar')
    rs_ = [r for r in fs_.walk() if r.get('k') == 'Return' and r.get('c')]
    rn_ = [r for r in fn_.walk() if r.get('k') == 'Return' and r.get('c') and r['c'][0].get('k') != 'Bool']
    delegates = any(c.get('k') == 'Call' and c.get('fn') == 'isNameStartChar' for c in fn_.walk())
    if len(rs_) != 1 or len(rn_) != 1 or not delegates:
        raise AnalysisBroken('isNameStartChar / isNameChar: shape not recognised (%d / %d value returns, delegation %s)' % (len(rs_), len(rn_), delegates))
    # representative code points: interval ends of the specification and their neighbours, plus every constant of the code and its neighbours (decoded)
    pts = set()
    for a, b in START + EXTRA:
        pts |= {a - 1, a, a + 1, b - 1, b, b + 1}
    consts = {int(x['v']) for g_ in (fs_, fn_) for x in g_.walk() if x.get('k') == 'Int'}
    packed_pts = set()
    for cp in pts:
        if 0 < cp < 0x110000 and not (0xD800 <= cp <= 0xDFFF):
            packed_pts.add((cp, _pack(cp)))
    by_pack = {}
    for cp in range(1, 0x3000):
        by_pack[_pack(cp)] = cp
    for c_ in consts:
        for d_ in (-1, 0, 1):
            if c_ + d_ in by_pack:
                packed_pts.add((by_pack[c_ + d_], c_ + d_))
    for nm, g_, ret, want in (('isNameStartChar', fs_, rs_[0], lambda cp: _member(START, cp)), ('isNameChar', fn_, rn_[0], lambda cp: _member(START, cp) or _member(EXTRA, cp))):
        pd = g_.params[0]['d']
        wrong = []
        for cp, pk in sorted(packed_pts):
            got = _ev(ret['c'][0], pk, pd)
            if nm == 'isNameChar':
                got = got or _ev(rs_[0]['c'][0], pk, fs_.params[0]['d'])
            if got != want(cp):
                wrong.append('U+%04X %s' % (cp, 'accepted' if got else 'rejected'))
        rep.check(not wrong, 'C04.N1', nm, g_.where(ret), '%s disagrees with the XML 1.1 production on %s' % (nm, ', '.join(wrong[:8])), 'agrees on %d representative code points' % len(packed_pts))


