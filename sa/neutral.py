"""Self-test against false alarms: behaviour-preserving edits (mutants/neutral.json) are applied to a scratch copy of /repo/src and
EVERY check is run on it; a check that reports a violation (exit 1) on such a copy has a false alarm, exit 2 (anchor vanished)
is tolerated and listed.  Evidence only."""
import json
import os
import shutil
import subprocess
import sys
import tempfile

VERIF = os.path.dirname(os.path.dirname(os.path.abspath(__file__)))


def run_one(m, repo='/repo'):
    tmp = tempfile.mkdtemp(prefix='verif-neutral-')
    try:
        shutil.copytree(os.path.join(repo, 'src'), os.path.join(tmp, 'src'), ignore=shutil.ignore_patterns('bindings'))
        b = os.path.join(repo, '_build', 'src')
        os.makedirs(os.path.join(tmp, '_build', 'src', 'api', 'libcellml'))
        for rel in ('versionconfig.h', 'api/libcellml/exportdefinitions.h'):
            if os.path.exists(os.path.join(b, rel)):
                shutil.copyfile(os.path.join(b, rel), os.path.join(tmp, '_build', 'src', rel))
        if m.get('patch'):
            r0 = subprocess.run(['patch', '-p1', '-s', '-d', tmp, '-i', m['patch']], stdout=subprocess.PIPE, stderr=subprocess.STDOUT, text=True)
            if r0.returncode != 0:
                return {'id': m['id'], 'status': 'skipped', 'why': 'patch does not apply: ' + r0.stdout.strip()[-120:]}
        else:
            p = os.path.join(tmp, 'src', m['file'])
            s = open(p).read()
            if s.count(m['old']) != 1:
                return {'id': m['id'], 'status': 'skipped', 'why': 'pattern occurs %d times' % s.count(m['old'])}
            open(p, 'w').write(s.replace(m['old'], m['new']))
        env = dict(os.environ, VERIF_REPO=tmp, VERIF_EVIDENCE_DIR=os.path.join(tmp, 'evidence'))
        man = json.load(open(os.path.join(VERIF, 'MANIFEST.json')))
        res = {}
        only = [x for x in os.environ.get('VERIF_NEUTRAL_PROPS', '').split(',') if x]
        for c in man['checks']:
            if only and c['property_id'] not in only:
                continue
            r = subprocess.run([sys.executable, os.path.join(VERIF, 'check'), c['property_id'], '--tier', 'quick'], env=env, stdout=subprocess.PIPE, stderr=subprocess.STDOUT, text=True)
            if r.returncode != 0:
                res[c['property_id']] = (r.returncode, [l for l in r.stdout.splitlines() if l.startswith(('  instance', 'ANALYSIS-BROKEN')) or (('Error' in l or 'Exception' in l) and not l.startswith(' '))][:4])
        return {'id': m['id'], 'status': 'quiet' if not res else ('false-alarm' if any(v[0] == 1 for v in res.values()) else 'anchor-lost'), 'non_zero': res}
    finally:
        shutil.rmtree(tmp, ignore_errors=True)


if __name__ == '__main__':
    ms = json.load(open(os.path.join(VERIF, 'mutants', 'neutral.json')))
    # behaviour-preserving refactorings written by independent agents (seeded_neutral/<id>/patch.diff)
    nd = os.path.join(VERIF, 'seeded_neutral')
    if os.path.isdir(nd):
        for d in sorted(os.listdir(nd)):
            pp = os.path.join(nd, d, 'patch.diff')
            if os.path.exists(pp):
                ms.append({'id': 'agent:' + d, 'patch': pp})
    if len(sys.argv) > 1:
        ms = [m for m in ms if any(a in m['id'] for a in sys.argv[1:])]
    from concurrent.futures import ThreadPoolExecutor
    with ThreadPoolExecutor(max_workers=int(os.environ.get('VERIF_NEUTRAL_JOBS', '4'))) as ex:
        out = list(ex.map(run_one, ms))
    for r in out:
        print(json.dumps(r))
    print('%d neutral edits: %d quiet, %d anchor-lost, %d false alarms, %d skipped' % (len(out), sum(r['status'] == 'quiet' for r in out), sum(r['status'] == 'anchor-lost' for r in out), sum(r['status'] == 'false-alarm' for r in out), sum(r['status'] == 'skipped' for r in out)))
