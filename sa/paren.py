"""E12: parenthesisation decision table of the code generator, extracted from the AST of generator.cpp /
generatorprofile.cpp and checked against the precedence rules of the target languages.

Nothing is generated or executed: the if-chains of generateOperatorCode / generateMinusUnaryCode, the predicate
helpers (isRelationalOperator, ...) and the per-type dispatch of generateCode are *interpreted abstractly* over
child classes (AST type, unary/binary, negative literal, "text starts with minus")."""
from facts import walk, render, role, is_call, AnalysisBroken
from engines import case_labels_reaching, label_enum, enclosing_conditions

GEN = 'libcellml::Generator::GeneratorImpl'


# ----------------------------------------------------------------------------- profiles
def load_profiles(F):
    """{'C': {'flags': {...}, 'strings': {...}}, 'PYTHON': {...}} from the switch over the profile in generatorprofile.cpp"""
    out = {}
    for f in F.funcs.values():
        if not f.file.endswith('generatorprofile.cpp'):
            continue
        for n in f.walk():
            lhs = rhs = None
            if n.get('k') == 'Bin' and n.get('op') == '=' and n['c'][0].get('k') == 'Member':
                lhs, rhs = n['c'][0], n['c'][1]
            elif n.get('k') == 'Call' and n.get('opc') == '=' and n['c'][0].get('k') == 'Member':
                lhs, rhs = n['c'][0], n['c'][1]
            if lhs is None:
                continue
            name = lhs['n']
            if not (name.startswith('mHas') or name.endswith('String')):
                continue
            sw, labels = case_labels_reaching(f, n)
            profs_here = [label_enum(l) for l in labels]
            if not profs_here:
                # `if (profile == Profile::C) {...} else {...}` form
                allp = [e['n'] for e in F.enum('libcellml::GeneratorProfile::Profile')['enumerators']]
                for cnd, br, st in enclosing_conditions(f, n):
                    en = [x['n'] for x in walk(cnd) if x.get('k') == 'Ref' and x.get('dk') == 'enumc' and x['n'] in allp]
                    if cnd.get('k') == 'Bin' and cnd.get('op') == '==' and len(en) == 1:
                        profs_here = en if br == 'then' else [x for x in allp if x not in en]
                        break
            if not profs_here and f.name == 'loadProfile':
                profs_here = ['C', 'PYTHON']      # assigned outside the per-profile branches of loadProfile: the same value for every profile
            for prof in profs_here:
                if prof not in ('C', 'PYTHON'):
                    continue
                p = out.setdefault(prof, {'flags': {}, 'strings': {}})
                if name.startswith('mHas'):
                    if rhs.get('k') == 'Bool':
                        p['flags'][name[1:]] = bool(rhs['v'])
                else:
                    while rhs.get('k') in ('Construct', 'Cast') and len(rhs.get('c', [])) == 1:
                        rhs = rhs['c'][0]
                    if rhs.get('k') == 'Str':
                        p['strings'][name[1:]] = rhs['v']
    if set(out) != {'C', 'PYTHON'} or any(len(p['flags']) < 10 for p in out.values()):
        raise AnalysisBroken('profile flags for C/PYTHON could not be read from generatorprofile.cpp')
    return out


# ----------------------------------------------------------------------------- predicate interpreter
class Preds:
    def __init__(self, F, prof):
        self.F = F
        self.prof = prof
        self.memo = {}

    def fn(self, name):
        fs = [f for f in self.F.funcs.values() if f.cls == GEN and f.name == name]
        if len(fs) != 1:
            raise AnalysisBroken('generator predicate %s vanished' % name)
        return fs[0]

    def call(self, name, typ):
        k = (name, typ)
        if k not in self.memo:
            f = self.fn(name)
            self.memo[k] = bool(self._exec(f, f.body, typ))
        return self.memo[k]

    def _exec(self, f, s, typ):
        """Returns the returned value, or None when the statement falls through."""
        k = s.get('k')
        if k == 'Compound':
            for c in s.get('c', []):
                r = self._exec(f, c, typ)
                if r is not None:
                    return r
            return None
        if k == 'Return':
            return self._val(f, s['c'][0], typ)
        if k == 'If':
            c = self._val(f, role(s, 'cond'), typ)
            br = role(s, 'then') if c else role(s, 'else')
            return self._exec(f, br, typ) if br is not None else None
        if k == 'Switch':
            if 'type()' not in render(role(s, 'cond')):
                raise AnalysisBroken('predicate %s switches on something else than ast->type()' % f.name)
            body = role(s, 'body')
            active = False
            default_at = None
            items = body.get('c', [])
            # find the matching label (or default), then run statements until a return
            labels_of = []
            for i, st in enumerate(items):
                x = st
                labs = []
                while x is not None and x.get('k') in ('Case', 'Default'):
                    labs.append(label_enum(x))
                    x = role(x, 'sub')
                labels_of.append((labs, x))
            start = None
            for i, (labs, x) in enumerate(labels_of):
                if typ in labs:
                    start = i
                    break
            if start is None:
                for i, (labs, x) in enumerate(labels_of):
                    if 'default' in labs:
                        start = i
                        break
            if start is None:
                return None
            for labs, x in labels_of[start:]:
                if x is None:
                    continue
                if x.get('k') == 'Break':
                    return None
                r = self._exec(f, x, typ)
                if r is not None:
                    return r
            return None
        if k in ('DeclStmt', 'Null'):
            return None
        if k == 'Break':
            return None
        # expression statement without effect on the verdict
        return None

    def _val(self, f, e, typ):
        k = e.get('k')
        c = e.get('c', [])
        if k == 'Bool':
            return bool(e['v'])
        if k == 'Un' and e.get('op') == '!':
            return not self._val(f, c[0], typ)
        if k == 'Bin' and e.get('op') in ('&&', '||'):
            a = self._val(f, c[0], typ)
            if e['op'] == '&&':
                return a and self._val(f, c[1], typ)
            return a or self._val(f, c[1], typ)
        if k == 'Bin' and e.get('op') in ('==', '!='):
            l, r = c
            en = r if r.get('k') == 'Ref' and r.get('dk') == 'enumc' else (l if l.get('k') == 'Ref' and l.get('dk') == 'enumc' else None)
            other = l if en is r else r
            if en is not None and 'type()' in render(other):
                return (en['n'] == typ) == (e['op'] == '==')
        if k == 'Call' and e.get('mc') and e.get('fn', '').startswith('has') and e.get('fn', '').endswith('Operator'):
            flag = e['fn'][0].upper() + e['fn'][1:]
            if flag not in self.prof['flags']:
                raise AnalysisBroken('profile flag %s unknown' % flag)
            return self.prof['flags'][flag]
        if k == 'Call' and e.get('cls') == GEN and e.get('fn', '').startswith('is'):
            return self.call(e['fn'], typ)
        raise AnalysisBroken('predicate %s: cannot interpret `%s`' % (f.name, render(e)[:60]))


# ----------------------------------------------------------------------------- child classes
class Cls:
    __slots__ = ('typ', 'binary', 'neg', 'sminus', 'sub')

    def __init__(self, typ, binary=True, neg=False, sminus=False, sub=None):
        self.typ, self.binary, self.neg, self.sminus, self.sub = typ, binary, neg, sminus, sub

    def key(self):
        s = self.typ
        if self.typ in ('PLUS', 'MINUS'):
            s += '/2' if self.binary else '/1'
        if self.typ == 'CN' and self.neg:
            s += '/neg'
        if self.sub:
            s += '[%s]' % self.sub
        return s

    def __repr__(self):
        return self.key() + ('~-' if self.sminus else '')


# ----------------------------------------------------------------------------- the abstract generator
class Model:
    def __init__(self, F, profname, prof):
        self.F = F
        self.profname = profname
        self.prof = prof
        self.P = Preds(F, prof)
        self.gc = self.P.fn('generateCode')
        self.goc = self.P.fn('generateOperatorCode')
        self.types = [e['n'] for e in F.enum('libcellml::AnalyserEquationAst::Type')['enumerators']]
        self._forms = {}
        self.unary_fn = {}
        self.piece_fn = None
        self._dispatch()
        for c in self.gc.walk():
            if c.get('k') == 'Call' and c.get('fn') == 'generatePiecewiseIfCode':
                for a in c['c'][1:]:
                    if a.get('k') == 'Call' and a.get('cls') == GEN and a.get('fn') != 'generateCode':
                        self.piece_fn = self.P.fn(a['fn'])

    def _unary_kind(self, name):
        """'uminus' | 'prefix-not' | 'transparent' for a helper of the shape `auto code = generateCode(ast->leftChild()); [parens]; return <prefix> + code;`"""
        fs = [f for f in self.F.funcs.values() if f.cls == GEN and f.name == name]
        if len(fs) != 1 or name == 'generateCode':
            return None
        rets = [render(r['c'][0]) for r in fs[0].walk() if r.get('k') == 'Return' and r.get('c')]
        if rets == ['mProfile->minusString() + code']:
            return 'uminus'
        if rets == ['mProfile->notString() + code']:
            return 'prefix-not'
        if rets == ['code'] and any(v.get('k') == 'Var' and v.get('n') == 'astLeftChild' for v in fs[0].walk()):
            return 'transparent'
        return None

    # --- per type rendering form
    def _dispatch(self):
        f = self.gc
        sw = [s for s in f.walk() if s.get('k') == 'Switch' and 'type()' in render(role(s, 'cond'))]
        if not sw:
            raise AnalysisBroken('generateCode: switch over ast->type() vanished')
        self.gc_switch = sw[0]
        cand = {}
        for n in f.walk():
            if n.get('k') != 'Call':
                continue
            kind = None
            tokname = None
            if n.get('fn') == 'generateOperatorCode':
                args = n['c'][1:] if n.get('mc') else n['c']
                if len(args) < 2 or render(args[1]) != 'ast':
                    continue   # an auxiliary expression (e.g. 1.0/degree inside pow(...)), not the form of this node
                kind = 'infix'
                a = args[0]
                tokname = a.get('fn') if a.get('k') == 'Call' else None
            elif n.get('cls') == GEN and n.get('fn', '').startswith('generate') and self._unary_kind(n.get('fn')):
                kind = self._unary_kind(n['fn'])
                self.unary_fn[kind] = self.P.fn(n['fn'])
            elif n.get('fn') in ('generateOneParameterFunctionCode', 'generateTwoParameterFunctionCode'):
                kind = 'call'
            elif n.get('fn') in ('generatePiecewiseIfCode', 'generatePiecewiseElseCode'):
                kind = 'ternary'
            elif n.get('fn') == 'notString':
                # `notString() + generateCode(left)` is the prefix form; inside generateOneParameterFunctionCode(...) it is a call
                p = f.parent(n)
                while p is not None and p.get('k') in ('Construct', 'Cast'):
                    p = f.parent(p)
                if p is not None and p.get('k') == 'Call' and p.get('opc') == '+':
                    kind = 'prefix-not'
            if kind is None:
                continue
            sw_, labels = case_labels_reaching(f, n)
            if sw_ is not self.gc_switch:
                continue
            conds = []
            for cnd, br, st in enclosing_conditions(f, n):
                if any(x is self.gc_switch for x in f.ancestors(st)):
                    conds.append((cnd, br))
            for l in labels:
                cand.setdefault(label_enum(l), []).append((kind, tokname, conds, n))
        self.cand = cand

    def form(self, cls):
        """('infix', token) | ('uminus',) | ('prefix-not',) | ('call',) | ('ternary',) | ('atom',) for a class in this profile."""
        k = cls.key()
        if k in self._forms:
            return self._forms[k]
        res = ('atom',)
        for kind, tokname, conds, n in self.cand.get(cls.typ, []):
            ok = True
            for cnd, br in conds:
                v = self._eval_gc_cond(cnd, cls)
                if v is None:
                    continue
                if v != (br == 'then'):
                    ok = False
            if ok:
                if kind == 'infix':
                    tok = self.prof['strings'].get(tokname[0].upper() + tokname[1:], '?') if tokname else '?'
                    res = ('infix', tok.strip())
                else:
                    res = (kind,)
                break
        if cls.typ == 'PIECEWISE' and self.prof['flags'].get('HasConditionalOperator'):
            res = ('ternary',)
        self._forms[k] = res
        return res

    def _eval_gc_cond(self, e, cls):
        t = render(e)
        if t == 'ast->rightChild() != nullptr':
            return cls.binary
        if t.startswith('mProfile->has') and t.endswith('Operator()'):
            name = t[len('mProfile->'):-2]
            return self.prof['flags'].get(name[0].upper() + name[1:])
        return None   # value-dependent special cases (square, sqrt): both alternatives are function calls

    # --- parenthesisation decision of generateOperatorCode / generateMinusUnaryCode
    def _branch_for(self, X):
        """The top-level branch of generateOperatorCode taken for parent class X (None when no branch matches)."""
        body = self.goc.body
        top = [s for s in body.get('c', []) if s.get('k') == 'If']
        if not top:
            raise AnalysisBroken('generateOperatorCode: top-level if-chain vanished')
        s = top[-1] if len(top) == 1 else next((x for x in top if 'ast' in render(role(x, 'cond'))), top[0])
        while s is not None and s.get('k') == 'If':
            cnd = role(s, 'cond')
            if not (cnd.get('k') == 'Call' and cnd.get('cls') == GEN and render(cnd).endswith('(ast)')):
                raise AnalysisBroken('generateOperatorCode: branch condition `%s` is not a predicate on ast' % render(cnd)[:40])
            if self.P.call(cnd['fn'], X.typ):
                return s, role(s, 'then')
            s = role(s, 'else')
        return None, None

    def paren(self, X, L, R, LL=None):
        """(paren left?, paren right?, branch line) decided by generateOperatorCode for parent X with children L, R."""
        s, br = self._branch_for(X)
        if br is None:
            return False, False, None
        env = {'astLeftChild': L, 'astRightChild': R, 'astLeftChildLeftChild': LL or Cls('CI')}
        st = {'astLeftChildCode': False, 'astRightChildCode': False}
        self._run(self.goc, br, env, st)
        return st['astLeftChildCode'], st['astRightChildCode'], s.get('l')

    def paren_uminus(self, Z):
        return self.paren_unary('uminus', Z)

    def paren_unary(self, kind, Z):
        f = self.unary_fn.get(kind)
        if f is None:
            return False    # the form is emitted inline without any parenthesisation rule
        env = {'astLeftChild': Z}
        st = {'code': False}
        self._run(f, f.body, env, st)
        return st['code']

    def paren_piece_operand(self, Y):
        if self.piece_fn is None:
            return False
        env = {'ast': Y}
        st = {'code': False}
        self._run(self.piece_fn, self.piece_fn.body, env, st)
        return st['code']

    def _run(self, f, s, env, st):
        k = s.get('k')
        if k == 'Compound':
            for c in s.get('c', []):
                if self._run(f, c, env, st) == 'return':
                    return 'return'
            return None
        if k == 'If':
            v = self._cond(f, role(s, 'cond'), env)
            br = role(s, 'then') if v else role(s, 'else')
            if br is not None:
                return self._run(f, br, env, st)
            return None
        if k == 'Return':
            return 'return'
        if k == 'Call' and s.get('opc') == '=' and s['c'][0].get('k') == 'Ref' and s['c'][0].get('n') in st:
            rhs = render(s['c'][1])
            nm = s['c'][0]['n']
            if rhs.replace(' ', '') == '"("+%s+")"' % nm:
                st[nm] = True
                return None
            # the same through a one-line helper: `code = addParentheses(code)` with `addParentheses(x) { return "(" + x + ")"; }`
            r_ = s['c'][1]
            while r_.get('k') in ('Paren', 'Cast', 'Construct', 'Temp', 'Bind') and len(r_.get('c', [])) == 1:
                r_ = r_['c'][0]
            if r_.get('k') == 'Call' and not r_.get('opc'):
                from engines import predicate_body, subst_names
                pb = predicate_body(self.F, r_)
                if pb is not None and subst_names(render(pb[1]), pb[2]).replace(' ', '') == '"("+%s+")"' % nm:
                    st[nm] = True
                    return None
            raise AnalysisBroken('%s: unexpected assignment `%s`' % (f.name, render(s)[:60]))
        if k in ('DeclStmt', 'Null'):
            return None
        return None

    def _cond(self, f, e, env):
        k = e.get('k')
        c = e.get('c', [])
        if k == 'Bin' and e.get('op') == '||':
            return self._cond(f, c[0], env) or self._cond(f, c[1], env)
        if k == 'Bin' and e.get('op') == '&&':
            return self._cond(f, c[0], env) and self._cond(f, c[1], env)
        if k == 'Un' and e.get('op') == '!':
            return not self._cond(f, c[0], env)
        if k == 'Call' and e.get('cls') == GEN and e.get('fn', '').startswith('is') and len(c) == 2 and render(c[1]).endswith('->leftChild()'):
            base = env.get(render(c[1])[:-len('->leftChild()')])
            if base is None:
                raise AnalysisBroken('%s: predicate on unknown expression %s' % (f.name, render(c[1])))
            return self.P.call(e['fn'], base.sub or 'CI')
        if k == 'Call' and e.get('cls') == GEN and e.get('fn', '').startswith('is') and len(c) == 2 and c[1].get('k') == 'Ref':
            v = env.get(c[1]['n'])
            if v is None:
                raise AnalysisBroken('%s: predicate on unknown variable %s' % (f.name, c[1]['n']))
            if e['fn'] == 'isNegativeNumber':
                return v.typ == 'CN' and v.neg
            return self.P.call(e['fn'], v.typ)
        if k == 'Ref' and e.get('dk') == 'local' and (e.get('t') or '').replace('const ', '') == 'bool':
            inits = [v['c'][0] for v in f.walk() if v.get('k') == 'Var' and v.get('d') == e.get('d') and v.get('c')]
            if len(inits) == 1:
                return self._cond(f, inits[0], env)
        t = render(e)
        for var, cl in env.items():
            if t == '%s->rightChild() != nullptr' % var:
                return cl.binary
            if t == '%s->rightChild() == nullptr' % var:
                return not cl.binary
        if t.endswith('.rfind(mProfile->minusString(), 0) == 0'):
            var = t.split('.rfind')[0]
            cl = env.get(var) or (env.get(var[:-4]) if var.endswith('Code') else None)
            if cl is None and var == 'code':
                cl = env.get('astLeftChild')
            if cl is None:
                raise AnalysisBroken('%s: rfind on unknown code variable %s' % (f.name, var))
            return cl.sminus
        raise AnalysisBroken('%s: cannot interpret condition `%s`' % (f.name, t[:70]))


# ----------------------------------------------------------------------------- target language tables
C_PREC = {'neg': 14, '!': 14, '*': 13, '/': 13, '+': 12, '-': 12, '<': 10, '<=': 10, '>': 10, '>=': 10, '==': 9, '!=': 9, '&&': 5, '||': 4, '?:': 3, 'atom': 99}
PY_PREC = {'neg': 14, '*': 13, '/': 13, '+': 12, '-': 12, 'if-else': 1, 'atom': 99}


def need_parens(lang, tok, side, r):
    """Must a child whose emitted text has syntactic root r be parenthesised as the `side` operand of `tok`?"""
    prec = C_PREC if lang == 'C' else PY_PREC
    if r == 'atom':
        return False
    if r not in prec or tok not in prec:
        return True
    pr, pt = prec[r], prec[tok]
    if tok == 'neg':
        # -(b*c) == (-b)*c and -(b/c) == (-b)/c: the sign commutes with * and /, so `-b*c` is safe on its own
        return pr < pt and r not in ('*', '/')
    if tok == '!':
        return pr < pt
    if pr < pt:
        return True
    if pr > pt:
        return False
    # equal precedence, all these operators associate to the left
    if side == 'left':
        return False
    if tok in ('+',) and r in ('+', '-'):
        return False        # a+(b-c) == a+b-c up to floating-point re-association (not required)
    if tok in ('*',) and r in ('*', '/'):
        return False        # a*(b/c) vs a*b/c: re-association only
    if tok in ('&&',) and r == '&&':
        return False
    if tok in ('||',) and r == '||':
        return False
    return True
