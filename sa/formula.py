"""E13: symbolic normal forms of the unit reducers.

The reducers that turn a units definition into (log10 scale, base-unit exponents) exist three times (units.cpp for
Units::scalingFactor/compatible, validator.cpp for connected variables, analyser.cpp for equation units).  Each is
abstracted from its AST into
  * the contribution of a standard-unit child (a polynomial over the roles s, m, p, e, b and the inherited E, L, d),
  * the arguments of the recursive call for a non-standard child (inherited exponent E', inherited scale L'),
and then evaluated symbolically on a generic three-level chain of units  T -> R -> Q -> standard unit.
Roles are resolved from the code (out-parameters of Units::unitAttributes by position, log10(), convertPrefixToInt(),
standardMultiplierList.at(), map-entry .second, function parameters by position), never from variable names.
"""
from facts import walk, render, role, is_call, AnalysisBroken
from engines import ff, nth_arg, receiver, unwrap_defarg


# ----------------------------------------------------------------------------- tiny polynomial algebra
class Poly:
    def __init__(self, terms=None):
        self.t = {k: v for k, v in (terms or {}).items() if v != 0}

    @staticmethod
    def const(c):
        return Poly({(): c})

    @staticmethod
    def sym(s):
        return Poly({(s,): 1})

    def __add__(self, o):
        t = dict(self.t)
        for k, v in o.t.items():
            t[k] = t.get(k, 0) + v
        return Poly(t)

    def __neg__(self):
        return Poly({k: -v for k, v in self.t.items()})

    def __sub__(self, o):
        return self + (-o)

    def __mul__(self, o):
        t = {}
        for k1, v1 in self.t.items():
            for k2, v2 in o.t.items():
                k = tuple(sorted(k1 + k2))
                t[k] = t.get(k, 0) + v1 * v2
        return Poly(t)

    def subst(self, env):
        out = Poly()
        for k, v in self.t.items():
            term = Poly.const(v)
            for s in k:
                term = term * (env[s] if s in env else Poly.sym(s))
            out = out + term
        return out

    def symbols(self):
        return {s for k in self.t for s in k}

    def __eq__(self, o):
        return self.t == o.t

    def __repr__(self):
        if not self.t:
            return '0'
        parts = []
        for k, v in sorted(self.t.items()):
            m = '*'.join(k)
            if not k:
                parts.append(str(v))
            elif v == 1:
                parts.append(m)
            else:
                parts.append('%s*%s' % (v, m))
        return ' + '.join(parts)


def restrict_exponent_one(p):
    """The property claims scale agreement 'whenever prefixes and multipliers sit on unit children of exponent 1':
    in a monomial containing m_i or p_i the own exponent e_i of that child is 1."""
    t = {}
    for k, v in p.t.items():
        drop = set()
        for s in k:
            if s[0] in ('m', 'p') and s[1:].isdigit():
                drop.add('e' + s[1:])
        k2 = tuple(s for s in k if s not in drop)
        t[k2] = t.get(k2, 0) + v
    return Poly(t)


# ----------------------------------------------------------------------------- extraction
def param_index(f, ty, k):
    """index of the k-th parameter of exactly the type `ty` (e.g. the first by-value double): independent of parameters of other types being added or removed"""
    idxs = [i for i, p_ in enumerate(f.params) if (p_.get('t') or '').replace('const ', '') == ty]
    if k >= len(idxs):
        raise AnalysisBroken('%s: parameter #%d of type %s vanished' % (f.short, k, ty))
    return idxs[k]


class Reducer:
    def __init__(self, F, f, param_roles):
        self.F = F
        self.f = f
        self.param_roles = {}
        self.role_index = {}
        for idx, sym in param_roles.items():
            if isinstance(idx, tuple):
                idx = param_index(f, idx[0], idx[1])
            if idx >= len(f.params):
                raise AnalysisBroken('%s: parameter %d vanished' % (f.short, idx))
            self.param_roles[f.params[idx]['d']] = sym
            self.role_index[sym] = idx
        self.loop = None
        self.outs = {}
        self._find_loop()

    def _find_loop(self):
        f = self.f
        for n in f.walk():
            if n.get('k') == 'Call' and n.get('fn') == 'unitAttributes' and len(n.get('c', [])) >= 6:
                loops = [a for a in f.ancestors(n) if a.get('k') == 'For']
                if not loops:
                    continue
                self.loop = loops[0]
                args = n['c'][1:]
                names = ['i', 'ref', 'pre', 'e', 'M', 'id']
                for a, nm in zip(args, names):
                    if a.get('k') == 'Ref' and a.get('d') is not None:
                        self.outs[a['d']] = nm
                return
        raise AnalysisBroken('%s: no loop over Units::unitAttributes' % f.short)

    def _defs(self, d):
        """Definitions of a local; a single plain assignment inside the child loop overrides an initialiser outside it
        (the value used in an iteration is the one assigned in that iteration)."""
        out = []
        inloop = []
        for n in self.f.walk():
            c = n.get('c', [])
            if n.get('k') == 'Var' and n.get('d') == d and c:
                out.append(c[0])
                if self.loop is not None and self.in_loop(n):
                    inloop.append(c[0])
            elif n.get('k') == 'Bin' and n.get('op') == '=' and c and c[0].get('k') == 'Ref' and c[0].get('d') == d:
                out.append(c[1])
                if self.loop is not None and self.in_loop(n):
                    inloop.append(c[1])
            elif n.get('k') == 'CAssign' and c and c[0].get('k') == 'Ref' and c[0].get('d') == d:
                out.append(None)  # accumulates: not a simple definition
                inloop.append(None)
        if len(inloop) == 1 and inloop[0] is not None:
            return inloop
        return out

    def ev(self, n, depth=0):
        n = unwrap_defarg(n)
        if n is None or depth > 12:
            return Poly.sym('?')
        k = n.get('k')
        c = n.get('c', [])
        if k in ('Int', 'Float'):
            v = n.get('v')
            return Poly.const(int(v) if float(v) == int(v) else v)
        if k == 'Ref':
            d = n.get('d')
            if getattr(self, '_env', None) is not None and d in self._env:
                return self._env[d]
            if d in self.outs:
                return Poly.sym(self.outs[d])
            if d in self.param_roles:
                return Poly.sym(self.param_roles[d])
            if n.get('dk') == 'local':
                defs = self._defs(d)
                simple = [x for x in defs if x is not None]
                if len(defs) == 1 and len(simple) == 1:
                    return self.ev(simple[0], depth + 1)
                return Poly.sym('?' + n.get('n', ''))
            return Poly.sym('?' + render(n))
        if k == 'Un' and n.get('op') == '-':
            return -self.ev(c[0], depth + 1)
        if k == 'Bin' and n.get('op') in ('+', '-', '*'):
            a, b = self.ev(c[0], depth + 1), self.ev(c[1], depth + 1)
            return a + b if n['op'] == '+' else (a - b if n['op'] == '-' else a * b)
        if k in ('Cast',) and c:
            return self.ev(c[0], depth + 1)
        if k == 'Construct' and len(c) == 1:
            return self.ev(c[0], depth + 1)
        if k == 'Call':
            cal = n.get('callee', '')
            if cal in ('std::log10', 'log10') and c:
                a = self.ev(c[0], depth + 1)
                if a == Poly.sym('M'):
                    return Poly.sym('m')
                return Poly.sym('?log10(%s)' % a)
            if n.get('fn') == 'convertPrefixToInt' and c:
                a = self.ev(c[0], depth + 1)
                return Poly.sym('p') if a == Poly.sym('pre') else Poly.sym('?prefix(%s)' % a)
            if n.get('fn') == 'at' and n.get('mc') and len(c) == 2 and c[0].get('k') == 'Ref':
                tab = c[0].get('n')
                a = self.ev(c[1], depth + 1)
                if tab == 'standardMultiplierList':
                    return Poly.sym('s') if a == Poly.sym('ref') else Poly.sym('s0')
                return Poly.sym('?%s.at' % tab)
            return Poly.sym('?' + render(n)[:30])
        if k == 'Member' and n.get('n') == 'second':
            return Poly.sym('b')
        return Poly.sym('?' + render(n)[:30])

    def branch_of(self, n):
        """'std' / 'nonstd' / None: is node n on the branch where the child's reference is a standard unit?"""
        from engines import value_of as _vo
        for cnd, t in (ff(self.f).conds_at(n) or []):
            cnd = _vo(self.f, cnd)      # a test held in a named bool local
            while cnd is not None and cnd.get('k') == 'Un' and cnd.get('op') == '!' and cnd.get('c'):
                cnd, t = _vo(self.f, cnd['c'][0]), not t
            if cnd is not None and cnd.get('k') == 'Call' and cnd.get('fn') == 'isStandardUnitName' and cnd.get('c'):
                a = self.ev(cnd['c'][0])
                if a == Poly.sym('ref'):
                    return 'std' if t else 'nonstd'
        return None

    def in_loop(self, n):
        return any(a is self.loop for a in self.f.ancestors(n))

    def accumulations(self, target_pred):
        """CAssign `+=` statements inside the loop whose target satisfies target_pred(node)."""
        out = []
        for n in self.f.walk():
            if n.get('k') == 'CAssign' and n.get('op') == '+=' and self.in_loop(n) and target_pred(n['c'][0]):
                out.append(n)
        return out

    def branch_contribution(self, acc_d, branch, rec_result_sym='B'):
        """What one iteration of the child loop adds to the local accumulator acc_d on the branch 'std' / 'nonstd' (is the child's reference a
        standard unit?), by executing the loop body symbolically: locals assigned on the way are tracked, an `if` on isStandardUnitName(ref) is
        followed on the given side only, early failure exits are ignored, and a local handed by reference to the recursive call holds the
        child's total afterwards.  Returns a Poly or None when the body has a statement the executor does not understand."""
        f = self.f
        env = {}
        total = [Poly()]
        ok = [True]

        def run(st):
            if st is None or not ok[0]:
                return
            k = st.get('k')
            c = st.get('c', [])
            if k in ('Compound',):
                for x in c:
                    run(x)
            elif k == 'DeclStmt':
                for v in c:
                    if v.get('k') == 'Var':
                        self._env = env
                        env[v['d']] = self.ev(v['c'][0]) if v.get('c') else Poly.sym('?' + v.get('n', ''))
            elif k == 'Var':
                self._env = env
                env[st['d']] = self.ev(c[0]) if c else Poly.sym('?' + st.get('n', ''))
            elif k == 'If':
                cnd = role(st, 'cond')
                side = None
                for x in walk(cnd):
                    if x.get('k') == 'Call' and x.get('fn') == 'isStandardUnitName' and x.get('c'):
                        self._env = env
                        if self.ev(x['c'][0]) == Poly.sym('ref'):
                            neg = any(u.get('k') == 'Un' and u.get('op') == '!' and any(y is x for y in walk(u)) for u in walk(cnd))
                            side = ('then' if branch == 'std' else 'else') if not neg else ('else' if branch == 'std' else 'then')
                # a recursive call inside the condition (`if (!update(child, 1, local, path)) return false;`) defines the local it is given
                for x in walk(cnd):
                    if self.is_rec(x):
                        bind_rec(x)
                if side is not None:
                    run(role(st, side))
                else:
                    th, el = role(st, 'then'), role(st, 'else')
                    only_exit = th is not None and all(y.get('k') in ('Return', 'Compound', 'Bool', 'Continue', 'Break') or y is th for y in walk(th) if y.get('k') in ('Return', 'Compound', 'Continue', 'Break', 'CAssign', 'Bin', 'Call', 'DeclStmt'))
                    if only_exit and el is None:
                        return      # failure exit: contributes nothing to a successful reduction
                    ok[0] = False
            elif k == 'CAssign' and st.get('op') in ('+=', '-=') and c and c[0].get('k') == 'Ref':
                self._env = env
                v = self.ev(c[1])
                if st['op'] == '-=':
                    v = -v
                if c[0].get('d') == acc_d:
                    total[0] = total[0] + v
                else:
                    env[c[0]['d']] = env.get(c[0]['d'], Poly.sym('?' + c[0].get('n', ''))) + v
            elif k == 'Bin' and st.get('op') == '=' and c and c[0].get('k') == 'Ref':
                self._env = env
                env[c[0]['d']] = self.ev(c[1])
            elif k == 'Call':
                if self.is_rec(st):
                    bind_rec(st)
                # other calls (unitAttributes fills its out-parameters: roles already known) have no effect on the sum
            elif k in ('Return', 'Continue', 'Break', 'Null', 'ExprWithCleanups'):
                for x in c:
                    run(x)
            else:
                for x in c:
                    if x.get('k') in ('CAssign', 'Bin', 'Call', 'If', 'Compound', 'DeclStmt'):
                        run(x)

        def bind_rec(call):
            for a in call.get('c', []):
                if a.get('k') == 'Ref' and a.get('dk') == 'local' and 'double' in (a.get('t') or ''):
                    env[a['d']] = Poly.sym(rec_result_sym)

        body = role(self.loop, 'body')
        run(body)
        self._env = None
        return total[0] if ok[0] else None

    def _wrapper(self, call):
        """(helper, inner call) when `call` goes to a same-file helper that does nothing but look the child up and hand on to the reducer:
        exactly one call of the reducer in it, returned as the helper's result (or the helper is void)."""
        for ck in self.F.callee_keys(call):
            g = self.F.funcs.get(ck)
            if g is None or g is self.f or g.file != self.f.file:
                continue
            inner = [n for n in g.walk() if n.get('k') == 'Call' and self.f.key in self.F.callee_keys(n)]
            if len(inner) != 1 or any(n.get('k') in ('For', 'While', 'Do', 'RangeFor') for n in g.walk()):
                continue
            par = g.parent(inner[0])
            while par is not None and par.get('k') in ('Paren', 'Cast', 'Temp', 'Bind'):
                par = g.parent(par)
            if par is not None and par.get('k') in ('Return', 'Compound', 'ExprStmt'):
                return g, inner[0]
        return None

    def is_rec(self, call):
        return call.get('k') == 'Call' and (self.f.key in self.F.callee_keys(call) or self._wrapper(call) is not None)

    def rec_arg(self, call, idx):
        """the expression that reaches parameter idx of the reducer through this (possibly wrapped) recursive call"""
        from engines import nth_arg
        if self.f.key in self.F.callee_keys(call):
            return nth_arg(call, idx)
        w = self._wrapper(call)
        if w is None:
            return None
        g, inner = w
        a = nth_arg(inner, idx)
        if a is not None and a.get('k') == 'Ref' and a.get('dk') == 'parm':
            for j, p_ in enumerate(g.params):
                if p_.get('d') == a.get('d'):
                    return nth_arg(call, j)
        return a

    def recursive_calls(self):
        return [n for n in self.f.walk() if self.is_rec(n)]


def chain_topdown(leaf, recE, recL, depth=3):
    """Evaluate a top-down reducer (inherited exponent E, inherited log-scale L) on T -> R -> Q -> standard."""
    E, L = Poly.const(1), Poly.const(0)
    for lvl in range(1, depth):
        env = {'E': E, 'L': L, 'm': Poly.sym('m%d' % lvl), 'p': Poly.sym('p%d' % lvl), 'e': Poly.sym('e%d' % lvl), 'd': Poly.const(1)}
        E2 = recE.subst(env) if recE is not None else Poly.sym('E?')
        L2 = recL.subst(env) if recL is not None else Poly.sym('L?')
        E, L = E2, L2
    env = {'E': E, 'L': L, 'm': Poly.sym('m%d' % depth), 'p': Poly.sym('p%d' % depth), 'e': Poly.sym('e%d' % depth), 'd': Poly.const(1), 's': Poly.sym('s'), 'b': Poly.sym('b')}
    return leaf.subst(env)


def chain_bottomup(leaf, nested, depth=3):
    """Evaluate a bottom-up reducer (the child's total B is returned and combined by the parent)."""
    env = {'m': Poly.sym('m%d' % depth), 'p': Poly.sym('p%d' % depth), 'e': Poly.sym('e%d' % depth), 's': Poly.sym('s'), 'd': Poly.const(1)}
    total = leaf.subst(env)
    for lvl in range(depth - 1, 0, -1):
        env = {'m': Poly.sym('m%d' % lvl), 'p': Poly.sym('p%d' % lvl), 'e': Poly.sym('e%d' % lvl), 'B': total, 'd': Poly.const(1)}
        total = nested.subst(env)
    return total
