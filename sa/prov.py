"""E9 - provenance of mutated entities (who is written, and where did that object come from?).

Every expression denoting an entity (Model, Component, Units, Variable, Reset, ImportSource) is given a set of origin tokens:
    OWN     created inside the analysed code (create()/clone()/make_shared) or reached from such an object
    LIB     an imported model held by an import source (ImportSource::model()) or anything reached from it
    SRC     an import source reached from any object (clones share their import sources with the original)
    P<k>    reached from parameter k of the enclosing function;  this - the receiver of the enclosing method
Origins are propagated flow-insensitively through locals, containers (push_back/insert/emplace), range-for variables, pair members,
entity getters (navigation stays inside the object graph of the receiver) and through function summaries (returned origins, mutated
parameters).  A mutation event is a call of a state-changing entity/Impl method (its body writes a data member, fields.this_writes), a write
through `x->pFunc()->field` / `x->mPimpl->field`, or passing the object to a function whose summary mutates that parameter.

The deep-copy rule of C11 (a clone holds no pointer into the original) is what makes "reached from OWN stays OWN" sound; C06 re-checks it."""
import re

from facts import render, walk, AnalysisBroken
from engines import nth_arg, is_this_like, MUTATING_CONTAINER_METHODS
import fields

ENT_RE = re.compile(r'libcellml::(Model|Component|ComponentEntity|Variable|Units|Reset|ImportSource|NamedEntity|Entity|ParentedEntity|ImportedEntity)\b')
SCALAR_RE = re.compile(r'^(const )?(bool|unsigned long|size_t|double|int|void|std::basic_string<char>|std::string)( &)?$')


def entity_type(t):
    return bool(t) and bool(ENT_RE.search(t)) and 'Impl' not in t.split('libcellml::')[-1]


class Prov:
    def __init__(self, F, roots):
        self.F = F
        self.keys = [k for k in F.reach(list(roots))]
        self.sum = {k: {'mut': {}, 'ret': set()} for k in self.keys}
        self.events = {}      # fkey -> list of (tokens, node, text)
        self._tw = {}
        it = 0
        while True:
            it += 1
            changed = False
            for k in self.keys:
                if self._analyse(F.funcs[k]):
                    changed = True
            if not changed:
                break
            if it > 40:
                raise AnalysisBroken('provenance summaries do not converge')
        self.iterations = it

    # ------------------------------------------------------------------ helpers
    def writes_this(self, key):
        if key not in self._tw:
            f = self.F.funcs.get(key)
            self._tw[key] = bool(f is not None and fields.this_writes(self.F, f))
        return self._tw[key]

    def callee_summaries(self, call):
        out = []
        for ck in self.F.callee_keys(call):
            g = self.F.funcs.get(ck)
            if g is None:
                continue
            s = self.sum.get(ck)
            mut = dict(s['mut']) if s else {}
            ret = set(s['ret']) if s else set()
            if g.cls and not g.j.get('static') and not g.j.get('const') and self.writes_this(ck):
                mut.setdefault('this', (None, '%s writes %s' % (g.short, sorted(fields.this_writes(self.F, g))[:3])))
            out.append((g, mut, ret))
        return out

    # ------------------------------------------------------------------ origins of an expression
    def origins(self, f, n, env, depth=0):
        if n is None or depth > 12:
            return set()
        k = n.get('k')
        c = n.get('c', [])
        # `x->pFunc()` / `x->mPimpl` with an explicit receiver that is not this object is the state of x, not of this
        if k == 'Call' and n.get('fn') == 'pFunc' and n.get('mc') and c and not is_this_like(c[0]):
            return self.origins(f, c[0], env, depth + 1)
        if k == 'Member' and n.get('n') == 'mPimpl' and c and not is_this_like(c[0]):
            return self.origins(f, c[0], env, depth + 1)
        if is_this_like(n) or k == 'This':
            return {'this'}
        if k == 'Ref':
            if n.get('dk') == 'parm':
                for i, p in enumerate(f.params):
                    if p['d'] == n.get('d'):
                        return {'P%d' % i}
                return set()        # a lambda parameter: elements of some container, unknown here
            if n.get('dk') == 'local':
                return set(env.get(n.get('d'), ()))
            return set()
        if k in ('Cast', 'Paren', 'Member', 'Un') and c:
            return self.origins(f, c[0], env, depth + 1)
        if k == 'Construct':
            o = set()
            for x in c:
                o |= self.origins(f, x, env, depth + 1)
            return o
        if k == 'Cond' and len(c) == 3:
            return self.origins(f, c[1], env, depth + 1) | self.origins(f, c[2], env, depth + 1)
        if k == 'DefArg':
            return set()
        if k != 'Call':
            return set()
        if n.get('opc') in ('->', '*', '[]') and c:
            return self.origins(f, c[0], env, depth + 1)
        fn = n.get('fn', '')
        callee = n.get('callee', '') or ''
        if fn in ('create', 'clone') and callee.startswith('libcellml::') or callee.startswith('std::make_shared'):
            return {'OWN'}
        if callee == 'libcellml::ImportSource::model':
            return {'LIB'}
        if callee == 'libcellml::ImportedEntity::importSource':
            return {'SRC'}
        rt = n.get('rt', '') or ''
        if SCALAR_RE.match(rt):
            return set()
        if callee.startswith('std::') or callee.startswith('__gnu_cxx::'):
            o = set()
            for x in c:
                o |= self.origins(f, x, env, depth + 1)
            return o
        if n.get('mc') and c:
            o = set()
            o |= self.origins(f, c[0], env, depth + 1)      # a getter of the receiver: navigation stays inside its object graph
            for g, mut, ret in self.callee_summaries(n):
                o |= self._subst(f, n, ret, env, depth)
            return o
        o = set()
        for g, mut, ret in self.callee_summaries(n):
            o |= self._subst(f, n, ret, env, depth)
        return o

    def _subst(self, f, call, toks, env, depth):
        o = set()
        for t in toks:
            if t == 'this':
                if call.get('mc') and call.get('c'):
                    o |= self.origins(f, call['c'][0], env, depth + 1)
            elif t.startswith('P'):
                a = nth_arg(call, int(t[1:]))
                if a is not None:
                    o |= self.origins(f, a, env, depth + 1)
            else:
                o.add(t)
        return o

    # ------------------------------------------------------------------ one function
    def _env(self, f):
        env = {}
        for _ in range(6):
            before = {k: set(v) for k, v in env.items()}
            for n in f.walk():
                k = n.get('k')
                c = n.get('c', [])
                if k == 'Var' and c and not n.get('loopvar'):
                    env.setdefault(n['d'], set()).update(self.origins(f, c[0], env))
                elif k == 'RangeFor' and len(c) >= 2 and c[0].get('k') == 'Var':
                    env.setdefault(c[0]['d'], set()).update(self.origins(f, c[1], env))
                elif k == 'Call' and n.get('opc') == '=' and len(c) == 2 and c[0].get('k') == 'Ref' and c[0].get('dk') == 'local':
                    env.setdefault(c[0]['d'], set()).update(self.origins(f, c[1], env))
                elif k == 'Bin' and n.get('op') == '=' and len(c) == 2 and c[0].get('k') == 'Ref' and c[0].get('dk') == 'local':
                    env.setdefault(c[0]['d'], set()).update(self.origins(f, c[1], env))
                elif k == 'Call' and n.get('mc') and n.get('fn') in ('push_back', 'emplace_back', 'insert', 'emplace', 'merge') and c and c[0].get('k') == 'Ref' and c[0].get('dk') == 'local':
                    for a in c[1:]:
                        env.setdefault(c[0]['d'], set()).update(self.origins(f, a, env))
            if before == env:
                break
        return env

    def _root_entity(self, f, n):
        """For `X->pFunc()->mField...` / `X->mPimpl->mField...`: the entity expression X (or 'this')."""
        cur = n
        seen_impl = False
        while cur is not None:
            k = cur.get('k')
            c = cur.get('c', [])
            if k == 'Member':
                if cur.get('n') == 'mPimpl':
                    seen_impl = True
                    return c[0] if c else {'k': 'This'}
                cur = c[0] if c else None
                if cur is None:
                    return None
                continue
            if k == 'Call' and cur.get('opc') in ('->', '*', '[]') and c:
                cur = c[0]
                continue
            if k == 'Call' and cur.get('mc') and cur.get('fn') == 'pFunc':
                return c[0] if c else {'k': 'This'}
            if k in ('Cast', 'Paren') and c:
                cur = c[0]
                continue
            return None
        return None

    def _analyse(self, f):
        env = self._env(f)
        ev = []
        mut = {}
        ret = set()
        for n in f.walk():
            k = n.get('k')
            c = n.get('c', [])
            if k == 'Return' and c:
                ret |= self.origins(f, c[0], env)
            if k == 'Call' and not n.get('opc'):
                for g, gm, _ in self.callee_summaries(n):
                    for who, why in gm.items():
                        if who == 'this':
                            if not (n.get('mc') and c):
                                continue
                            tgt = c[0]
                            if g.cls and 'Impl' in g.cls.split('::')[-1]:
                                r = self._root_entity(f, c[0])
                                if r is None:
                                    continue
                                tgt = r
                            toks = self.origins(f, tgt, env)
                        else:
                            a = nth_arg(n, who)
                            if a is None:
                                continue
                            toks = self.origins(f, a, env)
                        if toks:
                            ev.append((toks, n, '%s: %s' % (render(n)[:70], why[1] if why else 'mutates it'), g.key))
            # direct writes through the Impl of another object
            if k == 'Member' and n.get('field') and self._is_write(f, n):
                r = self._root_entity(f, n)
                if r is not None:
                    toks = self.origins(f, r, env)
                    if toks:
                        ev.append((toks, n, 'write to %s' % render(n)[:60], None))
        for toks, n, text, via in ev:
            for t in toks:
                if t.startswith('P'):
                    mut.setdefault(int(t[1:]), (n.get('l'), text))
                elif t == 'this' and not (f.cls and self.writes_this(f.key)):
                    mut.setdefault('this', (n.get('l'), text))
        old = self.sum[f.key]
        new_mut = dict(old['mut'])
        for kk, vv in mut.items():
            new_mut.setdefault(kk, vv)
        new_ret = old['ret'] | ret
        changed = set(new_mut) != set(old['mut']) or new_ret != old['ret']
        self.sum[f.key] = {'mut': new_mut, 'ret': new_ret}
        self.events[f.key] = ev
        return changed

    def _is_write(self, f, n):
        p = f.parent(n)
        while p is not None and p.get('k') in ('Member',) and p.get('c') and p['c'][0] is n:
            n, p = p, f.parent(p)
        if p is None:
            return False
        k = p.get('k')
        c = p.get('c', [])
        if k in ('Bin', 'CAssign') and (k == 'CAssign' or p.get('op') == '=') and c and c[0] is n:
            return True
        if k == 'Call' and p.get('opc') in ('=', '+=', '-=') and c and c[0] is n:
            return True
        if k == 'Call' and p.get('mc') and c and c[0] is n and p.get('fn') in MUTATING_CONTAINER_METHODS and p.get('fn') != 'operator[]':
            return True
        return False
