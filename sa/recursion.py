"""E8: recursion over possibly cyclic relations.  Every recursive call site (caller and callee in the same call-graph SCC)
is classified by the steps its arguments take from the caller's own data: steps along finite trees (XML nodes, the
component hierarchy, equation ASTs) need no guard; steps that follow a *reference* (units by name, an import to another
model, a variable equivalence) can revisit an object, so the call must be dominated by a visited/history test whose
container is handed on."""
from facts import role, walk, render, is_call
from engines import ff, nth_arg, receiver

# calls that follow a reference which input can make cyclic -> kind
REF_STEPS = {
    'units-reference': lambda n: n.get('fn') == 'units' and n.get('mc') and len(n.get('c', [])) == 2 and 'basic_string' in (n['c'][1].get('t', '') + n['c'][1].get('rt', '')),
    'import': lambda n: n.get('fn') == 'model' and n.get('mc') and n.get('cls', '').endswith('ImportSource'),
    'equivalence': lambda n: n.get('fn') == 'equivalentVariable' and n.get('mc'),
    'component-by-name': lambda n: n.get('fn') == 'component' and n.get('mc') and len(n.get('c', [])) >= 2 and 'basic_string' in (n['c'][1].get('t', '') + n['c'][1].get('rt', '')),
}
VISITED_TESTS = ('checkForImportCycles', 'checkForLocalCycles')
STD_MEMBERSHIP = ('std::find', 'std::find_if', 'std::count', 'std::count_if', 'std::any_of', 'std::none_of', 'std::binary_search')
MEMBER_MEMBERSHIP = ('count', 'find', 'contains')


def is_membership_test(F, t, depth=0):
    """Is call t a membership test of a container: a std algorithm, a count/find/contains member, one of the repository's named
    history tests, or a repository helper whose body is such a test over one of its parameters."""
    if t.get('k') != 'Call':
        return False
    if t.get('fn') in VISITED_TESTS or t.get('callee') in STD_MEMBERSHIP:
        return True
    if t.get('mc') and t.get('fn') in MEMBER_MEMBERSHIP and (t.get('cls') or '').startswith('std::'):
        return True
    if depth < 2 and F is not None:
        for ck in F.callee_keys(t):
            g = F.funcs.get(ck)
            if g is not None and g.j.get('ret') == 'bool' and len(list(g.walk())) < 120:
                if any(is_membership_test(F, x, depth + 1) for x in g.walk() if x.get('k') == 'Call'):
                    return True
    return False


def slice_nodes(f, expr, depth=0, seen=None):
    """Nodes the value of `expr` is computed from inside f (through local initialisers/assignments)."""
    seen = seen if seen is not None else set()
    out = []
    for n in walk(expr):
        out.append(n)
        if n.get('k') == 'Ref' and n.get('dk') == 'local' and n.get('d') not in seen and depth < 6:
            seen.add(n['d'])
            for v in f.walk():
                c = v.get('c', [])
                if v.get('k') == 'Var' and v.get('d') == n['d'] and c:
                    out += slice_nodes(f, c[0], depth + 1, seen)
                elif v.get('k') in ('Bin',) and v.get('op') == '=' and c and c[0].get('k') == 'Ref' and c[0].get('d') == n['d']:
                    out += slice_nodes(f, c[1], depth + 1, seen)
                elif v.get('k') == 'Call' and v.get('opc') == '=' and c and c[0].get('k') == 'Ref' and c[0].get('d') == n['d'] and len(c) > 1:
                    out += slice_nodes(f, c[1], depth + 1, seen)
                elif v.get('k') == 'Var' and v.get('d') == n['d'] and v.get('loopvar'):
                    p = f.parent(v)
                    if p is not None and p.get('k') == 'RangeFor':
                        out += slice_nodes(f, p['c'][1], depth + 1, seen)
    return out


def sites(F):
    """[(scc id, caller Func, callee Func, call node, set of reference-step kinds)]"""
    out = []
    for i, comp in enumerate(F.sccs()):
        cs = set(comp)
        for k in comp:
            f = F.funcs[k]
            for n in f.walk():
                if n.get('k') != 'Call':
                    continue
                tg = [ck for ck in F.callee_keys(n) if ck in cs]
                if not tg:
                    continue
                kinds = set()
                args = list(n.get('c', []))
                # names of units obtained from a unit child (out-parameter 1 of unitAttributes / unitAttributeReference)
                ref_names = set()
                for x in f.walk():
                    if x.get('k') == 'Call' and x.get('fn') == 'unitAttributes' and len(x.get('c', [])) >= 3 and x['c'][2].get('k') == 'Ref':
                        ref_names.add(x['c'][2].get('d'))
                    if x.get('k') == 'Var' and x.get('c') and any(y.get('k') == 'Call' and y.get('fn') == 'unitAttributeReference' for y in walk(x['c'][0])):
                        ref_names.add(x.get('d'))
                for a in args:
                    for x in slice_nodes(f, a):
                        if x.get('k') == 'Call':
                            for kind, pred in REF_STEPS.items():
                                if pred(x):
                                    kinds.add(kind)
                        if x.get('k') == 'Ref' and x.get('d') in ref_names and 'basic_string' in x.get('t', ''):
                            kinds.add('units-reference')
                out.append((i, f, F.funcs[tg[0]], n, kinds))
    return out


def visited_guard(F, f, call):
    """Is the recursive call dominated by a visited/history test whose container is passed on, and is the current item entered into
    that container before the call (mark before descend)?  Returns a description or None."""
    how = _visited_test(F, f, call)
    if how is None:
        return None
    conts = [p for p in f.params if ('std::vector<' in p['t'] or 'History' in p['t']) and p['t'].rstrip().endswith('&')]
    passed = {x.get('d') for a in call.get('c', []) for x in walk(a) if x.get('k') == 'Ref' and x.get('dk') == 'parm' and any(x.get('d') == p['d'] for p in conts)}
    cfg = f.cfg_for(call)
    marks = [c for c in f.walk() if c.get('k') == 'Call' and c.get('mc') and c.get('fn') in ('push_back', 'emplace_back', 'insert', 'emplace') and c['c'][0].get('k') == 'Ref' and c['c'][0].get('d') in passed]
    if cfg is not None and marks and not any(cfg.node_dominates(m, call) for m in marks):
        return None     # the item is entered only after the descent: two items that refer to each other recurse for ever
    return how + ('' if not marks else '; marked before the call')


def _visited_test(F, f, call):
    conts = [p for p in f.params if ('std::vector<' in p['t'] or 'History' in p['t']) and p['t'].rstrip().endswith('&')]
    passed = []
    for a in call.get('c', []):
        for x in walk(a):
            if x.get('k') == 'Ref' and x.get('dk') == 'parm' and any(x.get('d') == p['d'] for p in conts):
                passed.append(x['n'])
    if not passed:
        return None
    cfg = f.cfg_for(call)
    for t in f.walk():
        if t.get('k') != 'Call':
            continue
        is_test = is_membership_test(F, t)
        if not is_test:
            continue
        if not any(x.get('k') == 'Ref' and x.get('n') in passed for x in walk(t)):
            continue
        # the test's outcome must control the call: some fact at the call derives from it
        for c, tr in (ff(f).conds_at(call) or []):
            if any(y is t for y in walk(c)):
                return '%s over `%s` decides the call' % (t.get('fn') or t.get('callee'), passed[0])
            # through a local
            for y in walk(c):
                if y.get('k') == 'Ref' and y.get('dk') == 'local':
                    for v in f.walk():
                        if v.get('k') == 'Var' and v.get('d') == y['d'] and any(z is t for z in walk(v)):
                            return '%s over `%s` decides the call' % (t.get('fn') or t.get('callee'), passed[0])
        if cfg is not None and cfg.node_dominates(t, call):
            # early-return form: `if (test) return;` before the call -> the fact appears with truth False
            for c, tr in (ff(f).conds_at(call) or []):
                if any(y is t for y in walk(c)):
                    return 'dominated by %s' % (t.get('fn') or t.get('callee'))
    return None


def path_guard_balance(F, f):
    """For a container parameter used as the current recursion path (push_back and pop_back both occur on it in f): every CFG path from
    a push_back to the exit passes a pop_back, except paths that leave through a `return false` / `return nullptr` (failure unwinds the
    whole recursion).  Yields (push node, parameter name, ok, detail)."""
    from issues import must_pass
    conts = [p for p in f.params if 'std::vector<' in p['t'] and p['t'].rstrip().endswith('&') and 'const' not in p['t'].split('std::vector')[0]]
    for p in conts:
        pushes = [c for c in f.walk() if c.get('k') == 'Call' and c.get('mc') and c.get('fn') in ('push_back', 'emplace_back') and c['c'][0].get('k') == 'Ref' and c['c'][0].get('d') == p['d']]
        pops = [c for c in f.walk() if c.get('k') == 'Call' and c.get('mc') and c.get('fn') == 'pop_back' and c['c'][0].get('k') == 'Ref' and c['c'][0].get('d') == p['d']]
        if not pushes or not pops:
            continue
        # only containers that serve as a cycle guard: some membership test (std::find / count) ranges over them
        def ranges_over(c):
            # the container is what is searched (receiver of count/find/contains, or the begin()/end() range of an algorithm), not the key
            if c.get('mc') and c.get('c') and c['c'][0].get('k') == 'Ref' and c['c'][0].get('d') == p['d']:
                return True
            for a in (c['c'][1:] if c.get('mc') else c.get('c', [])):
                if a.get('k') == 'Call' and a.get('mc') and a.get('fn') in ('begin', 'cbegin', 'end', 'cend') and a['c'][0].get('k') == 'Ref' and a['c'][0].get('d') == p['d']:
                    return True
                if a.get('k') == 'Ref' and a.get('d') == p['d'] and not (c.get('callee') or '').startswith('std::') and not c.get('mc'):
                    return True     # handed to a repository helper that tests membership
            return False
        tested = any(c.get('k') == 'Call' and is_membership_test(F, c) and ranges_over(c) for c in f.walk())
        if not tested:
            continue
        cfg = f.cfg()
        fails = [r for r in f.walk() if r.get('k') == 'Return' and r.get('c') and render(r['c'][0]) in ('false', 'nullptr')]
        through = [x['i'] for x in pops] + [x['i'] for x in fails]
        for c in pushes:
            ok = must_pass(cfg, c, through)
            yield c, p['n'], ok, '%d pop_back, %d failure returns' % (len(pops), len(fails))


def history_discipline(F, f):
    """For a (non-const) History parameter on which f pushes an epoch: every path from the push to the exit pops it, or leaves through an
    early `return <bool literal>` (error exit).  Yields (push node, parameter name, ok, detail).  A function that pushes and never pops
    yields ok=False."""
    from issues import must_pass
    hp = [p for p in f.params if 'History' in p['t'] and 'HistoryEpoch' not in p['t'].replace('std::vector<std::shared_ptr<libcellml::HistoryEpoch>>', '') and p['t'].rstrip().endswith('&') and not p['t'].startswith('const ')]
    hp += [p for p in f.params if 'std::vector<std::shared_ptr<libcellml::HistoryEpoch>>' in p['t'] and p['t'].rstrip().endswith('&') and not p['t'].startswith('const ') and p not in hp]
    for p in hp:
        pushes = [c for c in f.walk() if c.get('k') == 'Call' and c.get('mc') and c.get('fn') in ('push_back', 'emplace_back') and c['c'][0].get('k') == 'Ref' and c['c'][0].get('d') == p['d']]
        pops = [c for c in f.walk() if c.get('k') == 'Call' and c.get('mc') and c.get('fn') == 'pop_back' and c['c'][0].get('k') == 'Ref' and c['c'][0].get('d') == p['d']]
        if not pushes:
            continue
        early = [r for r in f.walk() if r.get('k') == 'Return' and r.get('c') and r['c'][0].get('k') == 'Bool']
        cfg = f.cfg()
        for c in pushes:
            ok = bool(pops) and must_pass(cfg, c, [x['i'] for x in pops] + [x['i'] for x in early])
            yield c, p['n'], ok, '%d pop_back, %d literal returns' % (len(pops), len(early))


def rule_progress(F, rep, rid, pred, floor, where_txt):
    """Shared rule: a self-recursive call does not pass exactly the function's own parameters on (same object): it would recurse for ever."""
    from facts import AnalysisBroken, render
    rep.rule(rid, 'a function of %s that calls itself makes progress: the recursive call does not receive exactly the function\'s own arguments again on the same object (the walk must continue from the child/neighbour/next reference, not from where it started)' % where_txt)
    n = 0
    for g in F.funcs.values():
        if not pred(g):
            continue
        for c in g.walk():
            if c.get('k') == 'Call' and not c.get('opc') and g.key in F.callee_keys(c):
                args = c['c'][1:] if c.get('mc') else c['c']
                if not args:
                    continue
                n += 1
                same = all(a.get('k') == 'Ref' and a.get('dk') == 'parm' and i < len(g.params) and a.get('d') == g.params[i]['d'] for i, a in enumerate(args))
                reassigned = any(((x.get('k') == 'Call' and x.get('opc') == '=') or (x.get('k') == 'Bin' and x.get('op') == '=')) and x['c'][0].get('k') == 'Ref' and x['c'][0].get('dk') == 'parm' for x in g.walk())
                other_obj = c.get('mc') and c.get('c') and c['c'][0].get('k') not in ('This', 'NoObj') and render(c['c'][0]) != 'this'
                rep.check(not same or reassigned or other_obj, rid, '%s|%s' % (g.short.split('::')[-1], render(c)[:50]), g.where(c),
                          '%s calls itself with its own arguments unchanged: the traversal never leaves the node it started from (unbounded recursion)' % g.short, 'arguments change')
    if n < floor:
        raise AnalysisBroken('%s: only %d self-recursive calls found in %s (%d confirmed)' % (rid, n, where_txt, floor))


def stack_discipline(F, f):
    """For ANY non-const vector reference parameter on which f both pushes and pops (a stack shared with callers/callees): every CFG path
    from a push_back to the exit passes a pop_back on the same parameter, or leaves through a literal failure return.
    Yields (push node, parameter name, ok, detail)."""
    from issues import must_pass
    conts = [p for p in f.params if 'std::vector<' in p['t'] and p['t'].rstrip().endswith('&') and 'const' not in p['t'].split('std::vector')[0]]
    for p in conts:
        pushes = [c for c in f.walk() if c.get('k') == 'Call' and c.get('mc') and c.get('fn') in ('push_back', 'emplace_back') and c['c'][0].get('k') == 'Ref' and c['c'][0].get('d') == p['d']]
        pops = [c for c in f.walk() if c.get('k') == 'Call' and c.get('mc') and c.get('fn') == 'pop_back' and c['c'][0].get('k') == 'Ref' and c['c'][0].get('d') == p['d']]
        if not pushes or not pops:
            continue
        cfg = f.cfg()
        fails = [r for r in f.walk() if r.get('k') == 'Return' and r.get('c') and (render(r['c'][0]) in ('false', 'nullptr') or r['c'][0].get('k') == 'Bool')]
        through = [x['i'] for x in pops] + [x['i'] for x in fails]
        for c in pushes:
            ok = must_pass(cfg, c, through)
            detail = '%d pop_back, %d literal returns' % (len(pops), len(fails))
            if not ok:
                why = first_iteration_pairing(F, f, c, pops)
                if why:
                    ok, detail = True, why
            yield c, p['n'], ok, detail


def first_iteration_pairing(F, f, push, pops):
    """The correlated form `for (j = 0; j < N; ++j) { if (j == 0) push; ... }  if (N > 0) pop;`: the push happens in the first iteration, which
    exists iff N > 0, the condition of the pop.  Holds when (1) the push is under `j == 0` for the induction variable j of a loop that starts at 0 and
    runs while j < N, (2) that test is reached in every iteration: it dominates every continue/break/return of the loop body (a `continue` in front
    of it skips the push in the first iteration but not the pop), (3) a pop directly after the loop is under `N > 0` for the same N."""
    from engines import enclosing_conditions, facts_x
    cfg = f.cfg()
    enc = enclosing_conditions(f, push)
    if not enc:
        return None
    cnd, br, st = enc[0]
    txt = render(cnd).replace(' ', '')
    loop = next((a for a in f.ancestors(push) if a.get('k') == 'For'), None)
    if loop is None or br != 'then':
        return None
    ivs = [v for v in walk(role(loop, 'init') or {}) if v.get('k') == 'Var' and v.get('c') and render(v['c'][0]).strip() in ('0', '0U', '0UL')]
    if not ivs:
        return None
    j = ivs[0]['n']
    if txt not in ('%s==0' % j, '0==%s' % j):
        return None
    lc = render(role(loop, 'cond')).strip()
    if not lc.startswith(j + ' < '):
        return None
    N = lc[len(j) + 3:]
    body = role(loop, 'body')
    stmts = body.get('c', []) if body.get('k') == 'Compound' else [body]
    at = next((k for k, s_ in enumerate(stmts) if s_ is st), None)
    if at is None:
        return None      # the `j == 0` test is nested in something else: not reached in every iteration
    for k, s_ in enumerate(stmts[:at + 1]):
        if any(x.get('k') in ('Continue', 'Break', 'Return', 'Goto') and f.enclosing_lambda(x) is None for x in walk(s_)):
            return None  # a jump in front of (or inside) the first-iteration push
    for pp in pops:
        fx = facts_x(F, f, pp) or set()
        if any(tr and t.replace(' ', '') in ((N + '>0').replace(' ', ''), (N + '!=0').replace(' ', '')) for t, tr in fx) and not any(a is loop for a in f.ancestors(pp)):
            return 'pushed in the first iteration of `for (%s)` (the `%s == 0` test is reached in every iteration), popped under `%s > 0`' % (lc, j, N)
    return None


STACK_EXEMPT = {}


def rule_stack_discipline(F, rep, rid, pred, floor, where_txt):
    from facts import AnalysisBroken
    rep.rule(rid, 'a vector handed down by reference on which a function of %s both pushes and pops is a stack shared with its callers: every path from a push_back to the exit pops it again (or leaves through a literal failure return that unwinds the whole walk); '
                  'a leaked entry is seen by the siblings (false cycle reports, or a later back() on the companion stack that is empty)' % where_txt)
    n = 0
    for g in F.funcs.values():
        if not pred(g):
            continue
        for c, name, ok, detail in stack_discipline(F, g):
            key = '%s|%s|push#%d' % (g.short.split('::')[-1], name, sum(1 for x in g.walk() if x.get('k') == 'Call' and x.get('fn') in ('push_back', 'emplace_back') and x.get('l', 0) < c.get('l', 0)))
            if not ok and (g.name, name) in STACK_EXEMPT:
                rep.exempt(rid, key, STACK_EXEMPT[(g.name, name)])
                continue
            n += 1
            rep.check(ok, rid, key, g.where(c), '%s: after `%s` some path reaches the exit without %s.pop_back() (%s)' % (g.short, render(c)[:50], name, detail), 'popped on every path (%s)' % detail)
    if n < floor:
        raise AnalysisBroken('%s: only %d pushes on shared stacks found in %s (%d confirmed)' % (rid, n, where_txt, floor))


def path_verdicts(F, f):
    """For a bool function that keeps its recursion path in a vector parameter (membership test, push_back, pop_back on the same parameter):
    the returns that can be `true` without being the verdict of a recursive call, and whether the membership test was evaluated on every
    path to them.  Yields (parameter name, test node, return node, ok)."""
    from engines import single_def
    if (f.j.get('ret') or '') != 'bool':
        return
    conts = [p for p in f.params if 'std::vector<' in p['t'] and p['t'].rstrip().endswith('&') and 'const' not in p['t'].split('std::vector')[0]]
    cfg = f.cfg()
    for p in conts:
        def on_p(c):
            return any(r.get('k') == 'Ref' and r.get('d') == p['d'] for r in walk(c))
        pushes = [c for c in f.walk() if c.get('k') == 'Call' and c.get('mc') and c.get('fn') in ('push_back', 'emplace_back') and c['c'][0].get('k') == 'Ref' and c['c'][0].get('d') == p['d']]
        pops = [c for c in f.walk() if c.get('k') == 'Call' and c.get('mc') and c.get('fn') == 'pop_back' and c['c'][0].get('k') == 'Ref' and c['c'][0].get('d') == p['d']]
        tests = [c for c in f.walk() if c.get('k') == 'Call' and c.get('fn') in ('find', 'find_if', 'any_of', 'count', 'count_if') and on_p(c) and f.enclosing_lambda(c) is None]
        if not pushes or not pops or not tests:
            continue
        for r in f.walk():
            if r.get('k') != 'Return' or not r.get('c') or f.enclosing_lambda(r) is not None:
                continue
            e = r['c'][0]
            while e.get('k') in ('Paren', 'Cast') and len(e.get('c', [])) == 1:
                e = e['c'][0]
            if e.get('k') == 'Bool' and not e.get('v'):
                continue
            if e.get('k') == 'Ref' and e.get('dk') == 'local':
                i_ = single_def(f, e.get('d'))
                if i_ is not None:
                    e = i_
            # the verdict of a recursive call (directly or through a sibling that calls back) is not this activation's own verdict
            if any(c.get('k') == 'Call' and not c.get('opc') and any(ck == f.key or f.key in F.reach([ck]) for ck in F.callee_keys(c)) for c in walk(e)):
                continue
            yield p['n'], tests[0], r, any(cfg.node_dominates(t, r) for t in tests)


def rule_path_verdicts(F, rep, rid, pred, floor, where_txt):
    from facts import AnalysisBroken
    rep.rule(rid, 'a bool function of %s that keeps the path of its recursion in a vector parameter (membership test, push_back, pop_back) gives a positive answer of its own only after the membership test: '
                  'a shortcut in front of it ("already checked, fine") answers true for an entity that refers back to one still being walked, and the callers that rely on the verdict (flattening, unit reduction) then recurse without end' % where_txt)
    n = 0
    for g in F.funcs.values():
        if not pred(g):
            continue
        for pname, t, r, ok in path_verdicts(F, g):
            n += 1
            rep.check(ok, rid, '%s|%s|return %s' % (g.short.split('::')[-1], pname, render(r['c'][0])[:30]), g.where(r),
                      '%s can return `%s` without having tested whether the entity is already on `%s` (`%s` is not evaluated on every path to this return)' % (g.short, render(r['c'][0])[:40], pname, render(t)[:50]),
                      'after the membership test on ' + pname)
    if n < floor:
        raise AnalysisBroken('%s: only %d own verdicts of path-keeping functions found in %s (%d confirmed)' % (rid, n, where_txt, floor))


WALK_SEARCHES = {'voiFirstOccurrence': 'a search: returns at the first occurrence', 'component': 'lookup', 'takeComponent': 'lookup'}


def tree_walkers(F):
    """Functions that walk the component tree: a loop over componentCount() whose body calls the function again (directly or mutually).
    Yields (func, loop, recursive calls)."""
    for g in F.funcs.values():
        if '/src/' not in g.file:
            continue
        for loop in g.walk():
            if loop.get('k') != 'For' or 'omponentCount()' not in render(role(loop, 'cond')) or g.enclosing_lambda(loop) is not None:
                continue
            rec = [c for c in walk(role(loop, 'body')) if c.get('k') == 'Call' and not c.get('opc') and any(ck == g.key or g.key in F.reach([ck]) for ck in F.callee_keys(c))]
            if rec:
                yield g, loop, rec


def rule_walkers(F, rep, rid, names, floor, what):
    """Visit-everything walks: for the named non-verdict walkers, the descent into every child component depends on nothing but the loop:
    no branch around the loop or the recursive call, no return/continue/break before the recursive call."""
    from facts import AnalysisBroken
    from engines import enclosing_conditions
    rep.rule(rid, 'the walks over the component tree that must see every component (%s) descend into every child: the loop over the children and the recursive call in it are unconditional, and no return/continue/break can be taken before the descent '
                  '(pruning a branch - e.g. below an imported or an empty component - silently skips everything encapsulated under it)' % what)
    n = 0
    seen = set()
    walkers = list(tree_walkers(F))
    todo = [(g, loop, rec, g.name) for g, loop, rec in walkers if g.name in names and g.j.get('ret') != 'bool' and g.name not in WALK_SEARCHES]
    # a named walker that has become a thin wrapper (`collect(model, component, result); return result;`) is judged through the walker it hands over to
    for nm in names:
        if any(t[3] == nm for t in todo):
            continue
        for w in [g for g in F.funcs.values() if g.name == nm and '/src/' in g.file]:
            for c in w.walk():
                if c.get('k') == 'Call' and not c.get('opc') and not enclosing_conditions(w, c) and w.enclosing_lambda(c) is None:
                    for g, loop, rec in walkers:
                        if g.key in F.callee_keys(c) and g.file == w.file and g.j.get('ret') != 'bool' and not any(t[0] is g for t in todo):
                            todo.append((g, loop, rec, nm))
    for g, loop, rec, label in todo:
        seen.add(label)
        n += 1
        first = min(c.get('l', 0) for c in rec)
        outer = [render(cnd)[:50] for cnd, br, st in enclosing_conditions(g, loop)]
        inner = [render(cnd)[:50] for c in rec for cnd, br, st in enclosing_conditions(g, c) if any(a is loop for a in g.ancestors(st))]
        exits = [r for r in g.walk() if r.get('k') in ('Return', 'Continue', 'Break') and g.enclosing_lambda(r) is None and r.get('l', 0) < first
                 and (r.get('k') == 'Return' or any(a is loop for a in g.ancestors(r)))]
        why = []
        if outer:
            why.append('the loop over the children runs only under `%s`' % '`, `'.join(outer))
        if inner:
            why.append('the recursive call is made only under `%s`' % '`, `'.join(inner))
        if exits:
            why.append('a `%s` at line %s can be taken before the descent' % (exits[0]['k'].lower(), exits[0].get('l')))
        # a walker that hands its findings back as a value must take what the descent returns: a bare `walk(child);` visits the subtree and drops everything found there
        if (g.j.get('ret') or 'void') != 'void':
            dropped = [c for c in rec if g.key in F.callee_keys(c) and (g.parent(c) or {}).get('k') in ('Compound', 'For', 'RangeFor', 'While', 'If')]
            if dropped:
                why.append('the value returned by the recursive call at line %s is discarded' % dropped[0].get('l'))
        rep.check(not why, rid, '%s|descends into every child' % label, g.where(loop), '%s: %s' % (g.short, '; '.join(why)), 'unconditional descent' + ('' if label == g.name else ' (in %s, to which %s hands over)' % (g.name, label)))
    missing = set(names) - seen
    for nm in sorted(missing):
        still = [g for g in F.funcs.values() if g.name == nm and '/src/' in g.file]
        if still:
            # the function is there but no longer walks the children at all
            missing.discard(nm)
            n += 1
            rep.fail(rid, '%s|descends into every child' % nm, still[0].where(), '%s no longer calls itself for the child components: only the first level of the component tree is visited' % still[0].short)
    if missing:
        raise AnalysisBroken('%s: tree walkers %s not found (found %d)' % (rid, sorted(missing), n))
