"""E1/E14 - the XML vocabulary written by printer.cpp and the vocabulary recognised by parser.cpp, both read from the AST.

Writer: every string literal of printer.cpp is scanned in source order; `<elem` opens an element, ` attr="` at the end of a literal
names an attribute whose value is the next operand of the surrounding `+` chain (a "sink").  `"<" + label` takes the element names from the
literal arguments at the call sites of the function.
Reader: every `X->isType("attr")` / `isIdAttribute(X, ...)` in parser.cpp is attributed to the element named by the innermost enclosing
element test (`isCellml20Element("e")`, `isCellmlElement("e")`, `parseNode(n, "e")`), else to the element the function loads."""
import re

from facts import render, walk, role, AnalysisBroken
from engines import enclosing_conditions, nth_arg

TOK = re.compile(r'<(?P<elem>[A-Za-z_][\w.\-]*)|\s(?P<attr>[A-Za-z_][\w:.\-]*)="|(?P<dyn><)$')

LOADER_ELEMENT = {
    'loadModel': 'model', 'loadComponent': 'component', 'loadUnits': 'units', 'loadUnit': 'unit', 'loadVariable': 'variable', 'loadReset': 'reset',
    'loadResetChild': ('test_value', 'reset_value'), 'loadConnection': 'connection', 'loadComponentRef': 'component_ref', 'loadEncapsulation': 'encapsulation', 'loadImport': 'import',
}
ELEMENT_TESTS = ('isCellml20Element', 'isCellmlElement', 'isCellml1XElement', 'parseNode', 'isMathmlElement')


def chain_operands(f, n):
    """Operands, in source order, of the maximal `+` / `+=` chain that contains node n."""
    top = n
    while True:
        p = f.parent(top)
        if p is not None and p.get('k') == 'Call' and p.get('opc') in ('+', '+=') and any(x is top for x in p.get('c', [])):
            top = p
            continue
        if p is not None and p.get('k') in ('Construct', 'Cast', 'Paren') and len(p.get('c', [])) == 1:
            top = p
            continue
        break
    out = []

    def flat(x):
        if x.get('k') == 'Call' and x.get('opc') in ('+', '+='):
            for y in x['c']:
                flat(y)
        elif x.get('k') in ('Construct', 'Cast', 'Paren') and len(x.get('c', [])) == 1:
            flat(x['c'][0])
        else:
            out.append(x)
    flat(top)
    return out


def printer_functions(F):
    return sorted([f for f in F.funcs.values() if f.file.endswith('/printer.cpp')], key=lambda f: f.line)


def printer_vocab(F):
    """-> list of dict(func, element, attr, value (node or None), lit (node))"""
    out = []
    fs = printer_functions(F)
    if len(fs) < 10:
        raise AnalysisBroken('printer.cpp: only %d functions found' % len(fs))
    for f in fs:
        cur = [None]
        nodes = sorted([n for n in f.walk() if n.get('k') == 'Str'], key=lambda n: (n.get('l', 0), n['i']))
        for s in nodes:
            v = s.get('v', '')
            for m in TOK.finditer(v):
                if m.group('elem'):
                    if m.start() > 0 and v[m.start() - 1:m.start() + 2] == '</':
                        continue
                    cur = [m.group('elem')]
                elif m.group('dyn') is not None and v == '<':
                    ops = chain_operands(f, s)
                    idx = [i for i, o in enumerate(ops) if o is s]
                    nxt = ops[idx[0] + 1] if idx and idx[0] + 1 < len(ops) else None
                    names = []
                    if nxt is None:
                        continue        # a lone "<" (e.g. a regex replacement), not the start of a tag
                    if nxt is not None and nxt.get('k') == 'Ref' and nxt.get('dk') == 'parm':
                        pi = [i for i, p in enumerate(f.params) if p['d'] == nxt.get('d')]
                        for g in F.funcs.values():
                            for c in g.walk():
                                if c.get('k') == 'Call' and f.key in F.callee_keys(c) and pi:
                                    a = nth_arg(c, pi[0])
                                    lits = [x for x in walk(a)] if a is not None else []
                                    names += [x['v'] for x in lits if x.get('k') == 'Str']
                    if nxt is not None and nxt.get('k') == 'Ref' and nxt.get('dk') in ('local', 'slocal', 'static', 'global'):
                        for vdecl in f.walk():
                            if vdecl.get('k') == 'Var' and vdecl.get('d') == nxt.get('d'):
                                names += [x['v'] for x in walk(vdecl) if x.get('k') == 'Str']
                    if not names:
                        raise AnalysisBroken('%s: element name after "<" is not a parameter fed by literals' % f.short)
                    cur = sorted(set(names))
                elif m.group('attr'):
                    a = m.group('attr')
                    if a.startswith('xmlns'):
                        continue
                    val = None
                    if m.end() == len(v):
                        ops = chain_operands(f, s)
                        idx = [i for i, o in enumerate(ops) if o is s]
                        val = ops[idx[0] + 1] if idx and idx[0] + 1 < len(ops) else None
                    for e in cur:
                        if e is not None:
                            out.append({'func': f, 'element': e, 'attr': a, 'value': val, 'lit': s})
    return out


def printer_elements(F):
    els = set()
    for f in printer_functions(F):
        for s in f.walk():
            if s.get('k') == 'Str':
                for m in TOK.finditer(s.get('v', '')):
                    if m.group('elem') and not (m.start() > 0 and s['v'][m.start() - 1:m.start() + 2] == '</'):
                        els.add(m.group('elem'))
    for p in printer_vocab(F):
        els.add(p['element'])
    return els


def _elem_test(n):
    """(element name, kind) if n is a call testing the element name of an XML node."""
    if n.get('k') == 'Call' and n.get('fn') in ELEMENT_TESTS:
        lits = [x['v'] for x in walk(n) if x.get('k') == 'Str']
        if lits:
            return lits[0], n['fn']
    return None


def parser_functions(F):
    return [f for f in F.funcs.values() if f.file.endswith('/parser.cpp') and f.cls == 'libcellml::Parser::ParserImpl']


def parser_vocab(F):
    """-> (attrs: list of dict(func, element, attr, site, legacy), elements: list of dict(func, element, site, legacy))"""
    attrs, elems = [], []
    fs = parser_functions(F)
    if len(fs) < 12:
        raise AnalysisBroken('parser.cpp: only %d ParserImpl functions found' % len(fs))
    for f in fs:
        base = LOADER_ELEMENT.get(f.name)
        for n in f.walk():
            if n.get('k') != 'Call':
                continue
            et = _elem_test(n)
            if et and f.name != 'parseNode':
                conds = [(render(c), br) for c, br, st in enclosing_conditions(f, n)]
                legacy = et[1] == 'isCellml1XElement' or any('mParsing1XVersion' in t and not t.startswith('!') and br == 'then' for t, br in conds)
                elems.append({'func': f, 'element': et[0], 'site': n, 'legacy': legacy, 'kind': et[1]})
                continue
            name = None
            ns = None
            if n.get('fn') == 'isType':
                lits = [x['v'] for x in walk(n) if x.get('k') == 'Str']
                if not lits:
                    continue
                name = lits[0]
                args = n['c'][1:] if n.get('mc') else n['c']
                ns = render(args[1]) if len(args) > 1 and args[1].get('k') != 'DefArg' else None
            elif n.get('fn') == 'isIdAttribute':
                name = 'id'
            if name is None or f.name == 'isIdAttribute':
                continue
            element = base
            legacy = False
            own_cond = None
            for c, br, st in enclosing_conditions(f, n):
                t = render(c)
                if br == 'then':
                    for x in walk(c):
                        e2 = _elem_test(x)
                        if e2 and not any(y is n for y in walk(c)):
                            element = e2[0]
                if 'mParsing1XVersion' in t and ((br == 'then') != t.startswith('!')) and not any(y is n for y in walk(c)):
                    legacy = True
            # `mParsing1XVersion && attribute->isType("public_interface")`: the attribute test itself is conjoined with the legacy flag
            p = f.parent(n)
            while p is not None and p.get('k') in ('Bin', 'Paren'):
                if p.get('k') == 'Bin' and p.get('op') == '&&' and 'mParsing1XVersion' in render(p) and '!mParsing1XVersion' not in render(p).replace(' ', ''):
                    legacy = True
                p = f.parent(p)
            if ns and 'CMETA' in ns:
                legacy = True
            if element is None:
                continue
            for e in (element if isinstance(element, tuple) else (element,)):
                attrs.append({'func': f, 'element': e, 'attr': ('xlink:' + name) if ns and 'XLINK' in ns else name, 'site': n, 'legacy': legacy})
    return attrs, elems
