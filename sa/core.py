"""Verdict bookkeeping shared by all property checks: obligations, known findings, evidence, exit codes."""
import json
import os
import sys
import time

from facts import VERIF, AnalysisBroken

KNOWN_FILE = os.path.join(VERIF, 'known_findings.json')
EVIDENCE_DIR = os.environ.get('VERIF_EVIDENCE_DIR') or os.path.join(VERIF, 'evidence')


class Report:
    def __init__(self, pid, tier):
        self.pid = pid
        self.tier = tier
        self.t0 = time.time()
        self.obligations = []   # dicts: rule, key, status ok|fail, where, detail
        self.exemptions = []
        self.rules = {}         # rule id -> description
        self.floors = []
        self.notes = []
        self.extra = {}

    # -- rule registration
    def rule(self, rid, text):
        if rid in self.rules and self.rules[rid] != text:
            from facts import AnalysisBroken
            raise AnalysisBroken('rule id %s is registered twice with different texts (a clash of ids in the property module)' % rid)
        self.rules[rid] = text

    def ok(self, rule, key, where=None, detail=None):
        self.obligations.append({'rule': rule, 'key': key, 'status': 'ok', 'where': where, 'detail': detail})

    def fail(self, rule, key, where, detail):
        self.obligations.append({'rule': rule, 'key': key, 'status': 'fail', 'where': where, 'detail': detail})

    def check(self, cond, rule, key, where=None, detail=None, ok_detail=None):
        if cond:
            self.ok(rule, key, where, ok_detail)
        else:
            self.fail(rule, key, where, detail)
        return cond

    def exempt(self, rule, key, reason):
        self.exemptions.append({'rule': rule, 'key': key, 'reason': reason})

    def floor(self, rule, minimum):
        """The rule must have matched at least `minimum` instances (a rule matching nothing never passes)."""
        n = sum(1 for o in self.obligations if o['rule'] == rule)
        self.floors.append({'rule': rule, 'instances': n, 'floor': minimum})
        if n < minimum:
            raise AnalysisBroken('rule %s matched %d instances, confirmed floor is %d' % (rule, n, minimum))

    def count(self, rule):
        return sum(1 for o in self.obligations if o['rule'] == rule)

    def note(self, s):
        self.notes.append(s)


class Borrowed:
    """Runs the rule module of another property inside this report: the clauses of that property which are also necessary
    conditions of this one.  Rule id `C11.D1` becomes `<pid>.C11.D1`; failures named in `exempt` (key: original `rule|key`)
    are recorded as exemptions with their reason instead."""

    def __init__(self, rep, exempt=None, only=None):
        self.rep = rep
        self.exempt_keys = exempt or {}
        self.only = only
        self.pid = rep.pid
        self.tier = rep.tier
        self.extra = {}     # notes of the borrowed module are not copied into this report
        self.nested = True  # a module that runs borrowed does not borrow in turn

    def _r(self, rule):
        return '%s.%s' % (self.rep.pid, rule)

    def _skip(self, rule):
        return self.only is not None and rule not in self.only

    def rule(self, rid, text):
        if not self._skip(rid):
            self.rep.rule(self._r(rid), text)

    def ok(self, rule, key, where=None, detail=None):
        if not self._skip(rule):
            self.rep.ok(self._r(rule), key, where, detail)

    def fail(self, rule, key, where, detail):
        if self._skip(rule):
            return
        fk = rule + '|' + key
        if fk in self.exempt_keys:
            self.rep.exempt(self._r(rule), key, self.exempt_keys[fk])
        else:
            self.rep.fail(self._r(rule), key, where, detail)

    def check(self, cond, rule, key, where=None, detail=None, ok_detail=None):
        if cond:
            self.ok(rule, key, where, ok_detail)
        else:
            self.fail(rule, key, where, detail)
        return cond

    def exempt(self, rule, key, reason):
        if not self._skip(rule):
            self.rep.exempt(self._r(rule), key, reason)

    def floor(self, rule, minimum):
        if not self._skip(rule):
            self.rep.floor(self._r(rule), minimum)

    def count(self, rule):
        return self.rep.count(self._r(rule))

    def note(self, s):
        self.rep.note(s)


def full_key(o):
    return o['rule'] + '|' + o['key']


def load_known():
    if not os.path.exists(KNOWN_FILE):
        return {'known': [], 'fixed': []}
    return json.load(open(KNOWN_FILE))


def finish(rep, facts_stats, level_text, assumptions, trusted):
    """Write evidence, print verdict lines, return exit code."""
    known = load_known()
    known_keys = {}
    for k in known.get('known', []):
        if k['property'] == rep.pid:
            known_keys[k['key']] = k
    fails = [o for o in rep.obligations if o['status'] == 'fail']
    oks = [o for o in rep.obligations if o['status'] == 'ok']
    new = []
    seen_known = {}
    for o in fails:
        fk = full_key(o)
        if fk in known_keys:
            seen_known.setdefault(fk, o)
        else:
            new.append(o)
    os.makedirs(os.path.join(EVIDENCE_DIR, 'replay'), exist_ok=True)
    # stale replay files of this property
    for fn in os.listdir(os.path.join(EVIDENCE_DIR, 'replay')):
        if fn.startswith(rep.pid + '-'):
            os.unlink(os.path.join(EVIDENCE_DIR, 'replay', fn))
    lines = []
    for fk, o in sorted(seen_known.items()):
        lines.append('KNOWN-FINDING: property=%s %s [%s] at %s' % (rep.pid, known_keys[fk]['what'], fk, o.get('where')))
    stale = [fk for fk in known_keys if fk not in seen_known]
    for fk in sorted(stale):
        rep.note('listed finding no longer present on this tree (it suppresses nothing): ' + fk)
    # de-duplicate new violations by key
    uniq = {}
    for o in new:
        uniq.setdefault(full_key(o), o)
    for n, (fk, o) in enumerate(sorted(uniq.items()), 1):
        path = os.path.join(EVIDENCE_DIR, 'replay', '%s-%d.json' % (rep.pid, n))
        json.dump({'property': rep.pid, 'rule': o['rule'], 'rule_text': rep.rules.get(o['rule'], ''), 'key': fk,
                   'where': o.get('where'), 'detail': o.get('detail')}, open(path, 'w'), indent=1)
        lines.append('VIOLATION property=%s replay=%s' % (rep.pid, path))
        lines.append('  rule %s: %s' % (o['rule'], rep.rules.get(o['rule'], '')))
        lines.append('  instance %s at %s' % (o['key'], o.get('where')))
        lines.append('  %s' % (o.get('detail'),))
    per_rule = {}
    for o in rep.obligations:
        r = per_rule.setdefault(o['rule'], {'text': rep.rules.get(o['rule'], ''), 'obligations': 0, 'discharged': 0})
        r['obligations'] += 1
        if o['status'] == 'ok':
            r['discharged'] += 1
    distinct = len({(o['rule'], o['key']) for o in rep.obligations})
    samples = []
    seen_rules = set()
    for o in oks:
        if o['rule'] not in seen_rules:
            seen_rules.add(o['rule'])
            samples.append({'rule': o['rule'], 'instance': o['key'], 'where': o.get('where'), 'discharged_by': o.get('detail')})
    for o in oks[:6]:
        s = {'rule': o['rule'], 'instance': o['key'], 'where': o.get('where'), 'discharged_by': o.get('detail')}
        if s not in samples:
            samples.append(s)
    ev = {
        'property_id': rep.pid,
        'tier': rep.tier,
        'seed': int(os.environ.get('VERIF_SEED', '0') or 0),
        'level': 'other',
        'coverage': {
            'explanation': level_text,
            'evaluations': len(rep.obligations),
            'distinct_nontrivial': distinct,
            'rule': 'one evaluation = one rule instance (a call site, table row, field, path or function named by a rule) '
                    'enumerated from the clang AST/CFG of the current /repo/src; distinct = distinct (rule, instance key); '
                    'every instance is non-trivial in the sense that the rule has a concrete obligation on it',
            'samples': samples[:40],
            'obligations': len(rep.obligations),
            'discharged': len(oks),
            'per_rule': per_rule,
            'instance_floors': rep.floors,
            'exemptions': rep.exemptions,
            'known_findings_present': sorted(seen_known),
            'known_findings_listed_but_absent': sorted(stale),
            'new_violations': sorted(uniq),
            'checker_cmd': './check %s --tier %s' % (rep.pid, rep.tier),
            'trusted_base': trusted,
            'analysed': facts_stats,
            'notes': rep.notes,
            'exhaustive': True,
        },
        'assumptions': assumptions,
        'wall_s': round(time.time() - rep.t0, 2),
        'violations': len(uniq),
    }
    ev['coverage'].update(rep.extra)
    json.dump(ev, open(os.path.join(EVIDENCE_DIR, rep.pid + '.json'), 'w'), indent=1)
    head = ['%s tier=%s: %d obligations over %d rules, %d discharged, %d known findings, %d new violations (%.1fs)' % (
        rep.pid, rep.tier, len(rep.obligations), len(per_rule), len(oks), len(seen_known), len(uniq), time.time() - rep.t0)]
    for r, v in sorted(per_rule.items()):
        head.append('  %-28s %4d/%-4d %s' % (r, v['discharged'], v['obligations'], v['text'][:110]))
    rc = 1 if uniq else 0
    try:
        sys.stdout.write('\n'.join(head + lines) + '\n')
        sys.stdout.flush()
    except BrokenPipeError:
        # the reader closed the pipe early (e.g. `| head`): the verdict is the exit code, the evidence file is already written
        try:
            sys.stdout = open(os.devnull, 'w')
        except OSError:
            pass
    return rc


def borrow(F, rep, mod, only=None, exempt=None):
    """Run the rules `only` of another property module inside this report.  The lender evaluates all of its rules; when one that is NOT borrowed
    loses its anchor (AnalysisBroken) that is the lender's business (its own check reports it): here it only matters if a borrowed rule was
    not evaluated because of it."""
    from facts import AnalysisBroken
    b = Borrowed(rep, exempt=exempt, only=only)
    try:
        mod.run(F, b)
    except AnalysisBroken as e:
        msg = str(e)
        missing = [r for r in (only or []) if ('%s.%s' % (rep.pid, r)) not in rep.rules or not any(o['rule'] == '%s.%s' % (rep.pid, r) for o in rep.obligations)]
        if only is None or missing or any(r in msg for r in only):
            raise
        rep.note('while borrowing %s from %s: a rule that is not borrowed lost its anchor there (%s); the borrowed rules had been evaluated' % (sorted(only), mod.__name__, msg[:160]))


def cited_rules(text):
    """Rule ids cited in a reason text: `C08.G1/G2` -> {C08.G1, C08.G2}."""
    import re
    out = set()
    for m in re.finditer(r'(C\d\d)\.([A-Z]\d\w*(?:/[A-Z]\d\w*)*)', text or ''):
        for part in m.group(2).split('/'):
            out.add('%s.%s' % (m.group(1), part))
    return out


def require_rules(F, rep, rule_ids):
    """An exemption that is justified by gates of ANOTHER property ("reached only behind the isDefined() gates, rules C08.G1/G2") is only as good as
    those gates: they are checked in this report too (borrowed), so that removing a gate is reported by the property whose invariant relied on it."""
    if getattr(rep, 'nested', False):
        return
    import importlib
    by = {}
    for r in sorted(rule_ids):
        pid = r.split('.')[0]
        if pid == rep.pid or ('%s.%s' % (rep.pid, r)) in rep.rules:
            continue
        by.setdefault(pid, set()).add(r)
    for pid, rs in sorted(by.items()):
        mod = importlib.import_module(pid.lower())
        borrow(F, rep, mod, only=rs)
        for r in rs:
            if ('%s.%s' % (rep.pid, r)) not in rep.rules:
                from facts import AnalysisBroken
                raise AnalysisBroken('an invariant of %s cites rule %s, which module %s no longer defines' % (rep.pid, r, pid.lower()))
