"""E10 (fails => logged): interprocedural summaries showing that a failing result is always explained by an issue.

For a function f with failure value V (False/True/null/empty):
  a *failure point* is a `return V`, a `return var` that no assignment of a success value must-precede, or (for
  `return status`-style accumulators) an assignment `status = V`.
  A failure point p is *explained* when on every CFG path from the entry to p the most recent logger event is an
  addIssue (directly or via a function that always adds an issue), or a branch fact holding at p says that a callee
  with the same summary just failed (and no logger removal lies between that call and p).
The summaries are the greatest fixpoint over the candidate set: a candidate that cannot be verified is dropped and
everything is re-verified; what remains is reported per failure point.
"""
from facts import walk, render, role, is_call, AnalysisBroken
from engines import ff, returns, nth_arg, enclosing_conditions

REMOVERS = ('removeError', 'removeAllIssues')


def always_logs(F):
    """Functions in which every entry->exit path passes addIssue (or another always-logging function)."""
    logs = set()
    changed = True
    cands = [f for f in F.funcs.values() if f.cfg() is not None]
    while changed:
        changed = False
        for f in cands:
            if f.key in logs:
                continue
            ids = _log_nodes(F, f, logs)
            if not ids:
                continue
            cfg = f.cfg()
            if _entry_must_pass(cfg, ids):
                logs.add(f.key)
                changed = True
    return logs


def _log_nodes(F, f, logs):
    out = set()
    for n in f.walk():
        if n.get('k') == 'Call' and f.enclosing_lambda(n) is None:
            if n.get('fn') == 'addIssue' or any(k in logs for k in F.callee_keys(n)):
                out.add(n['i'])
    return out


def _remove_nodes(f):
    return {n['i'] for n in f.walk() if n.get('k') == 'Call' and n.get('fn') in REMOVERS and f.enclosing_lambda(n) is None}


def _entry_must_pass(cfg, ids):
    seen = set()
    st = [cfg.entry]
    while st:
        b = st.pop()
        if b in seen:
            continue
        seen.add(b)
        if any(e in ids for e in cfg.blocks[b]['el']):
            continue
        if b == cfg.exit:
            return False
        st.extend(cfg.succ[b])
    return True


def logged_before(cfg, point, log_ids, remove_ids, ok_ids=(), ok_edges=()):
    """On every path entry->point the most recent logger event is a log (backward search from point).  ok_edges: CFG edges (from block, to block)
    that are only taken when a self-explaining callee has just failed (it has logged): a path that arrives over such an edge is explained."""
    pos = cfg.block_of(point)
    if pos is None:
        return False
    b0, i0 = pos

    def scan(blk, upto):
        # scan elements backwards from index upto-1; returns 'log' | 'remove' | None
        els = blk['el'][:upto]
        for e in reversed(els):
            if e in log_ids or e in ok_ids:
                return 'log'
            if e in remove_ids:
                return 'remove'
        return None
    r = scan(cfg.blocks[b0], i0)
    if r == 'log':
        return True
    if r == 'remove':
        return False
    seen = set()
    st = [p_ for p_ in cfg.pred[b0] if (p_, b0) not in ok_edges]
    if b0 == cfg.entry:
        return False
    while st:
        b = st.pop()
        if b in seen:
            continue
        seen.add(b)
        r = scan(cfg.blocks[b], len(cfg.blocks[b]['el']))
        if r == 'log':
            continue
        if r == 'remove':
            return False
        if b == cfg.entry:
            return False
        if not cfg.pred[b] and b != cfg.entry:
            continue  # unreachable block
        st.extend(p_ for p_ in cfg.pred[b] if (p_, b) not in ok_edges)
    return True


def norm_cond(c, t):
    while c is not None and c.get('k') == 'Un' and c.get('op') == '!' and c.get('c'):
        c = c['c'][0]
        t = not t
    return c, t


def _can_reach(cfg, a_node, b_node):
    pa, pb = cfg.block_of(a_node), cfg.block_of(b_node)
    if pa is None or pb is None:
        return False
    if pa[0] == pb[0] and pa[1] <= pb[1]:
        return True
    seen = set()
    st = list(cfg.succ[pa[0]])
    while st:
        x = st.pop()
        if x in seen:
            continue
        seen.add(x)
        if x == pb[0]:
            return True
        st.extend(cfg.succ[x])
    return False


class Summaries:
    def __init__(self, F, candidates):
        """candidates: {function key: failure value} with failure value in (True, False, 'null', 'empty')."""
        self.F = F
        self.cand = dict(candidates)
        self.logs = always_logs(F)
        self.points = {}   # key -> list of (node, explained?, how)
        self.ok_ids = {}
        self.skipped = []

    def failure_points(self, f, V):
        pts = []
        rets = returns(f)
        for r in rets:
            e = r['c'][0] if r.get('c') else None
            if e is None:
                continue
            k = e.get('k')
            if k == 'Bool':
                if V in (True, False) and bool(e.get('v')) == V:
                    pts.append((r, 'return %s' % render(e)))
                continue
            if k == 'Null_' and V == 'null':
                pts.append((r, 'return nullptr'))
                continue
            if k in ('Str',) and V == 'empty' and e.get('v') == '':
                pts.append((r, 'return ""'))
                continue
            if k == 'Construct' and V == 'empty' and not e.get('c'):
                pts.append((r, 'return {}'))
                continue
            if k == 'Ref' and e.get('dk') == 'local':
                # accumulator or default-initialised result variable
                d = e['d']
                assigns = []
                init = None
                for n in f.walk():
                    if n.get('k') == 'Var' and n.get('d') == d:
                        init = n['c'][0] if n.get('c') else 'default'
                    c = n.get('c', [])
                    if n.get('k') in ('Bin', 'CAssign') and c and c[0].get('k') == 'Ref' and c[0].get('d') == d:
                        assigns.append((n, c[1]))
                    if n.get('k') == 'Call' and n.get('opc') in ('=',) and c and c[0].get('k') == 'Ref' and c[0].get('d') == d:
                        assigns.append((n, c[1]))

                def is_fail_value(x):
                    if x == 'default':
                        return V in ('null', 'empty')
                    if x is None:
                        return False
                    while x.get('k') == 'Construct' and len(x.get('c', [])) == 1:
                        x = x['c'][0]
                    if x.get('k') == 'Bool':
                        return V in (True, False) and bool(x.get('v')) == V
                    if x.get('k') == 'Null_':
                        return V == 'null'
                    if x.get('k') == 'Str':
                        return V == 'empty' and x.get('v') == ''
                    if x.get('k') == 'Construct' and not x.get('c'):
                        return V in ('null', 'empty')
                    return False
                if V in (True, False):
                    if is_fail_value(init):
                        pts.append((r, 'return %s (initialised to the failure value)' % e['n']))
                    for an, rhs in assigns:
                        if is_fail_value(rhs):
                            pts.append((an, '%s = %s' % (e['n'], render(rhs))))
                        elif rhs.get('k') != 'Bool':
                            # status = g(...): failure of a summarised callee is fine, anything else is unknown
                            cal = [x for x in walk(rhs) if x.get('k') == 'Call' and any(k2 in self.cand for k2 in self.F.callee_keys(x))]
                            if not cal:
                                pts.append((an, '%s = %s (not a constant, not a summarised callee)' % (e['n'], render(rhs)[:60])))
                else:
                    # pointer/string result: failing unless a success assignment must-precede the return
                    succ = [an for an, rhs in assigns if not is_fail_value(rhs)]
                    cfg = f.cfg()
                    if is_fail_value(init) and not any(cfg.node_dominates(an, r) for an in succ):
                        # only the paths that avoid every success assignment are failing paths
                        self.ok_ids[r['i']] = {an['i'] for an in succ}
                        pts.append((r, 'return %s before any assignment of a result' % e['n']))
                continue
            if k == 'Call':
                keys = self.F.callee_keys(e)
                if any(k2 in self.cand and self.cand[k2] == V for k2 in keys):
                    continue  # returns the callee's verdict, which carries the same summary
                if V in (True, False):
                    # `return a() && b()` etc. are judged below
                    pass
            if V in (True, False) and (k == 'Bin' or (k == 'Call' and e.get('opc'))) and (e.get('op') or e.get('opc')) in ('<', '>', '<=', '>=', '==', '!='):
                # "did anything change?": the state now (a call) compared with a snapshot taken before (a local) reports a state,
                # not a failure path.  Any other comparison (e.g. of a parameter with a count) is a computed verdict and is judged below.
                ops = e.get('c', [])
                kinds = sorted((o.get('k'), o.get('dk')) for o in ops)
                is_call = lambda o: o.get('k') == 'Call' and not o.get('opc')
                if len(ops) == 2 and any(is_call(o) for o in ops) and any(o.get('k') == 'Ref' and o.get('dk') == 'local' for o in ops):
                    self.skipped.append((f, r, render(e)))
                    continue
            if V in (True, False) and k in ('Bin', 'Un', 'Call', 'Cond'):
                # a computed boolean: every failing evaluation must come from summarised callees only
                calls = [x for x in walk(e) if x.get('k') == 'Call' and x.get('ck')]
                if calls and all(any(k2 in self.cand and self.cand[k2] == V for k2 in self.F.callee_keys(x)) for x in calls) and k != 'Cond':
                    continue
                pts.append((r, 'return %s (computed value that may be the failure value)' % render(e)[:70]))
        return pts

    def failure_edges(self, f, cfg):
        """CFG edges taken exactly when a summarised callee (bool failure value) has just reported failure."""
        key = (f.key, id(cfg))
        cache = self.__dict__.setdefault('_fe', {})
        if key in cache:
            return cache[key]
        out = set()
        for b, blk in cfg.blocks.items():
            ss = blk.get('succ') or []
            cid = blk.get('lc') or blk.get('tc')
            if len(ss) != 2 or not cid or blk.get('tk') in ('SwitchStmt', 'CXXTryStmt', 'CXXForRangeStmt'):
                continue
            c = f.nodes.get(cid)
            flip = False
            while c is not None and ((c.get('k') == 'Un' and c.get('op') == '!') or (c.get('k') in ('Paren', 'Cast') and len(c.get('c', [])) == 1)):
                if c.get('k') == 'Un':
                    flip = not flip
                c = c['c'][0]
            if c is None or c.get('k') != 'Call' or c.get('opc'):
                continue
            for k2 in self.F.callee_keys(c):
                V = self.cand.get(k2)
                if V in (True, False):
                    cond_truth_on_failure = (V != flip)      # truth of the whole (possibly negated) condition when the callee fails
                    tgt = ss[0] if cond_truth_on_failure else ss[1]
                    if tgt is not None:
                        out.add((b, tgt))
        cache[key] = out
        return out

    def explained(self, f, point):
        cfg = f.cfg_for(point)
        log_ids = _log_nodes(self.F, f, self.logs)
        rem_ids = _remove_nodes(f)
        if logged_before(cfg, point, log_ids, rem_ids, self.ok_ids.get(point['i'], ()), self.failure_edges(f, cfg)):
            return 'an issue is added on every path to this point'
        cs = ff(f).conds_at(point)
        for c, t in (cs or []):
            c, t = norm_cond(c, t)
            if c is None:
                continue
            for x in walk(c):
                if x.get('k') == 'Call':
                    for k2 in self.F.callee_keys(x):
                        if k2 in self.cand and self.cand[k2] == t and self.cand[k2] in (True, False) and x is c:
                            # no logger removal between the failed call and the point
                            blocked = [r for r in rem_ids if cfg.node_dominates(x, f.nodes[r]) and _can_reach(cfg, f.nodes[r], point)]
                            if not blocked:
                                return 'dominated by the failure of %s, which always explains itself' % self.F.funcs[k2].short
        return None

    def solve(self):
        while True:
            self.points = {}
            dropped = None
            for key, V in sorted(self.cand.items()):
                f = self.F.funcs[key]
                res = []
                for node, what in self.failure_points(f, V):
                    how = self.explained(f, node)
                    res.append((node, what, how))
                self.points[key] = res
            # greatest fixpoint: drop nothing - a failing candidate stays a candidate so that its callers are still judged
            # against the intended contract; its own unexplained points are reported instead.
            return self.points


def key_of(f, node, what, ordinal):
    return '%s|%s#%d' % (f.short, what.split(' (')[0][:50], ordinal)


def report(F, rep, rule, cand_spec, floor):
    """cand_spec: list of (function qualified-name suffix, failure value, nparams or None)."""
    cands = {}
    for suffix, V, npar in cand_spec:
        fs = F.fn(suffix)
        if npar is not None:
            fs = [f for f in fs if len(f.params) == npar]
        if not fs:
            raise AnalysisBroken('anchor vanished: ' + suffix)
        for f in fs:
            cands[f.key] = V
    # helpers split off from a candidate carry the same contract: `return helper(...)` hands the helper's verdict on, and a failure return under
    # `!helper(...)` relies on the helper having explained itself - such helpers (same file, bool result) become candidates too
    changed = True
    while changed:
        changed = False
        for key, V in list(cands.items()):
            if V not in (True, False):
                continue
            f = F.funcs[key]
            for r in returns(f):
                e = r['c'][0] if r.get('c') else None
                if e is None:
                    continue
                new = []
                if e.get('k') == 'Call' and not e.get('opc'):
                    new = [(k2, V) for k2 in F.callee_keys(e)]
                elif e.get('k') == 'Bool' and bool(e.get('v')) == V:
                    for c, t in (ff(f).conds_at(r) or []):
                        c2, t2 = norm_cond(c, t)
                        if c2 is not None and c2.get('k') == 'Call' and not c2.get('opc'):
                            new += [(k2, t2) for k2 in F.callee_keys(c2)]
                for k2, v2 in new:
                    h = F.funcs.get(k2)
                    if h is not None and k2 not in cands and h.file == f.file and (h.j.get('ret') or '') == 'bool' and v2 in (True, False) \
                            and any(F.funcs[k3].name == 'addIssue' for k3 in F.reach([k2]) if k3 in F.funcs):     # a helper that can log at all (not a state query)
                        cands[k2] = v2
                        changed = True
    S = Summaries(F, cands)
    pts = S.solve()
    total = 0
    for key in sorted(pts):
        f = F.funcs[key]
        counters = {}
        if not pts[key] and cands[key] in (True, False):
            # a failure-valued function without a failure point would be a vacuous summary
            rep.note('%s has no failure point for value %s' % (f.short, cands[key]))
        for node, what, how in pts[key]:
            base = what.split(' (')[0][:50]
            ec = enclosing_conditions(f, node)
            if ec:
                # the whole chain of enclosing tests (innermost first): a return moved in front of an outer test is another failure path
                base += '|under:' + ' & '.join(('' if br == 'then' else 'not ') + render(cond)[:70] for cond, br, _ in ec[:4])
            counters[base] = counters.get(base, 0) + 1
            k = '%s/%d|%s#%d' % (f.short, len(f.params), base, counters[base])
            total += 1
            rep.check(how is not None, rule, k, f.where(node),
                      '%s can yield its failure value (%s) without an issue having been added: %s' % (f.short, cands[key], what), how)
    for f, r, txt in S.skipped:
        rep.exempt(rule, '%s/%d|return %s' % (f.short, len(f.params), txt), 'returns a comparison (state report: "were any ids assigned"), not a failure path')
    if total < floor:
        raise AnalysisBroken('%s: %d failure points found, floor %d' % (rule, total, floor))
    return S


IMPORTER = [
    ('Importer::ImporterImpl::fetchModel', False, None),
    ('Importer::ImporterImpl::fetchImportSource', False, None),
    ('Importer::ImporterImpl::fetchUnits', False, None),
    ('Importer::ImporterImpl::fetchComponent', False, None),
    ('Importer::ImporterImpl::checkForImportCycles', True, None),
    ('Importer::ImporterImpl::checkUnitsForCycles', True, None),
    ('Importer::ImporterImpl::checkComponentForCycles', True, None),
    ('Importer::ImporterImpl::hasImportIssues', True, None),
    ('libcellml::Importer::resolveImports', False, None),
    ('libcellml::Importer::flattenModel', 'null', None),
]

ANNOTATOR = [
    ('Annotator::AnnotatorImpl::exists', False, None),
    ('Annotator::AnnotatorImpl::setAutoId', 'empty', None),
    ('libcellml::Annotator::assignAllIds', False, None),
    ('libcellml::Annotator::assignIds', False, None),
]

PARSER = [
    ('libcellml::Parser::parseModel', 'null', None),
    ('Parser::ParserImpl::parseModel', 'null', None),
]


def run_c15(F, rep):
    rep.rule('C15.F1', 'importer: every path on which fetch*/check*ForCycles/hasImportIssues/resolveImports/flattenModel yields its failure value has added an issue (interprocedural fails=>logged summaries)')
    report(F, rep, 'C15.F1', IMPORTER, 20)
    rep.rule('C15.F2', 'annotator: exists/setAutoId/assignAllIds/assignIds yield their failure value only after an issue was added')
    report(F, rep, 'C15.F2', ANNOTATOR, 6)
    rep.rule('C15.F3', 'Parser::parseModel returns null only after an issue was added')
    report(F, rep, 'C15.F3', PARSER, 1)
