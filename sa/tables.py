"""E1: constant tables and enums read from initialisers in the AST."""
from facts import walk, render, AnalysisBroken


def lit(n):
    """Python value of a constant initialiser expression (None when not constant)."""
    k = n.get('k')
    c = n.get('c', [])
    if k == 'Str':
        return n.get('v')
    if k in ('Int', 'Float', 'Char'):
        return n.get('v')
    if k == 'Bool':
        return bool(n.get('v'))
    if k == 'Un' and n.get('op') == '-' and c:
        v = lit(c[0])
        return -v if isinstance(v, (int, float)) else None
    if k == 'Un' and n.get('op') == '+' and c:
        return lit(c[0])
    if k == 'Ref' and n.get('dk') == 'enumc':
        return ('enum', n['q'])
    if k == 'Ref' and n.get('dk') == 'global':
        return ('ref', n.get('q') or n.get('n'))
    if k in ('Construct', 'InitList', 'Cast'):
        vals = [lit(x) for x in c]
        if k == 'Construct' and len(vals) == 1 and not isinstance(vals[0], list) and n.get('cls') in ('std::basic_string',):
            return vals[0]
        if k == 'Cast' and len(vals) == 1:
            return vals[0]
        return vals
    return None


def rows(init):
    """Rows of a brace-initialised container: the children of the outermost InitList."""
    n = init
    while n is not None and n.get('k') != 'InitList':
        c = n.get('c', [])
        if len(c) != 1:
            raise AnalysisBroken('table initialiser has an unexpected shape: ' + render(init)[:120])
        n = c[0]
    out = []
    for r in n.get('c', []):
        v = lit(r)
        out.append((v, r))
    return out


def unwrap1(v):
    while isinstance(v, list) and len(v) == 1:
        v = v[0]
    return v


def map_table(g):
    """std::map initialiser -> list of (key, value, row node)."""
    out = []
    for v, node in rows(g['init']):
        if not isinstance(v, list) or len(v) != 2:
            raise AnalysisBroken('row of %s is not a pair: %s' % (g['qname'], render(node)[:100]))
        out.append((unwrap_key(v[0]), v[1], node))
    return out


def unwrap_key(k):
    k = unwrap1(k)
    return k


def enum_names(e):
    return [x['n'] for x in e['enumerators']]


def ename(v):
    """('enum', 'a::b::C') -> 'C'"""
    if isinstance(v, tuple) and v[0] == 'enum':
        return v[1].split('::')[-1]
    return None
