"""E5: null-state of pointer parameters.  Summary per function: which shared_ptr parameters may be dereferenced on
a path without a dominating non-null test (directly, or by handing them to a callee whose summary says so)."""
from facts import walk, render, is_call, null_test
from engines import ff, path, nth_arg, receiver, unwrap_defarg

FIND_HELPERS_PREFIX = ('find',)


def ptr_params(f):
    return {p['d']: (i, p) for i, p in enumerate(f.params) if 'std::shared_ptr<' in p['t'] or 'std::weak_ptr<' in p['t'] or p['t'].rstrip().endswith('*')}


def nonnull_at(f, n):
    """Names of parameters/locals known non-null at n: dominating null tests, plus the found-idiom
    `it = find*(.., p, ..); it != X.end()` (a lookup can only succeed for a non-null pointer)."""
    cs = ff(f).conds_at(n)
    if cs is None:
        return None
    out = set()
    # a test held in a bool local that is defined once (`const bool hasRoot = node != nullptr; if (hasRoot) ...`) counts where the tested pointer
    # is not assigned between the definition of the bool and this use
    from engines import single_def, _decompose
    extra = []
    for c, t in cs:
        c0 = c
        while c0 is not None and c0.get('k') in ('Paren', 'Cast') and len(c0.get('c', [])) == 1:
            c0 = c0['c'][0]
        if c0 is not None and c0.get('k') == 'Ref' and c0.get('dk') == 'local' and (c0.get('t') or '').replace('const ', '') == 'bool':
            i_ = single_def(f, c0.get('d'))
            if i_ is not None:
                tmp = []
                _decompose(i_, t, tmp)
                for c2, t2 in tmp:
                    nt2 = null_test(c2)
                    if nt2 is None or nt2[1] != t2:
                        continue
                    nm = path(nt2[0])
                    lo, hi = i_.get('l', 0), n.get('l', 0)
                    changed = any(((x.get('k') == 'Bin' and x.get('op') == '=') or (x.get('k') == 'Call' and x.get('opc') == '=')) and x.get('c') and x['c'][0].get('k') == 'Ref' and x['c'][0].get('n') == nm
                                  and lo <= x.get('l', 0) <= hi and x.get('i') != i_.get('i') for x in f.walk())
                    if not changed:
                        extra.append(nm)
    out.update(extra)
    for c, t in cs:
        nt = null_test(c)
        if nt is not None and nt[1] == t:
            out.add(path(nt[0]))
        # found idiom
        if c.get('k') in ('Call', 'Bin') and (c.get('opc') or c.get('op')) in ('!=', '==') and len(c.get('c', [])) == 2:
            a, b = c['c']
            op = c.get('opc') or c.get('op')
            is_end = lambda x: x.get('k') == 'Call' and x.get('fn') in ('end', 'cend')
            if is_end(b) and ((op == '!=' and t) or (op == '==' and not t)):
                src = a
                if a.get('k') == 'Ref' and a.get('dk') == 'local':
                    for v in f.walk():
                        if v.get('k') == 'Var' and v.get('d') == a['d'] and v.get('c'):
                            src = v['c'][0]
                if src.get('k') == 'Call' and (src.get('fn', '').startswith('find') or src.get('callee') in ('std::find', 'std::find_if')):
                    for x in walk(src):
                        if x.get('k') == 'Ref' and x.get('dk') == 'parm':
                            out.add(x['n'])
    # a lambda body sees the parameters/locals of the enclosing function it captures: those that are never re-assigned have the nullness
    # they had where the lambda expression was created
    lam = f.enclosing_lambda(n)
    if lam is not None:
        from engines import _reassigned
        outer = nonnull_at(f, lam) or set()
        out |= {q for q in outer if q and q.replace('_', 'a').isalnum() and not _reassigned(f, q)}
    return out


class NullSummaries:
    def __init__(self, F):
        self.F = F
        self.unsafe = {}    # func key -> {param index: (node, why)}
        self._solve()

    def _direct(self, f):
        pp = ptr_params(f)
        res = {}
        if not pp:
            return res
        for n in f.walk():
            if n.get('k') == 'Call' and n.get('opc') in ('->', '*') and n['c'][0].get('k') == 'Ref' and n['c'][0].get('d') in pp and n['c'][0].get('dk') == 'parm':
                nn = nonnull_at(f, n)
                if nn is None:
                    continue
                nm = n['c'][0]['n']
                if nm not in nn:
                    idx = pp[n['c'][0]['d']][0]
                    res.setdefault(idx, (n, 'dereferenced as `%s` without a dominating null test' % render(f.parent(n) or n)[:60]))
        return res

    def _solve(self):
        F = self.F
        for f in F.funcs.values():
            d = self._direct(f)
            if d:
                self.unsafe[f.key] = d
        changed = True
        rounds = 0
        while changed and rounds < 8:
            changed = False
            rounds += 1
            for f in F.funcs.values():
                pp = ptr_params(f)
                if not pp:
                    continue
                for n in f.walk():
                    if n.get('k') not in ('Call', 'Construct') or n.get('opc'):
                        continue
                    for ck in F.callee_keys(n):
                        us = self.unsafe.get(ck)
                        if not us:
                            continue
                        for ai, (cn, why) in us.items():
                            a = nth_arg(n, ai) if n.get('k') == 'Call' else (n['c'][ai] if ai < len(n.get('c', [])) else None)
                            a = unwrap_defarg(a)
                            while a is not None and a.get('k') in ('Construct', 'Cast') and len(a.get('c', [])) == 1:
                                a = a['c'][0]
                            if a is None or a.get('k') != 'Ref' or a.get('dk') != 'parm' or a.get('d') not in pp:
                                continue
                            idx = pp[a['d']][0]
                            if idx in self.unsafe.get(f.key, {}):
                                continue
                            nn = nonnull_at(f, n)
                            if nn is None or a['n'] in nn:
                                continue
                            self.unsafe.setdefault(f.key, {})[idx] = (n, 'passed to %s, which has it %s' % (F.funcs[ck].short, why[:90]))
                            changed = True
