"""E5 (results): values returned by lookups that input or history can make null must be tested before they are dereferenced."""
from facts import walk, render, is_call, null_test
from engines import ff, nth_arg, receiver, path, is_this_like, render_prov, render_canon
from nullflow import nonnull_at

# callee predicate -> label
def source_kind(n):
    if n.get('k') == 'Cond' and len(n.get('c', [])) == 3:
        # `test ? lookup(x) : nullptr` is as nullable as the lookup
        for b in n['c'][1:]:
            while b.get('k') in ('Construct', 'Cast', 'Temp', 'Paren') and len(b.get('c', [])) == 1:
                b = b['c'][0]
            k = source_kind(b)
            if k:
                return k
        return None
    if n.get('k') != 'Call':
        return None
    if n.get('calleeExpr') and n.get('c') and n['c'][0].get('k') == 'Unresolved' and n['c'][0].get('n') in ('owningModel', 'owningComponent'):
        return n['c'][0]['n']    # the same lookups inside a generic lambda (dependent context: the callee is not resolved yet)
    fn = n.get('fn')
    cal = n.get('callee', '')
    c = n.get('c', [])
    if cal in ('libcellml::owningModel', 'libcellml::owningComponent'):
        return fn
    if cal == 'libcellml::mathmlChildNode':
        return 'mathmlChildNode'
    if cal == 'libcellml::nonCommentChildNode':
        return 'nonCommentChildNode'
    if cal == 'std::dynamic_pointer_cast':
        return 'dynamic_pointer_cast'
    if fn == 'lock' and 'weak_ptr' in n.get('cls', ''):
        return 'weak.lock'
    if fn == 'rootNode':
        return 'rootNode'
    if fn == 'model' and n.get('cls', '').endswith('ImportSource') and n.get('mc'):
        return 'importSource.model'
    if fn == 'importSource' and n.get('mc'):
        return 'importSource'
    if fn == 'units' and n.get('mc') and n.get('cls', '').endswith('Model') and len(c) == 2 and 'basic_string' in (c[1].get('t', '') + c[1].get('rt', '')):
        return 'units(name)'
    if fn == 'variable' and n.get('mc') and n.get('cls', '').endswith('Component') and len(c) == 2 and 'basic_string' in (c[1].get('t', '') + c[1].get('rt', '')):
        return 'variable(name)'
    if fn == 'component' and n.get('mc') and len(c) >= 2 and 'basic_string' in (c[1].get('t', '') + c[1].get('rt', '')):
        return 'component(name)'
    if fn == 'units' and n.get('mc') and n.get('cls', '').endswith('Variable') and len(c) == 1:
        return 'variable.units'
    if fn == 'parent' and n.get('mc') and n.get('cls', '').endswith('ParentedEntity'):
        return 'parent'
    if fn == 'parent' and n.get('mc') and n.get('cls', '').endswith('AnalyserEquationAst'):
        return 'ast.parent'
    return None


def deref_sites(F):
    """(func, source call node, source kind, deref node, variable name or None)"""
    out = []
    for f in F.funcs.values():
        # direct: source()->member
        for n in f.walk():
            if n.get('k') == 'Call' and n.get('opc') in ('->', '*') and n.get('c'):
                a = n['c'][0]
                while a.get('k') in ('Construct', 'Cast') and len(a.get('c', [])) == 1:
                    a = a['c'][0]
                k = source_kind(a)
                if k:
                    out.append((f, a, k, n, None))
        # through a local
        for v in f.walk():
            if v.get('k') == 'Var' and v.get('c'):
                a = v['c'][0]
                while a.get('k') in ('Construct', 'Cast') and len(a.get('c', [])) == 1:
                    a = a['c'][0]
                k = source_kind(a)
                if not k:
                    continue
                # reassigned locals are skipped (their state is not tracked)
                reass = [x for x in f.walk() if (x.get('k') == 'Call' and x.get('opc') == '=' or x.get('k') == 'Bin' and x.get('op') == '=') and x.get('c') and x['c'][0].get('k') == 'Ref' and x['c'][0].get('d') == v['d']]
                if reass:
                    continue
                for n in f.walk():
                    if n.get('k') == 'Call' and n.get('opc') in ('->', '*') and n['c'][0].get('k') == 'Ref' and n['c'][0].get('d') == v['d']:
                        out.append((f, a, k, n, v['n']))
                    elif n.get('k') == 'DepMember' and n.get('c') and n['c'][0].get('k') == 'Ref' and n['c'][0].get('d') == v['d'] and v.get('t') == 'auto':
                        out.append((f, a, k, n, v['n']))   # member access on the local inside a generic lambda
    # handed (directly or through the local) to a callee whose summary dereferences that parameter without a test
    from nullflow import NullSummaries
    ns = _summaries(F)
    for f in F.funcs.values():
        locs = {}
        for v in f.walk():
            if v.get('k') == 'Var' and v.get('c'):
                a = v['c'][0]
                while a.get('k') in ('Construct', 'Cast') and len(a.get('c', [])) == 1:
                    a = a['c'][0]
                k = source_kind(a)
                if k:
                    reass = [x for x in f.walk() if (x.get('k') == 'Call' and x.get('opc') == '=' or x.get('k') == 'Bin' and x.get('op') == '=') and x.get('c') and x['c'][0].get('k') == 'Ref' and x['c'][0].get('d') == v['d']]
                    if not reass:
                        locs[v['d']] = (a, k, v['n'])
        for c in f.walk():
            if c.get('k') != 'Call' or c.get('opc'):
                continue
            args = c['c'][1:] if c.get('mc') else c['c']
            for i, a in enumerate(args):
                b = a
                while b.get('k') in ('Construct', 'Cast') and len(b.get('c', [])) == 1:
                    b = b['c'][0]
                src = None
                if b.get('k') == 'Ref' and b.get('d') in locs:
                    src = locs[b['d']]
                elif source_kind(b):
                    src = (b, source_kind(b), None)
                if src is None:
                    continue
                for ck in F.callee_keys(c):
                    if i in ns.unsafe.get(ck, {}):
                        out.append((f, src[0], src[1], c, src[2]))
    # a local that is ASSIGNED such a result later on (`node = doc->rootNode();`): its uses up to the next assignment of that local, where the
    # assignment is evaluated on every path to the use
    for f in F.funcs.values():
        asg = []
        for x in f.walk():
            c_ = x.get('c', [])
            if ((x.get('k') == 'Call' and x.get('opc') == '=') or (x.get('k') == 'Bin' and x.get('op') == '=')) and len(c_) == 2 and c_[0].get('k') == 'Ref' and c_[0].get('dk') == 'local' and f.enclosing_lambda(x) is None:
                a = c_[1]
                while a.get('k') in ('Construct', 'Cast', 'Temp', 'Bind') and len(a.get('c', [])) == 1:
                    a = a['c'][0]
                asg.append((x, c_[0]['d'], c_[0]['n'], a, source_kind(a)))
        if not any(k for x, d, nm, a, k in asg):
            continue
        cfg = f.cfg()
        if cfg is None:
            continue
        for x, d, nm, a, k in asg:
            if not k:
                continue
            later = sorted(y.get('l', 0) for y, d2, n2, a2, k2 in asg if d2 == d and y is not x and y.get('l', 0) > x.get('l', 0))
            upto = later[0] if later else 10 ** 9

            def mine(u):
                return x.get('l', 0) <= u.get('l', 0) < upto and u['i'] in cfg.pos and cfg.node_dominates(x, u)
            for n in f.walk():
                if n.get('k') == 'Call' and n.get('opc') in ('->', '*') and n.get('c') and n['c'][0].get('k') == 'Ref' and n['c'][0].get('d') == d and mine(n):
                    out.append((f, a, k, n, nm))
                elif n.get('k') == 'Call' and not n.get('opc') and mine(n):
                    args = n['c'][1:] if n.get('mc') else n['c']
                    for i, b in enumerate(args):
                        while b.get('k') in ('Construct', 'Cast') and len(b.get('c', [])) == 1:
                            b = b['c'][0]
                        if b.get('k') == 'Ref' and b.get('d') == d and any(i in ns.unsafe.get(ck, {}) for ck in F.callee_keys(n)):
                            out.append((f, a, k, n, nm))
    return out


def _summaries(F):
    from nullflow import NullSummaries
    if getattr(F, '_null_summaries', None) is None:
        F._null_summaries = NullSummaries(F)
    return F._null_summaries


def _call_sites_of(F, key):
    idx = getattr(F, '_call_sites_idx', None)
    if idx is None:
        idx = {}
        for g in F.funcs.values():
            for c in g.walk():
                if c.get('k') == 'Call' and not c.get('opc'):
                    for ck in F.callee_keys(c):
                        idx.setdefault(ck, []).append((g, c))
        F._call_sites_idx = idx
    return idx.get(key, [])


def held_by_callers(F, f, member, depth=0):
    """Every call site of the member function f (all of them in methods of the same object) is reached only where a local that was initialised by
    locking the SAME weak member is known to be non-null: the caller holds the locked object for the duration of the call."""
    sites = _call_sites_of(F, f.key)
    if not sites or depth > 3:
        return None
    for g, c in sites:
        r = receiver(c) if c.get('mc') else None
        if r is not None and not (is_this_like(r) or render(r) in ('pFunc()',)):
            return None
        nn = nonnull_at(g, c) or set()
        holders = [v['n'] for v in g.walk() if v.get('k') == 'Var' and v.get('c') and any(x.get('k') == 'Call' and x.get('fn') == 'lock' and x.get('c') and render(x['c'][0]).split('->')[-1].split('.')[-1] == member for x in walk(v['c'][0]))]
        if any(h in nn for h in holders):
            continue
        if held_by_callers(F, g, member, depth + 1):
            continue
        return None
    return 'every call site of %s holds a non-null local locked from %s' % (f.short.split('::')[-1], member)


def discharged(F, f, src, kind, deref, var):
    nn = nonnull_at(f, deref)
    if nn is None:
        return 'unreachable'
    if var and var in nn:
        return 'null-tested'
    if not var and (path(src) in nn or render(src) in nn):
        return 'null-tested'
    if kind == 'weak.lock' and src.get('c'):
        member = render(src['c'][0]).split('->')[-1].split('.')[-1]
        if member.startswith('m'):
            how = held_by_callers(F, f, member)
            if how:
                return how
    from engines import facts_x as _fx
    rc = set(ff(f).rendered_conds_at(deref) or set()) | set(_fx(F, f, deref) or set())
    if kind in ('nonCommentChildNode', 'mathmlChildNode') and len(src.get('c', [])) == 2:
        # guarded by a count of the same node: nonCommentChildCount(x) == K (or != K false) with K > index
        import re as _re
        node_t, idx_t = render(src['c'][0]), render(src['c'][1])
        cnt = 'nonCommentChildCount' if kind == 'nonCommentChildNode' else 'mathmlChildCount'
        # ... or by one of the validator's arity helpers on the same node (they return true only for that many MathML children), or by the loop bound `i < count(node)`
        if kind == 'mathmlChildNode':
            mins = {'hasOneMathmlChild': 1, 'hasTwoMathmlChildren': 2, 'hasAtLeastOneMathmlChild': 1, 'hasAtLeastTwoMathmlChildren': 2, 'hasOneOrTwoMathmlChildren': 1}
            for c_, t_ in rc:
                m_ = _re.match(r'^(has\w+Mathml(?:Child|Children))\(%s[,)]' % _re.escape(node_t), c_)
                if m_ and t_ and m_.group(1) in mins and idx_t.isdigit() and int(idx_t) < mins[m_.group(1)]:
                    return 'under %s(%s, ..)' % (m_.group(1), node_t)
                if t_ and c_ == '%s < %s(%s)' % (idx_t, cnt, node_t):
                    return 'under %s' % c_
        if idx_t.isdigit():
            for c_, t_ in rc:
                m_ = _re.match(r'^%s\(%s\) (==|!=|>|>=) (\d+)$' % (cnt, _re.escape(node_t)), c_)
                if not m_:
                    continue
                op_, k_ = m_.group(1), int(m_.group(2))
                if ((op_ == '==' and t_) or (op_ == '!=' and not t_)) and k_ > int(idx_t):
                    return 'under %s(%s) == %d' % (cnt, node_t, k_)
                if t_ and ((op_ == '>' and k_ >= int(idx_t)) or (op_ == '>=' and k_ > int(idx_t))):
                    return 'under %s' % c_
    obj = receiver(src) if src.get('mc') else None
    ot = render(obj) if obj is not None else None
    if kind == 'importSource' and ot is not None:
        if (ot + '->isImport()', True) in rc or ('isImport()', True) in rc and is_this_like(obj):
            return 'under isImport() of the same object'
        if (ot + '->isResolved()', True) in rc:
            return 'under isResolved()'
    if kind == 'importSource' and obj is not None and is_this_like(obj) and ('isImport()', True) in rc:
        return 'under isImport()'
    if kind == 'units(name)' and ot is not None:
        a = render(src['c'][1])
        if ('%s->hasUnits(%s)' % (ot, a), True) in rc:
            return 'under hasUnits(name) on the same model'
    if kind == 'rootNode' and ot is not None:
        if (ot + '->xmlErrorCount() == 0', True) in rc or (ot + '->xmlErrorCount() > 0', False) in rc or (ot + '->xmlErrorCount() != 0', False) in rc:
            return 'the document parsed without errors (xmlErrorCount() == 0), so it has a root'
    if kind == 'importSource.model' and ot is not None:
        for c, t in rc:
            if t and c.startswith('fetchImportSource(%s' % ot):
                return 'fetchImportSource() succeeded for this import source, which sets its model'
    if kind == 'importSource.model' and ot is not None:
        base = render(receiver(obj)) if obj.get('k') == 'Call' and obj.get('mc') else None
        for c, t in rc:
            if t and (c.endswith('->isResolved()') or c.endswith('->hasModel()')):
                return 'under %s' % c
    return None


def inherited_invariant(F, f, canon, kind, inv, depth=0):
    """A lookup that sits in a helper split off from a larger function: with the helper's parameters replaced by the arguments at EVERY call
    site, is it a lookup for which a confirmed invariant exists in the caller (or, one more level up, in the caller's callers)?  Returns the
    reason (prefixed with the route) or None."""
    import re as _re
    sites = _call_sites_of(F, f.key)
    if not sites or depth > 2:
        return None
    reasons = []
    for g, c in sites:
        args = c['c'][1:] if c.get('mc') else c.get('c', [])
        if len(args) < len(f.params):
            return None
        from engines import param_tokens
        toks = param_tokens(f)
        sub = {toks[p_.get('d')]: render_canon(g, a) for p_, a in zip(f.params, args)}
        txt = _re.sub(r'\$[A-Za-z0-9]*#\d+', lambda m_: sub.get(m_.group(0), m_.group(0)), canon)
        k = '%s|%s|~%s' % (g.short, kind, txt[:110])
        if k in inv:
            reasons.append('in the helper %s, called from %s with these arguments: %s' % (f.short.split('::')[-1], g.short.split('::')[-1], inv[k]))
            continue
        up = inherited_invariant(F, g, txt, kind, inv, depth + 1) if g is not f else None
        if up:
            reasons.append(up)
            continue
        return None
    return reasons[0] if reasons else None


def run(F, rep, rid, kinds=None):
    rep.rule(rid, 'results of lookups that input or history can make null (owningModel/owningComponent, parent(), dynamic_pointer_cast, weak_ptr::lock, rootNode, importSource(), ImportSource::model(), '
                  'units/variable/component by name) are dereferenced only under a non-null test or an equivalent guard (isImport(), hasUnits(name), isResolved())')
    import json, os
    from facts import VERIF
    table = json.load(open(os.path.join(VERIF, 'sa', 'tables', 'nullres_invariants.json')))
    inv = {e['key']: e['reason'] for e in table['invariants']}
    sites = deref_sites(F)
    seen = {}
    n = 0
    from core import cited_rules, require_rules
    cited = set()
    for f, src, kind, deref, var in sorted(sites, key=lambda s: (s[0].file, s[3].get('l', 0))):
        if kinds is not None and kind not in kinds:
            continue
        key = '%s|%s|%s' % (f.short + '/%d' % len(f.params), kind, (var or render(src))[:50])
        if kind == 'mathmlChildNode':
            # which MathML element is being taken apart: the arity the validator guarantees differs per element
            els = sorted({m_.group(1) for cnd, t in (ff(f).rendered_conds_at(deref) or set()) if t for m_ in [__import__('re').search(r'isMathmlElement\("(\w+)"\)', cnd)] if m_})
            key += '|in <%s>' % (','.join(els) if els else '?')
        how = discharged(F, f, src, kind, deref, var)
        prev = seen.get(key)
        if prev == 'fail':
            continue
        if how:
            if prev is None:
                seen[key] = how
            continue
        seen[key] = 'fail'
        seen[key + '@'] = (f, deref, src)
    for key, how in sorted(seen.items()):
        if key.endswith('@'):
            continue
        n += 1
        if how == 'fail':
            f, deref, src = seen[key + '@']
            # the invariant is about the lookup, not about the name of the local that holds its result
            parts = key.split('|')
            alt = '|'.join(parts[:2] + [render(src)[:50]] + parts[3:])
            # ... nor about the name a loop gives to its element (range-for variable, structured binding): provenance form
            alt2 = '|'.join(parts[:2] + [render_prov(f, src)[:70]] + parts[3:])
            # ... nor about the names of locals and parameters at all: canonical form (single-definition locals spelled out, parameters by position)
            alt3 = '|'.join([parts[0].rsplit('/', 1)[0], parts[1], '~' + render_canon(f, src)[:110]] + parts[3:])
            inh = None
            if not (key in inv or alt in inv or alt2 in inv or alt3 in inv) and len(parts) == 3:
                inh = inherited_invariant(F, f, render_canon(f, src), parts[1], inv)
            if key in inv or alt in inv or alt2 in inv or alt3 in inv:
                rsn = inv.get(key) or inv.get(alt) or inv.get(alt2) or inv[alt3]
                rep.exempt(rid, key, rsn)
                cited |= cited_rules(rsn)
            elif inh:
                rep.exempt(rid, key, inh)
                cited |= cited_rules(inh)
            else:
                rep.fail(rid, key, f.where(deref), '`%s` can be null (%s) and is dereferenced as `%s` without a test' % (render(src)[:50], key.split('|')[1], render(f.parent(deref) or deref)[:60]))
        else:
            rep.ok(rid, key, None, how)
    # the gates those invariants rest on are part of this rule
    require_rules(F, rep, cited)
    return n
