"""E7: field coverage (equals / clone / predicates): which data members of `this` a function reads or writes,
directly or through calls on `this`, and which members it touches on other objects."""
from facts import walk, render, role, is_call, AnalysisBroken
from engines import is_this_like, is_write_context, path, receiver


def impl_record(F, cls):
    """'Variable' -> record dict of libcellml::Variable::VariableImpl"""
    res = [r for q, r in F.records.items() if q.endswith('::%s::%sImpl' % (cls, cls))]
    if len(res) != 1:
        raise AnalysisBroken('Impl struct of %s vanished or ambiguous (%d)' % (cls, len(res)))
    return res[0]


def impl_fields(F, cls, inherited=True):
    rec = impl_record(F, cls)
    out = [(f['n'], rec['qname'], f) for f in rec['fields']]
    if inherited:
        for b in F.bases(rec['qname']):
            if b in F.records:
                out += [(f['n'], b, f) for f in F.records[b]['fields']]
    return out


def _thisish(f, n, depth=0):
    """is_this_like, also through a local that was initialised once from the object's own state (`auto impl = pFunc();`, `auto *d = mPimpl;`)"""
    if is_this_like(n):
        return True
    x = n
    while x is not None and x.get('k') == 'Call' and x.get('opc') in ('->', '*') and x.get('c'):
        x = x['c'][0]
    while x is not None and x.get('k') in ('Cast', 'Paren') and len(x.get('c', [])) == 1:
        x = x['c'][0]
    if x is not None and x.get('k') == 'Ref' and x.get('dk') == 'local' and depth < 3:
        from engines import single_def
        i_ = single_def(f, x.get('d'))
        while i_ is not None and i_.get('k') in ('Cast', 'Paren', 'Temp', 'Bind') and len(i_.get('c', [])) == 1:
            i_ = i_['c'][0]
        if i_ is not None and i_.get('k') != 'Ref' and (i_.get('k') in ('This',) or (i_.get('k') == 'Call' and i_.get('fn') == 'pFunc') or (i_.get('k') == 'Member' and i_.get('n') == 'mPimpl')):
            return True
    return False


def this_calls(F, f):
    """Resolved callees of member calls whose receiver is this-like (this, pFunc(), mPimpl)."""
    out = []
    for n in f.walk():
        if n.get('k') == 'Call' and n.get('mc') and not n.get('opc') and n.get('c') and _thisish(f, n['c'][0]):
            for ck in F.callee_keys(n):
                if ck in F.funcs:
                    out.append((n, F.funcs[ck]))
    return out


def this_reads(F, f, depth=0, seen=None):
    seen = seen if seen is not None else set()
    if f.key in seen or depth > 5:
        return set()
    seen.add(f.key)
    out = set()
    for n in f.walk():
        if n.get('k') == 'Member' and n.get('field'):
            c = n.get('c', [])
            if _thisish(f, c[0] if c else None):
                # a pure write (assignment target) is not a read
                p = f.parent(n)
                if p is not None and p.get('k') in ('Bin',) and p.get('op') == '=' and p['c'][0] is n:
                    continue
                if p is not None and p.get('k') == 'Call' and p.get('opc') == '=' and p['c'][0] is n:
                    continue
                out.add(n['n'])
    for n, g in this_calls(F, f):
        out |= this_reads(F, g, depth + 1, seen)
    return out


def this_writes(F, f, depth=0, seen=None):
    seen = seen if seen is not None else set()
    if f.key in seen or depth > 5:
        return set()
    seen.add(f.key)
    out = set()
    for n in f.walk():
        if n.get('k') == 'Member' and n.get('field'):
            c = n.get('c', [])
            if _thisish(f, c[0] if c else None) and is_write_context(f, n):
                out.add(n['n'])
    for n, g in this_calls(F, f):
        out |= this_writes(F, g, depth + 1, seen)
    return out


def other_calls(F, f, depth=0, seen=None, follow_helpers=True):
    """(call node, callee Func) for member calls on receivers that are NOT this-like, in f and in the repo helpers
    it calls (free functions and this-methods), transitively."""
    seen = seen if seen is not None else set()
    if f.key in seen or depth > 4:
        return []
    seen.add(f.key)
    out = []
    for n in f.walk():
        if n.get('k') != 'Call':
            continue
        keys = [k for k in F.callee_keys(n) if k in F.funcs]
        if n.get('mc') and not n.get('opc') and n.get('c') and not is_this_like(n['c'][0]):
            for k in keys:
                out.append((f, n, F.funcs[k]))
        elif follow_helpers:
            for k in keys:
                g = F.funcs[k]
                if g.name in ('equals', 'doEquals', 'clone'):
                    continue
                out += other_calls(F, g, depth + 1, seen)
    return out


def other_reads(F, f):
    out = set()
    for g0, n, g in other_calls(F, f):
        out |= this_reads(F, g)
    return out


def size_comparisons(F, f, depth=0, seen=None):
    """Comparisons (==/!=) in f and its this-helpers: list of (function, node, rendered lhs, rendered rhs)."""
    seen = seen if seen is not None else set()
    if f.key in seen or depth > 3:
        return []
    seen.add(f.key)
    out = []
    for n in f.walk():
        if n.get('k') == 'Bin' and n.get('op') in ('==', '!=') and len(n['c']) == 2:
            out.append((f, n, render(n['c'][0]), render(n['c'][1])))
    for n, g in this_calls(F, f):
        out += size_comparisons(F, g, depth + 1, seen)
    return out
