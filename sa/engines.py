"""Reusable rule-engine helpers on top of the fact base (paths, guards, dominance, effects)."""
import re

from facts import walk, render, role, is_call, strip_arrow, null_test, AnalysisBroken

THIS_ALIASES = ('pFunc', 'mPimpl')


def is_this_like(n):
    """`this`, `pFunc()`, `mPimpl` (possibly through casts) all denote the object's own state."""
    if n is None:
        return True
    k = n.get('k')
    if k in ('This', 'NoObj'):
        return True
    if k == 'Call' and n.get('fn') == 'pFunc':
        return True
    if k == 'Member' and n.get('n') == 'mPimpl':
        c = n.get('c', [])
        return not c or is_this_like(c[0])
    if k == 'Cast' and n.get('c'):
        return is_this_like(n['c'][0])
    if k == 'Call' and n.get('opc') in ('->', '*') and n.get('c'):
        return is_this_like(n['c'][0])
    return False


def path(n):
    """Canonical access path of an lvalue-ish expression: 'this.mX', 'param.f()', ..."""
    if n is None:
        return 'this'
    k = n.get('k')
    c = n.get('c', [])
    if is_this_like(n):
        return 'this'
    if k == 'Member':
        return path(c[0] if c else None) + '.' + n['n']
    if k == 'Ref':
        return n.get('n', '?')
    if k == 'Call' and n.get('opc') in ('->', '*') and c:
        return path(c[0])
    if k == 'Call' and n.get('mc') and c:
        return path(c[0]) + '.' + n.get('fn', '?') + '(' + ','.join(path(x) for x in c[1:]) + ')'
    if k == 'Call' and n.get('opc') == '[]' and len(c) == 2:
        return path(c[0]) + '[' + path(c[1]) + ']'
    if k == 'Construct' and len(c) == 1:
        return path(c[0])
    if k == 'Cast' and c:
        return path(c[0])
    return render(n)


def refs_in(n):
    return {x.get('n') for x in walk(n) if x.get('k') == 'Ref' and x.get('dk') in ('parm', 'local', 'slocal')}


def assigned_names(node):
    """Names of local variables/params (re)assigned by this expression node itself."""
    k = node.get('k')
    c = node.get('c', [])
    out = set()
    if k in ('Bin', 'CAssign') and (k == 'CAssign' or node.get('op') == '=') and c:
        if c[0].get('k') == 'Ref':
            out.add(c[0].get('n'))
    elif k == 'Un' and node.get('op') in ('++', '--') and c and c[0].get('k') == 'Ref':
        out.add(c[0].get('n'))
    elif k == 'Call' and node.get('opc') in ('=', '+=', '-=', '++', '--') and c and c[0].get('k') == 'Ref':
        out.add(c[0].get('n'))
    return out


def _decompose(cn, truth, out):
    """(a && b) true => a true, b true; (a || b) false => a false, b false; !a flips.  With all sub-expressions
    added, clang's CFG joins the operands of && / || before the branch, so the branch fact is on the whole expression."""
    while cn is not None and cn.get('k') == 'Un' and cn.get('op') == '!' and cn.get('c'):
        cn = cn['c'][0]
        truth = not truth
    if cn is None:
        return
    out.append((cn, truth))
    if cn.get('k') == 'Bin' and cn.get('op') == '&&' and truth:
        _decompose(cn['c'][0], True, out)
        _decompose(cn['c'][1], True, out)
    elif cn.get('k') == 'Bin' and cn.get('op') == '||' and not truth:
        _decompose(cn['c'][0], False, out)
        _decompose(cn['c'][1], False, out)


class FuncFacts:
    """Per-function guard facts: which branch conditions hold (on every path) at a node."""

    def __init__(self, func):
        self.func = func
        self._bf = {}
        self._assigned = {}
        self._aliases = {}

    def _block_assigns(self, cfg, blk):
        key = (id(cfg), blk['id'])
        if key not in self._assigned:
            s = set()
            for e in blk['el']:
                n = self.func.nodes.get(e)
                if n is not None:
                    s |= assigned_names(n)
            self._assigned[key] = s
        return self._assigned[key]

    def facts_in(self, cfg):
        if id(cfg) not in self._bf:
            def kill(cond, blk):
                if cond is None:
                    return True
                a = self._block_assigns(cfg, blk)
                return bool(a and (a & refs_in(cond)))
            texts = {}
            aliases = self._aliases.setdefault(id(cfg), {})

            def canon(cid):
                n = self.func.nodes.get(cid)
                if n is None:
                    return cid
                t = render(n)
                c0 = texts.setdefault(t, cid)
                aliases.setdefault(c0, set()).add(cid)
                return c0
            self._bf[id(cfg)] = cfg.branch_facts(kill, canon)
        return self._bf[id(cfg)]

    def conds_at(self, node):
        """List of (condition node, truth) known to hold whenever `node` is evaluated."""
        cfg = self.func.cfg_for(node)
        if cfg is None:
            return []
        pos = cfg.block_of(node)
        if pos is None:
            return []
        fin = self.facts_in(cfg).get(pos[0])
        if fin is None:
            return None  # unreachable
        out = []
        al = self._aliases.get(id(cfg), {})
        for cid0, truth in fin:
            # every condition with the same text as the canonical one carries the same fact
            for cid in sorted(al.get(cid0, {cid0})):
                cn = self.func.nodes.get(cid)
                if cn is not None:
                    _decompose(cn, truth, out)
        # conditions evaluated earlier in the same block do not branch (a block has one terminator), so done.
        # A lambda body inherits the control facts that hold where the lambda expression is created: in this code base lambdas are handed to
        # <algorithm> calls and run at once (the three stored lambdas of the library capture nothing that the facts mention).
        lam = self.func.enclosing_lambda(node)
        if lam is not None:
            outer = self.conds_at(lam)
            if outer:
                out = out + outer
        return out

    def rendered_conds_at(self, node):
        cs = self.conds_at(node)
        if cs is None:
            return None
        return {(render(c), t) for c, t in cs}


def ff(func):
    # cached on the Func object itself: a cache keyed by name would hand the facts of another Facts instance (other node objects) to `is` comparisons
    r = getattr(func, '_ff', None)
    if r is None or r.func is not func:
        r = func._ff = FuncFacts(func)
    return r


def nonnull_facts(func, node):
    """Paths known to be non-null where `node` is evaluated (from dominating null tests)."""
    cs = ff(func).conds_at(node)
    if cs is None:
        return None
    out = set()
    for c, t in cs:
        nt = null_test(c)
        if nt is not None and nt[1] == t:
            out.add(path(nt[0]))
    # inside a lambda: a plain local/parameter that is never re-assigned (or reset/swapped) in the enclosing function has, whether captured by
    # value or by reference, the nullness it had where the lambda expression was created
    lam = func.enclosing_lambda(node)
    if lam is not None:
        outer = nonnull_facts(func, lam) or set()
        for pth in outer:
            if pth and pth.replace('_', 'a').isalnum() and not _reassigned(func, pth):
                out.add(pth)
    return out


def _reassigned(func, name):
    for x in func.walk():
        c = x.get('c', [])
        if not c or c[0].get('k') != 'Ref' or c[0].get('n') != name:
            continue
        if (x.get('k') == 'Bin' and x.get('op') == '=') or x.get('k') == 'CAssign' or (x.get('k') == 'Call' and x.get('opc') in ('=',)):
            return True
        if x.get('k') == 'Call' and x.get('mc') and x.get('fn') in ('reset', 'swap'):
            return True
    return False


def returns(func):
    return [n for n in func.walk() if n.get('k') == 'Return' and func.enclosing_lambda(n) is None]


def stmts_of(node, kind):
    return [n for n in walk(node) if n.get('k') == kind]


def field_uses(func, F=None):
    """Every Member access to a data member: (field name, owner path, node)."""
    out = []
    for n in func.walk():
        if n.get('k') == 'Member' and n.get('field'):
            c = n.get('c', [])
            out.append((n['n'], path(c[0] if c else None), n))
    return out


def is_write_context(func, n):
    """Is this member/ref expression the target of an assignment or of a mutating container call?"""
    p = func.parent(n)
    if p is None:
        return False
    k = p.get('k')
    c = p.get('c', [])
    if k in ('Bin', 'CAssign') and (k == 'CAssign' or p.get('op') == '=') and c and c[0] is n:
        return True
    if k == 'Call' and p.get('opc') in ('=', '+=', '-=') and c and c[0] is n:
        return True
    if k == 'Un' and p.get('op') in ('++', '--'):
        return True
    if k == 'Call' and p.get('mc') and c and c[0] is n and p.get('fn') in MUTATING_CONTAINER_METHODS:
        return True
    return False


MUTATING_CONTAINER_METHODS = {'push_back', 'emplace_back', 'insert', 'emplace', 'erase', 'clear', 'pop_back', 'resize',
                              'assign', 'swap', 'reset', 'append', 'operator=', 'operator[]', 'try_emplace', 'remove'}


def call_sites(F, callee_suffix):
    """All (func, call node) whose resolved callee is `callee_suffix` (qualified name or suffix)."""
    out = []
    for f in F.funcs.values():
        for n in f.walk():
            if n.get('k') == 'Call' and is_call(n, callee_suffix):
                out.append((f, n))
    return out


def nth_arg(call, i):
    """i-th explicit argument (skips the object of member calls)."""
    c = call.get('c', [])
    if call.get('mc') and not call.get('opc'):
        c = c[1:]
    return c[i] if i < len(c) else None


def receiver(call):
    c = call.get('c', [])
    if call.get('mc') and c:
        return c[0]
    return None


def unwrap_defarg(n):
    while n is not None and n.get('k') == 'DefArg' and n.get('c'):
        n = n['c'][0]
    return n


def enclosing_conditions(func, node):
    """Syntactic control context: [(condition node, 'then'|'else'|'body'|'cond-true'|'cond-false', stmt)] from the
    innermost enclosing If/While/For/Cond outwards (stops at a lambda boundary)."""
    out = []
    child = node
    for a in func.ancestors(node):
        k = a.get('k')
        if k == 'Lambda':
            break
        if k == 'If':
            cond = role(a, 'cond')
            if role(a, 'then') is child:
                out.append((cond, 'then', a))
            elif role(a, 'else') is child:
                out.append((cond, 'else', a))
        elif k in ('While', 'For'):
            cond = role(a, 'cond')
            if role(a, 'body') is child and cond is not None:
                out.append((cond, 'then', a))
        elif k == 'Cond':
            c = a.get('c', [])
            if len(c) == 3:
                if c[1] is child:
                    out.append((c[0], 'then', a))
                elif c[2] is child:
                    out.append((c[0], 'else', a))
        elif k == 'Bin' and a.get('op') in ('&&', '||'):
            c = a.get('c', [])
            if len(c) == 2 and c[1] is child:
                out.append((c[0], 'then' if a['op'] == '&&' else 'else', a))
        child = a
    return out


def enum_consts_in(n):
    return [x['n'] for x in walk(n) if x.get('k') == 'Ref' and x.get('dk') == 'enumc']


def case_labels_reaching(func, node):
    """Case/Default label nodes of the innermost enclosing switch from which `node` is reached (fall-through
    aware, via the CFG).  Returns (switch node, [label nodes])."""
    sw = None
    for a in func.ancestors(node):
        if a.get('k') == 'Lambda':
            break
        if a.get('k') == 'Switch':
            sw = a
            break
    if sw is None:
        return None, []
    cfg = func.cfg_for(node)
    pos = cfg.block_of(node)
    if pos is None:
        return sw, []
    inside = {x['i'] for x in walk(sw)}
    dispatch = None
    for b in cfg.blocks.values():
        if b.get('term') == sw['i']:
            dispatch = b['id']
    labels = []
    for b in cfg.blocks.values():
        lab = b.get('label')
        if not lab or lab not in inside:
            continue
        ln = func.nodes.get(lab)
        # only labels that belong to this switch (not to a nested one)
        owner = None
        for a in func.ancestors(ln):
            if a.get('k') == 'Switch':
                owner = a
                break
        if owner is not sw:
            continue
        seen = set()
        st = [b['id']]
        hit = False
        while st:
            x = st.pop()
            if x in seen or x == dispatch:
                continue
            seen.add(x)
            if x == pos[0]:
                hit = True
                break
            st.extend(cfg.succ[x])
        if hit:
            # nested `case A: case B:` share one block: collect the whole chain
            n = ln
            while n is not None and n.get('k') in ('Case', 'Default'):
                labels.append(n)
                sub = role(n, 'sub')
                n = sub if sub is not None and sub.get('k') in ('Case', 'Default') else None
    return sw, labels


def label_enum(label):
    if label.get('k') == 'Default':
        return 'default'
    v = role(label, 'val')
    e = enum_consts_in(v) if v is not None else []
    return e[0] if e else render(v)


def paths(cfg, limit=20000):
    """All acyclic entry->exit block paths of a (small) CFG."""
    out = []
    st = [(cfg.entry, (cfg.entry,))]
    while st:
        b, p = st.pop()
        if b == cfg.exit:
            out.append(p)
            if len(out) > limit:
                raise AnalysisBroken('too many paths in ' + cfg.func.short)
            continue
        for s in cfg.succ[b]:
            if s not in p:
                st.append((s, p + (s,)))
    return out


def derives_from(func, cond, call):
    """Does the branch condition `cond` test the result of `call` - directly, or through a local that is assigned
    from an expression containing the call?"""
    if cond is None:
        return False
    for x in walk(cond):
        if x is call:
            return True
    for x in walk(cond):
        if x.get('k') == 'Ref' and x.get('dk') == 'local':
            d = x['d']
            for v in func.walk():
                c = v.get('c', [])
                src = None
                if v.get('k') == 'Var' and v.get('d') == d and c:
                    src = c[0]
                elif v.get('k') in ('Bin', 'CAssign') and c and c[0].get('k') == 'Ref' and c[0].get('d') == d and len(c) > 1:
                    src = c[1]
                if src is not None and any(y is call for y in walk(src)):
                    return True
    return False


def issues_depending_on(func, call, adders=('addIssue', 'addMathmlIssue')):
    """addIssue-like calls that are control dependent on the outcome of `call`."""
    out = []
    for a in func.walk():
        if a.get('k') == 'Call' and a.get('fn') in adders:
            for c, t in (ff(func).conds_at(a) or []):
                if derives_from(func, c, call):
                    out.append(a)
                    break
    return out


def indexed_child_accesses(f):
    """Inside `for (i ...; i < owner->kindCount(); ...)`: calls `owner->kind...(args)` (other than kindCount).  Yields
    (loop, call, index variable, uses_index?) - an accessor that does not use the loop's own index reads some other child."""
    import re as _re
    for loop in f.walk():
        if loop.get('k') != 'For':
            continue
        cond_t = render(role(loop, 'cond')) or ''
        m = _re.match(r'(\w+) < (.+)->(\w+)Count\(\)$', cond_t)
        if m:
            ivar, owner, kind = m.group(1), m.group(2), m.group(3)
        else:
            # the object's own children: `i < unitCount()` / `i < pFunc()->mUnitDefinitions.size()`
            m0 = _re.match(r'(\w+) < (\w+)Count\(\)$', cond_t) or _re.match(r'(\w+) < (?:pFunc\(\)->)?m(\w+?)(?:Definition)?s\.size\(\)$', cond_t)
            if not m0:
                continue
            ivar, owner, kind = m0.group(1), None, m0.group(2)[0].lower() + m0.group(2)[1:]
        body = role(loop, 'body')
        if body is None:
            continue
        for c in walk(body):
            if c.get('k') == 'Call' and c.get('mc') and not c.get('opc') and ((owner is not None and render(receiver(c)) == owner) or (owner is None and is_this_like(receiver(c)))) and c.get('fn', '').lower().startswith(kind.lower()) and c.get('fn') != kind + 'Count':
                args = c['c'][1:]
                if not args:
                    continue
                # nested loops over the same collection (pairwise comparisons) may legitimately use the outer index as well
                ivars = {ivar}
                for anc in f.ancestors(loop):
                    if anc.get('k') == 'For':
                        m2 = _re.match(r'(\\w+) < (.+)->(\\w+)Count\\(\\)$', render(role(anc, 'cond')) or '')
                        if m2 and m2.group(2) == owner and m2.group(3) == kind:
                            ivars.add(m2.group(1))
                uses = any(r.get('k') == 'Ref' and r.get('n') in ivars for a in args for r in walk(a))
                yield loop, c, ivar, uses


def accumulating_flags(f):
    """bool locals that are initialised with a constant before a loop, assigned inside it and read after it (and do not control the
    loop).  Yields (var node, loop, assignment, monotone?) - monotone = assigned the constant that differs from the initial value,
    or a compound assignment, or a value that depends on the flag itself."""
    from faillog import _can_reach
    for v in f.walk():
        if v.get('k') != 'Var' or v.get('t') != 'bool' or not v.get('c'):
            continue
        init = v['c'][0].get('v') if v['c'][0].get('k') == 'Bool' else None
        d = v['d']
        for loop in f.walk():
            if loop.get('k') not in ('For', 'While', 'RangeFor', 'Do'):
                continue
            inside = {x['i'] for x in walk(loop)}
            if v['i'] in inside:
                continue
            asg = [x for x in walk(loop) if ((x.get('k') == 'Bin' and x.get('op') == '=') or x.get('k') == 'CAssign') and x['c'][0].get('k') == 'Ref' and x['c'][0].get('d') == d]
            if not asg:
                continue
            cfg = f.cfg()
            reads_after = [r for r in f.walk() if r.get('k') == 'Ref' and r.get('d') == d and r['i'] not in inside and f.parent(r) is not None
                           and not (f.parent(r).get('k') in ('Bin', 'CAssign') and f.parent(r)['c'][0] is r) and _can_reach(cfg, loop, r) and r.get('l', 0) > loop.get('l', 0)]
            cnd = role(loop, 'cond')
            in_cond = cnd is not None and any(r.get('k') == 'Ref' and r.get('d') == d for r in walk(cnd))
            if not reads_after or in_cond:
                continue
            for x in asg:
                rhs = x['c'][1]
                mono = (rhs.get('k') == 'Bool' and (init is None or rhs.get('v') != init)) or x.get('k') == 'CAssign' or any(r.get('k') == 'Ref' and r.get('d') == d for r in walk(rhs))
                if not mono:
                    # `found = test(); if (found) break;` / assignment directly followed by break or return: a search result, the first hit wins
                    p_ = f.parent(x)
                    sibs = p_.get('c', []) if p_ is not None else []
                    if x in sibs:
                        after = sibs[sibs.index(x) + 1:]
                        if after and (after[0].get('k') in ('Break', 'Return') or (after[0].get('k') == 'If' and any(r.get('k') == 'Ref' and r.get('d') == d for r in walk(role(after[0], 'cond') or {})) and any(y.get('k') in ('Break', 'Return') for y in walk(after[0])))):
                            mono = True
                # an assignment that is immediately followed by leaving the loop records a search result, not an accumulation
                yield v, loop, x, mono


def rule_accumulators(F, rep, rid, pred, floor, where_txt, consequence):
    """Shared rule: in the functions selected by pred, a bool gathered over a loop and consulted afterwards is only ever raised
    (or records a search result that ends the loop)."""
    from facts import AnalysisBroken
    rep.rule(rid, 'in %s a flag that is gathered over a loop and consulted afterwards is only ever raised inside the loop (or the loop stops at the first hit): a plain assignment `flag = <test of this element>` lets the LAST element decide; %s' % (where_txt, consequence))
    from facts import fixture_funcs
    fx = fixture_funcs('accum')
    if [m for v, l, x, m in accumulating_flags(fx['fixtureAccumBad'])] != [False] or [m for v, l, x, m in accumulating_flags(fx['fixtureAccumGood'])] != [True]:
        raise AnalysisBroken('%s: the detector does not separate the two fixture functions (sa/fixtures/src/accum.cpp)' % rid)
    n = 0
    for g in F.funcs.values():
        if not pred(g):
            continue
        for v, loop, x, mono in accumulating_flags(g):
            n += 1
            rep.check(mono, rid, '%s|%s' % (g.name, render(x)[:50]), g.where(x), '%s: `%s` inside the loop lets the last element decide `%s`, which is consulted after the loop' % (g.short, render(x)[:60], v['n']), 'only raised')
    # the number of such flags is not an anchor (a search loop rewritten with std::find has none): the fixture shows that the detector works
    rep.ok(rid, 'scan', None, '%d accumulating flags in %s (%d when the rule was written; fixture: 1 of 2 functions flagged, as expected)' % (n, where_txt, floor))


def _all_paths_pass(cfg, start, target, through_ids):
    """Every CFG path from AST node start to AST node target evaluates one of through_ids."""
    ps, pt = cfg.block_of(start), cfg.block_of(target)
    if ps is None or pt is None:
        return False
    through = set(through_ids)

    def hit(blk, a, b):
        return any(e in through for e in blk['el'][a:b])
    if ps[0] == pt[0] and ps[1] <= pt[1]:
        return hit(cfg.blocks[ps[0]], ps[1], pt[1])
    if hit(cfg.blocks[ps[0]], ps[1], None):
        return True
    seen = set()
    st = list(cfg.succ[ps[0]])
    while st:
        b = st.pop()
        if b in seen:
            continue
        seen.add(b)
        if b == pt[0]:
            if not hit(cfg.blocks[b], 0, pt[1]):
                return False
            continue
        if hit(cfg.blocks[b], 0, None):
            continue
        st.extend(cfg.succ[b])
    return True


def stale_loop_state(f):
    """Locals declared before a for / range-for loop that are used ONLY inside that loop, written in its body, and read in the body on some
    path that has not passed a write in the same iteration: the read sees what the previous iteration left behind (a per-iteration local
    hoisted out of the loop).  Yields (var node, loop, exposed reads)."""
    def is_write(r):
        p = f.parent(r)
        if p is None:
            return False
        c = p.get('c', [])
        return bool(c) and c[0] is r and ((p.get('k') == 'Bin' and p.get('op') == '=') or (p.get('k') == 'Call' and p.get('opc') == '='))
    loops = [l for l in f.walk() if l.get('k') in ('For', 'RangeFor') and f.enclosing_lambda(l) is None]
    if not loops:
        return
    cfg = f.cfg()
    if cfg is None:
        return
    for v in f.walk():
        if v.get('k') != 'Var' or f.enclosing_lambda(v) is not None:
            continue
        refs = None
        for L in loops:
            body = role(L, 'body')
            if body is None or L.get('l', 0) < v.get('l', 0):
                continue
            inside = {x['i'] for x in walk(L)}
            if v['i'] in inside:
                continue
            if refs is None:
                refs = [r for r in f.walk() if r.get('k') == 'Ref' and r.get('d') == v['d']]
            if not refs or any(r['i'] not in inside for r in refs):
                continue
            binside = {x['i'] for x in walk(body)}
            writes = [r for r in refs if is_write(r) and r['i'] in binside]
            reads = [r for r in refs if not is_write(r) and r['i'] in binside]
            # a container that is only ever appended to inside the loop (never assigned or cleared there) and used nowhere else: what one
            # iteration collected is still in it when the next one asks `empty()` / walks it
            t_ = (v.get('t') or '')
            if any(k_ in t_ for k_ in ('std::vector<', 'std::set<', 'std::map<', 'std::list<', 'std::deque<')):
                def _mcall(r, names):
                    p_ = f.parent(r)
                    return p_ is not None and p_.get('k') == 'Call' and p_.get('mc') and p_.get('c') and p_['c'][0] is r and p_.get('fn') in names
                clears = [r for r in refs if r['i'] in binside and _mcall(r, ('clear',))]
                appends = [r for r in refs if r['i'] in binside and _mcall(r, ('push_back', 'emplace_back', 'insert', 'emplace'))]
                if appends and not writes and not clears and len(reads) > len(appends):
                    # a "seen so far" list that is only asked whether it already holds an element (std::find / count over it, .count(x), .find(x)) is MEANT to
                    # remember across iterations; what must not carry over is a collection whose size / emptiness / elements decide something
                    def _membership(r):
                        p_ = f.parent(r)
                        while p_ is not None and p_.get('k') in ('Cast', 'Temp', 'Bind', 'Construct', 'Paren'):
                            p_ = f.parent(p_)
                        if p_ is not None and p_.get('k') == 'Call' and not p_.get('opc') and not (p_.get('mc') and p_.get('c') and p_['c'][0] is r):
                            return True      # handed to a function as a whole (e.g. "the names seen so far"): what that function does with it is its business
                        p_ = f.parent(r)
                        if p_ is not None and p_.get('k') == 'Call' and p_.get('mc') and p_.get('c') and p_['c'][0] is r:
                            if p_.get('fn') in ('count', 'find', 'contains'):
                                return True
                            if p_.get('fn') in ('begin', 'end', 'cbegin', 'cend'):
                                a_ = f.parent(p_)
                                while a_ is not None and a_.get('k') in ('Cast', 'Temp', 'Bind', 'Construct', 'Paren'):
                                    a_ = f.parent(a_)
                                if a_ is not None and a_.get('k') == 'Call' and (a_.get('callee') or '') in ('std::find', 'std::find_if', 'std::count', 'std::count_if', 'std::any_of', 'std::none_of'):
                                    return True
                                if a_ is not None and a_.get('k') in ('Bin', 'Call') and (a_.get('op') or a_.get('opc')) in ('==', '!='):
                                    return True      # `it != x.end()` of such a search
                        return False
                    deciding = [r for r in reads if r not in appends and not _membership(r)]
                    if deciding:
                        yield v, L, deciding
                    continue
                if clears:
                    writes = writes + clears
                    reads = [r for r in reads if r not in clears]
            if not writes or not reads:
                continue
            fs = body['c'][0] if body.get('k') == 'Compound' and body.get('c') else body
            wids = [f.parent(w)['i'] for w in writes]
            yield v, L, [r for r in reads if not _all_paths_pass(cfg, fs, r, wids)]
            # (for containers `clear()` counts as the write of the iteration)


def rule_loop_state(F, rep, rid, pred, where_txt):
    from facts import AnalysisBroken, fixture_funcs
    rep.rule(rid, 'in %s a local that lives across the iterations of a for loop but is used only inside it is written in every iteration before it is read there: otherwise an iteration works with what the previous one left behind '
                  '(the per-iteration search result of one required units is reused for all the following ones)' % where_txt)
    fx = fixture_funcs('loopstate')
    bad = [x for x in stale_loop_state(fx['fixtureLoopStateBad']) if x[2]]
    good = [x for x in stale_loop_state(fx['fixtureLoopStateGood']) if x[2]]
    if len(bad) != 1 or good:
        raise AnalysisBroken('%s: the detector does not separate the two fixture functions (sa/fixtures/src/loopstate.cpp)' % rid)
    n = 0
    for g in F.funcs.values():
        if not pred(g):
            continue
        for v, L, exposed in stale_loop_state(g):
            n += 1
            rep.check(not exposed, rid, '%s|%s' % (g.short.split('::')[-1], v['n']), g.where(v), '%s: `%s` is declared before the loop at line %s, used only inside it, and read at line(s) %s before it is assigned in that iteration: it still holds the value of the previous iteration'
                      % (g.short, v['n'], L.get('l'), sorted({r.get('l') for r in exposed})), 'assigned before it is read in each iteration')
    rep.ok(rid, 'scan', None, '%d loop-carried locals used only inside their loop in %s (fixture: 1 of 2 functions flagged, as expected)' % (n, where_txt))


RETURN_IN_LOOP_OK = {('buildMathIdMap', 'docs'): 'math that has no root node has no ids to collect either; the same input is reported by validateMath'}


def rule_visit_all(F, rep, rid, pred, floor, where_txt):
    """Shared rule: void functions that loop over a collection handle every element: a `return` inside the loop stops the whole visit
    (where the next element was meant: continue), unless it directly follows the report of an error (addIssue in the same block)."""
    from facts import AnalysisBroken
    rep.rule(rid, 'a void function of %s that loops over a collection handles every element: no `return` inside the loop (it would skip all remaining elements where `continue` skips one), except directly after an issue has been added in the same block' % where_txt)
    n = 0
    for g in F.funcs.values():
        if not pred(g) or g.j.get('ret') != 'void':
            continue
        loops = [l for l in g.walk() if l.get('k') in ('For', 'RangeFor') and g.enclosing_lambda(l) is None]
        n += len(loops)
        for r in g.walk():
            if r.get('k') != 'Return' or g.enclosing_lambda(r) is not None:
                continue
            lp = [a for a in g.ancestors(r) if a.get('k') in ('For', 'RangeFor')]
            if not lp:
                continue
            hdr = render(role(lp[0], 'range') or role(lp[0], 'cond') or {})
            key = '%s|return in loop over %s' % (g.short.split('::')[-1], hdr[:40])
            blk = g.parent(r)
            sibs = blk.get('c', []) if blk is not None else []
            before = sibs[:sibs.index(r)] if r in sibs else []
            reported = any(c.get('k') == 'Call' and c.get('fn') == 'addIssue' for b in before for c in walk(b))
            if reported:
                rep.ok(rid, key + '@%s' % sum(1 for x in g.walk() if x.get('k') == 'Return' and x.get('l', 0) < r.get('l', 0)), g.where(r), 'error exit after addIssue')
                continue
            ex = next((v for (fn, h), v in RETURN_IN_LOOP_OK.items() if fn == g.name and h in hdr), None)
            if ex:
                rep.exempt(rid, key, ex)
                continue
            rep.fail(rid, key, g.where(r), '%s returns from inside its loop over `%s`: the elements after the current one are never handled' % (g.short, hdr[:50]))
    rep.ok(rid, 'scan', None, '%d for loops in void functions of %s' % (n, where_txt))
    if n < floor:
        raise AnalysisBroken('%s: only %d for loops in void functions of %s (%d confirmed)' % (rid, n, where_txt, floor))


import re as _re_q
_QNAME = _re_q.compile(r'^[A-Za-z_][\w.-]*:[A-Za-z_][\w.-]*(=|$)')    # a prefixed XML name (cellml:units, xlink:href): the prefix is the document's choice


def markup_text_searches(f):
    """Calls that search a std::string for a literal that starts with '<' or is a namespace-prefixed name (markup looked for by text instead of
    through the XML API: the element/attribute prefix is chosen by the document, only the namespace it is bound to is fixed)."""
    out = []
    for c in f.walk():
        if c.get('k') == 'Call' and c.get('mc') and c.get('fn') in ('find', 'rfind', 'find_first_of', 'compare', 'starts_with') and 'basic_string' in (c.get('cls') or c.get('callee') or ''):
            for a in c.get('c', [])[1:]:
                for x in walk(a):
                    if x.get('k') == 'Str' and (str(x.get('v', '')).lstrip('"').startswith('<') or _QNAME.match(str(x.get('v', '')).lstrip('"'))):
                        out.append(c)
    return out


def rule_markup_search(F, rep, rid, pred, where_txt):
    from facts import AnalysisBroken, fixture_funcs
    rep.rule(rid, 'XML text kept in strings (the math of a component, reset values) is examined through the XML API in %s, never by searching the text for markup such as "<cn" or "cellml:units": a text search does not see elements and attributes written with another namespace prefix (<mml:cn ...>, cml:units), '
                  'so what is decided from it (which units a component needs, hence which imports are fetched) is wrong for such documents' % where_txt)
    fx = fixture_funcs('markupsearch')
    if len(markup_text_searches(fx['fixtureMarkupSearchBad'])) != 1 or len(markup_text_searches(fx['fixtureMarkupSearchBadQName'])) != 1 or markup_text_searches(fx['fixtureMarkupSearchGood']):
        raise AnalysisBroken('%s: the detector does not separate the two fixture functions (sa/fixtures/src/markupsearch.cpp)' % rid)
    n = 0
    for g in F.funcs.values():
        if not pred(g):
            continue
        n += 1
        for c in markup_text_searches(g):
            rep.fail(rid, '%s|%s' % (g.short.split('::')[-1], render(c)[:50]), g.where(c), '%s searches XML text for markup with `%s`' % (g.short, render(c)[:60]))
    rep.ok(rid, 'scan', None, 'no text search for markup in %d functions of %s (fixture: 1 of 2 functions flagged, as expected)' % (n, where_txt))


def rule_cursor_loops(F, rep, rid, pred, floor, where_txt):
    """Sibling cursors (`while (node != nullptr) { ...; node = node->next(); }`) are advanced only inside their loop."""
    from facts import AnalysisBroken
    rep.rule(rid, 'in %s a cursor over sibling XML nodes/attributes is advanced (x = x->next()) only inside the loop that walks the siblings: an advance in front of the loop treats the FIRST sibling specially '
                  '(e.g. steps over a leading relationship_ref), while the same kind of node further down the list is handled by the general case and rejected' % where_txt)
    n = 0
    for f in F.funcs.values():
        if not pred(f):
            continue
        for L in f.walk():
            if L.get('k') != 'While':
                continue
            curs = [x for x in walk(role(L, 'cond')) if x.get('k') == 'Ref' and x.get('dk') == 'local']
            if not curs:
                continue
            d = curs[0]['d']
            inside = {x['i'] for x in walk(L)}
            adv = [a for a in f.walk() if ((a.get('k') == 'Call' and a.get('opc') == '=') or (a.get('k') == 'Bin' and a.get('op') == '=')) and a['c'][0].get('k') == 'Ref' and a['c'][0].get('d') == d
                   and any(x.get('k') == 'Call' and x.get('fn') in ('next', 'nextSibling') and any(y.get('k') == 'Ref' and y.get('d') == d for y in walk(x)) for x in walk(a['c'][1]))]
            if not any(a['i'] in inside for a in adv):
                continue
            n += 1
            out = [a for a in adv if a['i'] not in inside and a.get('l', 0) < L.get('l', 0)]
            rep.check(not out, rid, '%s|%s@%d' % (f.short.split('::')[-1], curs[0]['n'], sum(1 for x in f.walk() if x.get('k') == 'While' and x.get('l', 0) < L.get('l', 0))), f.where(L),
                      '%s advances the cursor `%s` at line %s, before the loop that walks the siblings' % (f.short, curs[0]['n'], out[0].get('l') if out else ''), 'advanced inside the loop only')
    if n < floor:
        raise AnalysisBroken('%s: only %d sibling-cursor loops found in %s (%d confirmed)' % (rid, n, where_txt, floor))


def single_def(f, d):
    """Initialiser of a local that is defined exactly once (declaration with initialiser, never assigned again, not an out-argument
    taken by address), else None."""
    cache = f.__dict__.setdefault('_single_defs', {})
    if d in cache:
        return cache[d]
    inits = [v['c'][0] for v in f.walk() if v.get('k') == 'Var' and v.get('d') == d and v.get('c')]
    res = None
    if len(inits) == 1:
        writes = False
        for x in f.walk():
            c = x.get('c', [])
            if not c:
                continue
            if x.get('k') in ('Bin', 'CAssign') and c[0].get('k') == 'Ref' and c[0].get('d') == d and (x.get('k') == 'CAssign' or x.get('op') == '='):
                writes = True
            elif x.get('k') == 'Call' and x.get('opc') in ('=', '+=', '-=') and c[0].get('k') == 'Ref' and c[0].get('d') == d:
                writes = True
            elif x.get('k') == 'Un' and x.get('op') in ('++', '--', '&') and c[0].get('k') == 'Ref' and c[0].get('d') == d:
                writes = True
        if not writes:
            res = inits[0]
    cache[d] = res
    return res


def _expandable(t):
    t = t or ''
    return t.replace('const ', '') in ('bool', 'unsigned long', 'size_t', 'int', 'std::size_t', 'double') or t.startswith('const ')


def render_x(f, n, depth=0):
    """render() with named sub-expressions spelled out: a scalar/bool/size local that is defined once is replaced by (its initialiser)."""
    if n is None:
        return ''
    if n.get('k') == 'Ref' and n.get('dk') == 'local' and depth < 4 and _expandable(n.get('t')):
        i_ = single_def(f, n.get('d'))
        if i_ is not None:
            return render_x(f, i_, depth + 1)
    if not n.get('c') or n.get('k') in ('Lambda',):
        return render(n)
    # re-render with substituted children: rely on render for the shape by rendering a shallow copy whose Ref children are replaced by pseudo refs
    def sub(x, dp):
        if x.get('k') == 'Ref' and x.get('dk') == 'local' and dp < 4 and _expandable(x.get('t')):
            i2 = single_def(f, x.get('d'))
            if i2 is not None:
                return sub(i2, dp + 1)
        if not x.get('c'):
            return x
        y = dict(x)
        y['c'] = [sub(c, dp) for c in x['c']]
        return y
    return render(sub(n, depth))


def _loop_of_var(f):
    """decl id of a range-for loop variable -> the RangeFor node (cached on the Func)."""
    m = getattr(f, '_loopvars', None)
    if m is None:
        m = {}
        for n in f.walk():
            if n.get('k') == 'RangeFor' and n.get('c') and n['c'][0].get('k') == 'Var':
                m[n['c'][0].get('d')] = n
        f._loopvars = m
    return m


def render_prov(f, n):
    """render() in which a name introduced for an ELEMENT is replaced by where the element comes from, so that the text does not depend on how
    a loop names its element: the variable of a range-for over C renders as `C[*]`, a structured binding of it as `C[*].first` / `C[*].second`
    (`.#k` for tuple-likes), a structured binding of a local declaration as `<initialiser>.first`."""
    return _render_prov(f, n, False)


def render_canon(f, n):
    """render_prov() that in addition spells out every local that is defined once (whatever its type) and writes parameters by position
    (`$0`, `$1`, ...): the text then names only fields, functions and literals, so it survives the renaming, introduction or removal of locals
    and parameters."""
    return _render_prov(f, n, True)


def param_tokens(f):
    """Name-independent tokens for the parameters of f: `$<type>#k` = the k-th parameter of that (sanitised) type.  Unlike a plain position this
    survives the insertion or removal of a parameter of another type (a bool flag replaced by two wrappers)."""
    import re as _re
    out, seen = {}, {}
    for p_ in f.params:
        t = _re.sub(r'[^A-Za-z0-9]', '', (p_.get('t') or '').replace('const ', '').replace('libcellml::', '').replace('std::', ''))[:28]
        k = seen.get(t, 0)
        seen[t] = k + 1
        out[p_.get('d')] = '$%s#%d' % (t, k)
    return out


def _render_prov(f, n, canon):
    lv = _loop_of_var(f)
    pix = param_tokens(f) if canon else {}
    depth = [0]

    def sub(x):
        if canon and x.get('k') == 'Ref' and x.get('dk') == 'parm' and x.get('d') in pix:
            return {'k': 'Ref', 'dk': 'prov', 'n': pix[x['d']]}
        if canon and x.get('k') == 'Ref' and x.get('dk') == 'local' and x.get('d') not in lv and depth[0] < 6:
            i_ = single_def(f, x.get('d'))
            if i_ is not None and not (i_.get('k') == 'Construct' and not i_.get('c')):   # a default-constructed local is filled later: keep its name
                depth[0] += 1
                try:
                    return {'k': 'Ref', 'dk': 'prov', 'n': render(sub(i_))}
                finally:
                    depth[0] -= 1
        if x.get('k') == 'Ref' and x.get('dk') == 'local' and x.get('d') in lv:
            return {'k': 'Ref', 'dk': 'prov', 'n': render(sub(role(lv[x['d']], 'range'))) + '[*]'}
        if x.get('k') == 'Ref' and x.get('dk') == 'binding' and x.get('bof') is not None:
            mem = x.get('bm') or ('#%d' % x.get('bix', 0))
            if x['bof'] in lv and 'std::pair<' in (lv[x['bof']]['c'][0].get('t') or '')[:16] and x.get('bix', 0) < 2:
                mem = ('first', 'second')[x.get('bix', 0)]
            if x['bof'] in lv:
                return {'k': 'Ref', 'dk': 'prov', 'n': render(sub(role(lv[x['bof']], 'range'))) + '[*].' + mem}
            i_ = single_def(f, x['bof'])
            if i_ is not None:
                return {'k': 'Ref', 'dk': 'prov', 'n': render(sub(i_)) + '.' + mem}
        if not x.get('c'):
            return x
        y = dict(x)
        y['c'] = [sub(c) for c in x['c']]
        return y
    return render(sub(n))


def rendered_conds_x(f, node):
    """Branch facts at node with named sub-conditions spelled out (see render_x); the decomposition into conjuncts is redone on the
    expanded condition, so `if (!ok)` with `ok = a == 0` yields the fact (a == 0, False)."""
    cs = ff(f).conds_at(node)
    if cs is None:
        return None
    out = set()
    for c, t in cs:
        out.add((render(c), t))
        out.add((render_x(f, c), t))
        if c.get('k') == 'Ref' and c.get('dk') == 'local':
            i_ = single_def(f, c.get('d'))
            if i_ is not None:
                tmp = []
                _decompose(i_, t, tmp)
                for c2, t2 in tmp:
                    out.add((render_x(f, c2), t2))
        if c.get('k') == 'Un' and c.get('op') == '!' and c['c'][0].get('k') == 'Ref' and c['c'][0].get('dk') == 'local':
            i_ = single_def(f, c['c'][0].get('d'))
            if i_ is not None:
                tmp = []
                _decompose(i_, not t, tmp)
                for c2, t2 in tmp:
                    out.add((render_x(f, c2), t2))
    return out


def _mentions(t, a):
    return (t[0] == 'atom' and t[1] == a) or (t[0] != 'atom' and any(_mentions(x, a) for x in t[1:]))


def implied_literals(f, site, atom_of):
    """Propositional closure of the branch facts at `site`: atom_of(node) names the atoms (None = not an atom: the node is then an
    opaque free variable of its own).  Returns {atom: bool} for every atom whose value is the same in all assignments that satisfy the
    facts (so `!(a && b)` together with `a` yields b = False, whatever way the if/else chain was written)."""
    import itertools
    cs = ff(f).conds_at(site)
    if cs is None:
        return None
    atoms = []

    def build(n):
        while n.get('k') in ('Paren', 'Cast', 'Construct') and len(n.get('c', [])) == 1:
            n = n['c'][0]
        if n.get('k') == 'Ref' and n.get('dk') == 'local':
            i_ = single_def(f, n.get('d'))
            a0 = atom_of(n)
            if a0 is None and i_ is not None and (n.get('t') or '').replace('const ', '') == 'bool':
                return build(i_)
        a = atom_of(n)
        if a is not None:
            if a not in atoms:
                atoms.append(a)
            return ('atom', a)
        if n.get('k') == 'Bin' and n.get('op') in ('&&', '||'):
            return (n['op'], build(n['c'][0]), build(n['c'][1]))
        if n.get('k') == 'Un' and n.get('op') == '!':
            return ('!', build(n['c'][0]))
        key = 'opaque:%s' % n.get('i')
        if key not in atoms:
            atoms.append(key)
        return ('atom', key)

    def ev(t, env):
        if t[0] == 'atom':
            return env[t[1]]
        if t[0] == '!':
            return not ev(t[1], env)
        a, b = ev(t[1], env), ev(t[2], env)
        return (a and b) if t[0] == '&&' else (a or b)
    def named(t):
        return (t[0] == 'atom' and not t[1].startswith('opaque:')) or (t[0] != 'atom' and any(named(x) for x in t[1:]))
    # facts that mention none of the named atoms say nothing about them (and, merged by text across program points, may contradict each other)
    forms = [(fm, t) for fm, t in ((build(c), t) for c, t in cs) if named(fm)]
    atoms = [a for a in atoms if not a.startswith('opaque:') or any(_mentions(fm, a) for fm, t in forms)]
    if len(atoms) > 14:
        return {}
    sat = []
    for vals in itertools.product((False, True), repeat=len(atoms)):
        env = dict(zip(atoms, vals))
        if all(ev(fm, env) == t for fm, t in forms):
            sat.append(env)
    out = {}
    for a in atoms:
        if a.startswith('opaque:') or not sat:
            continue
        vs = {e[a] for e in sat}
        if len(vs) == 1:
            out[a] = vs.pop()
    return out


def element_loops(f, cont_text):
    """Loops that visit every element of the container rendered as cont_text, whatever their form: range-for over it, an index loop
    `for (i = 0; i < C.size(); ++i)`, an iterator loop from C.begin() to C.end(), or std::for_each over [C.begin(), C.end()).
    Yields (loop node, a node of the loop header that is in the CFG)."""
    ct = cont_text.replace(' ', '')
    for l in f.walk():
        k = l.get('k')
        if k == 'RangeFor' and render(role(l, 'range')).replace(' ', '') == ct:
            yield l, role(l, 'range')
        elif k == 'For':
            cnd = role(l, 'cond')
            t = render(cnd).replace(' ', '') if cnd is not None else ''
            inc = role(l, 'inc')
            up = inc is not None and ((inc.get('k') == 'Un' and inc.get('op') == '++') or (inc.get('k') == 'Call' and inc.get('opc') == '++'))
            if up and (('<' + ct + '.size()') in t or ('!=' + ct + '.end()') in t or ('!=' + ct + '.cend()') in t):
                # no early exit
                if not any(x.get('k') in ('Break', 'Return') for x in walk(role(l, 'body') or {})):
                    yield l, cnd
        elif k == 'Call' and l.get('callee') in ('std::for_each',) and len(l.get('c', [])) >= 3:
            a = [render(x).replace(' ', '') for x in l['c'][:2]]
            if a[0] in (ct + '.begin()', ct + '.cbegin()') and a[1] in (ct + '.end()', ct + '.cend()'):
                yield l, l


def pairing_with_helpers(F, funcs, is_start, is_end):
    """Start/end pairing (install/uninstall, acquire/release) that survives the extraction of file-local helpers.
    is_start(call) / is_end(call) return a key or None.  A function whose start event is not closed on every path of its own body is a
    START HELPER for that key when it has callers and all of them are in `funcs` (its obligation moves to the callers: their call of the
    helper is a start event); a function that has an end event and no start event for the key is an END HELPER (a call of it is an end event).
    Returns a list of (func, start node, key, ok, how) for every start event whose obligation is decided in func."""
    from issues import must_pass
    fl = [f for f in funcs if f.cfg() is not None]
    keyset = {f.key for f in fl}
    start_h, end_h = {}, {}

    def events(f):
        st, en = [], []
        for c in f.walk():
            if c.get('k') != 'Call':
                continue
            k1, k2 = is_start(c), is_end(c)
            if k1 is not None:
                st.append((c, k1))
            if k2 is not None:
                en.append((c, k2))
            for ck in F.callee_keys(c):
                for k_ in start_h.get(ck, ()):
                    st.append((c, k_))
                for k_ in end_h.get(ck, ()):
                    en.append((c, k_))
        return st, en
    changed = True
    rounds = 0
    while changed and rounds < 4:
        changed = False
        rounds += 1
        for f in fl:
            st, en = events(f)
            callers = F.callers.get(f.key, set())
            local = bool(callers) and all(c in keyset for c in callers)
            for c, k_ in st:
                ends = [e['i'] for e, k2 in en if k2 == k_ and e is not c]
                closed = bool(ends) and must_pass(f.cfg_for(c), c, ends)
                if not closed and local and k_ not in start_h.get(f.key, set()):
                    start_h.setdefault(f.key, set()).add(k_)
                    changed = True
            for e, k_ in en:
                if not any(k1 == k_ for c, k1 in st) and k_ not in end_h.get(f.key, set()) and local:
                    end_h.setdefault(f.key, set()).add(k_)
                    changed = True
    out = []
    for f in fl:
        st, en = events(f)
        for c, k_ in st:
            if k_ in start_h.get(f.key, set()):
                out.append((f, c, k_, True, 'helper: the obligation is discharged by its callers'))
                continue
            ends = [e['i'] for e, k2 in en if k2 == k_ and e is not c]
            ok = bool(ends) and must_pass(f.cfg_for(c), c, ends)
            out.append((f, c, k_, ok, '%d closing call(s)' % len(ends)))
    return out


def delegate(F, f):
    """If f only forwards to a helper defined in the same file (`return helper(args...);`), returns (helper, {param name: text of the argument});
    the caller can then judge the helper's body with the arguments spelled out.  Else None."""
    body = next((n for n in f.walk() if n.get('k') == 'Compound'), None)
    if body is None or len(body.get('c', [])) != 1 or body['c'][0].get('k') != 'Return' or not body['c'][0].get('c'):
        return None
    e = body['c'][0]['c'][0]
    while e.get('k') in ('Construct', 'Cast', 'Temp', 'Paren') and len(e.get('c', [])) == 1:
        e = e['c'][0]
    if e.get('k') != 'Call' or e.get('opc'):
        return None
    for ck in F.callee_keys(e):
        g = F.funcs.get(ck)
        if g is not None and g.file == f.file and g is not f:
            args = e['c'][1:] if e.get('mc') else e['c']
            if len(args) == len(g.params):
                return g, {p['n']: render(a) for p, a in zip(g.params, args)}
    return None


def subst_names(text, sub):
    import re
    for k, v in sub.items():
        text = re.sub(r'(?<![\w>.])%s\b' % re.escape(k), lambda m_: v, text)
    return text


def predicate_body(F, call):
    """For a call of a small predicate helper (a function with a body that is a single `return <expr>;`): (helper, expr, {param: arg text})."""
    for ck in F.callee_keys(call):
        g = F.funcs.get(ck)
        if g is None:
            continue
        body = next((n for n in g.walk() if n.get('k') == 'Compound'), None)
        if body is None or len(body.get('c', [])) != 1 or body['c'][0].get('k') != 'Return' or not body['c'][0].get('c'):
            continue
        args = call['c'][1:] if call.get('mc') else call.get('c', [])
        if len(args) != len(g.params):
            continue
        sub = {p['n']: render(a) for p, a in zip(g.params, args)}
        if call.get('mc') and call.get('c'):
            sub['this'] = render(call['c'][0])
        return g, body['c'][0]['c'][0], sub
    return None


def facts_x(F, f, node):
    """Branch facts at node as (text, truth), with (a) named sub-conditions spelled out (rendered_conds_x) and (b) calls of small predicate
    helpers replaced by the conjuncts/disjuncts of their body, parameters replaced by the arguments: `if (!canDo(a, b)) return;` with
    `canDo(x, y) { return x != nullptr && y->ok(); }` yields (a != nullptr, True) and (b->ok(), True) after the if."""
    out = set(rendered_conds_x(f, node) or set())
    for c, t in (ff(f).conds_at(node) or []):
        cc, tt = c, t
        while cc.get('k') in ('Paren', 'Cast') and len(cc.get('c', [])) == 1:
            cc = cc['c'][0]
        if cc.get('k') == 'Call' and not cc.get('opc'):
            pb = predicate_body(F, cc)
            if pb is not None:
                g, e, sub = pb
                tmp = []
                _decompose(e, tt, tmp)
                for c2, t2 in tmp:
                    out.add((subst_names(render(c2), sub), t2))
    # normalise `x != nullptr` / `x == nullptr` pairs so that either spelling can be asked for
    extra = set()
    for c, t in out:
        if c.endswith(' != nullptr'):
            extra.add((c[:-len(' != nullptr')] + ' == nullptr', not t))
        elif c.endswith(' == nullptr'):
            extra.add((c[:-len(' == nullptr')] + ' != nullptr', not t))
    return out | extra


def element_visits(f, suffix):
    """Where every element of the collection `<...>suffix` is visited: yields (element declaration id, body node, site node) for a range-for
    over it (or over a local copy of it) and for std::for_each over [begin, end) of it with a lambda (element = the lambda's parameter)."""
    def is_coll(e):
        t = render(e).replace(' ', '')
        if t.endswith(suffix.replace(' ', '')):
            return True
        for x in walk(e):
            if x.get('k') == 'Ref' and x.get('dk') == 'local':
                i_ = single_def(f, x.get('d'))
                if i_ is not None and render(i_).replace(' ', '').endswith(suffix.replace(' ', '')):
                    return True
        return False
    for l in f.walk():
        if l.get('k') == 'RangeFor' and is_coll(role(l, 'range')):
            yield l['c'][0].get('d'), role(l, 'body'), l
        elif l.get('k') == 'Call' and l.get('callee') == 'std::for_each' and len(l.get('c', [])) >= 3 and is_coll(l['c'][0]):
            lam = next((x for x in walk(l['c'][2]) if x.get('k') == 'Lambda'), None)
            if lam is not None and lam.get('params'):
                yield lam['params'][0].get('d'), lam, l


def unsorted_uniques(f):
    """Calls of std::unique over a range that was not sorted (std::sort / std::stable_sort over the same container) on every path before."""
    out = []
    cfg = f.cfg()
    for c in f.walk():
        if c.get('k') == 'Call' and c.get('callee') == 'std::unique' and c.get('c'):
            rng = render(c['c'][0])
            sorts = [s for s in f.walk() if s.get('k') == 'Call' and s.get('callee') in ('std::sort', 'std::stable_sort') and s.get('c') and render(s['c'][0]) == rng]
            if not any(cfg is not None and cfg.node_dominates(s, c) for s in sorts):
                out.append(c)
    return out


def unsorted_searches(f):
    """Calls of std::lower_bound / upper_bound / binary_search / equal_range over a range of a sequence container that was not sorted
    (std::sort / std::stable_sort over the same range start) on every path before."""
    out = []
    cfg = f.cfg()
    for c in f.walk():
        if c.get('k') == 'Call' and c.get('callee') in ('std::lower_bound', 'std::upper_bound', 'std::binary_search', 'std::equal_range') and c.get('c'):
            rng = render(c['c'][0])
            sorts = [s for s in f.walk() if s.get('k') == 'Call' and s.get('callee') in ('std::sort', 'std::stable_sort') and s.get('c') and render(s['c'][0]) == rng]
            if not any(cfg is not None and cfg.node_dominates(s, c) for s in sorts):
                out.append(c)
    return out


def rule_sorted_search(F, rep, rid, pred, where_txt):
    from facts import AnalysisBroken, fixture_funcs
    rep.rule(rid, 'a binary search (std::lower_bound / upper_bound / binary_search / equal_range over a vector range) in %s is preceded by a sort of the same range: over a list kept in insertion order it misses elements, '
                  'and which ones depends on the order of the other entries (a duplicated name is reported or not depending on its neighbours)' % where_txt)
    fx = fixture_funcs('uniq')
    if len(unsorted_searches(fx['fixtureSearchBad'])) != 1 or unsorted_searches(fx['fixtureSearchGood']):
        raise AnalysisBroken('%s: the detector does not separate the two fixture functions (sa/fixtures/src/uniq.cpp)' % rid)
    n = 0
    for g in F.funcs.values():
        if not pred(g):
            continue
        n += 1
        for c in unsorted_searches(g):
            rep.fail(rid, '%s|%s' % (g.short.split('::')[-1], render(c)[:50]), g.where(c), '%s searches `%s` by bisection although the range is not sorted there' % (g.short, render(c)[:60]))
    rep.ok(rid, 'scan', None, 'no binary search over an unsorted range in %d functions of %s (fixture: 1 of 2 functions flagged, as expected)' % (n, where_txt))


def rule_unique_sorted(F, rep, rid, pred, where_txt):
    from facts import AnalysisBroken, fixture_funcs
    rep.rule(rid, 'std::unique only removes ADJACENT duplicates: in %s every call of it is preceded by a sort of the same range (otherwise an element that recurs later in the list - an import source shared by non-adjacent entities - is kept twice)' % where_txt)
    fx = fixture_funcs('uniq')
    if len(unsorted_uniques(fx['fixtureUniqueBad'])) != 1 or unsorted_uniques(fx['fixtureUniqueGood']):
        raise AnalysisBroken('%s: the detector does not separate the two fixture functions (sa/fixtures/src/uniq.cpp)' % rid)
    n = 0
    for g in F.funcs.values():
        if not pred(g):
            continue
        n += 1
        for c in unsorted_uniques(g):
            rep.fail(rid, '%s|%s' % (g.short.split('::')[-1], render(c)[:50]), g.where(c), '%s removes duplicates with `%s` from a range that is not sorted' % (g.short, render(c)[:60]))
    rep.ok(rid, 'scan', None, 'no std::unique over an unsorted range in %d functions of %s (fixture: 1 of 2 functions flagged, as expected)' % (n, where_txt))


def take_while_loops(f):
    """for loops whose condition conjoins the range bound with a property of the CURRENT element (it->x(), v[i].x): the loop stops at the
    first element that lacks the property instead of skipping it."""
    out = []
    for L in f.walk():
        if L.get('k') != 'For' or f.enclosing_lambda(L) is not None:
            continue
        cnd, init = role(L, 'cond'), role(L, 'init')
        if cnd is None or init is None:
            continue
        iv = [x for x in walk(init) if x.get('k') == 'Var']
        if not iv:
            continue
        d = iv[0]['d']

        def conj(e):
            while e.get('k') in ('Paren',) and len(e.get('c', [])) == 1:
                e = e['c'][0]
            if e.get('k') == 'Bin' and e.get('op') == '&&':
                return conj(e['c'][0]) + conj(e['c'][1])
            return [e]
        cs = conj(cnd)
        if len(cs) < 2:
            continue
        for c in cs:
            def on_var(y):
                # the loop variable is what is dereferenced / used as the index
                if y.get('k') != 'Call' or not y.get('c'):
                    return False
                if y.get('opc') in ('->', '*') or (y.get('mc') and y.get('fn') in ('lock', 'expired')):
                    r_ = y['c'][0]
                    while r_.get('k') in ('Cast', 'Paren') and len(r_.get('c', [])) == 1:
                        r_ = r_['c'][0]
                    return r_.get('k') == 'Ref' and r_.get('d') == d
                if y.get('opc') == '[]' or (y.get('mc') and y.get('fn') == 'at'):
                    return any(x.get('k') == 'Ref' and x.get('d') == d for a in y['c'][1:] for x in walk(a))
                return False
            if any(on_var(y) for y in walk(c)):
                out.append((L, c))
    return out


def rule_take_while(F, rep, rid, pred, where_txt):
    from facts import AnalysisBroken, fixture_funcs
    rep.rule(rid, 'in %s no for loop conjoins its range bound with a property of the current element (`it != end && !it->expired()`): such a loop STOPS at the first element that lacks the property, where the elements after it were meant to be handled too' % where_txt)
    fx = fixture_funcs('takewhile')
    if len(take_while_loops(fx['fixtureTakeWhileBad'])) != 1 or take_while_loops(fx['fixtureTakeWhileGood']):
        raise AnalysisBroken('%s: the detector does not separate the two fixture functions (sa/fixtures/src/takewhile.cpp)' % rid)
    n = 0
    for g in F.funcs.values():
        if not pred(g):
            continue
        n += 1
        for L, c in take_while_loops(g):
            rep.fail(rid, '%s|%s' % (g.short.split('::')[-1], render(c)[:40]), g.where(L), '%s: the loop condition `%s` ends the loop at the first element for which `%s` fails' % (g.short, render(role(L, 'cond'))[:70], render(c)[:40]))
    rep.ok(rid, 'scan', None, 'no take-while loop in %d functions of %s (fixture: 1 of 2 functions flagged, as expected)' % (n, where_txt))


def lost_values(f, is_interesting, self_overwrite=False):
    """Assignments `x = E` (x a local; is_interesting(E)) whose value can be overwritten by another assignment of x before it was read on
    some path (the value read from the model is lost).  With self_overwrite, the assignment itself reached again round a loop before any read
    counts too (the value of one iteration is replaced by that of the next: only the last element survives).
    Returns [(assignment node, overwriting node)]."""
    cfg = f.cfg()
    if cfg is None:
        return []
    out = []
    asg = []
    for a in f.walk():
        c = a.get('c', [])
        if ((a.get('k') == 'Call' and a.get('opc') == '=') or (a.get('k') == 'Bin' and a.get('op') == '=')) and c and c[0].get('k') == 'Ref' and c[0].get('dk') == 'local' and f.enclosing_lambda(a) is None:
            asg.append((a, c[0]['d'], c[1]))
        elif a.get('k') == 'Var' and c and f.enclosing_lambda(a) is None:
            asg.append((a, a['d'], c[0]))
    for a, d, rhs in asg:
        if not is_interesting(rhs):
            continue
        pos = cfg.block_of(a)
        if pos is None:
            continue

        def scan(blk, start):
            for e in blk['el'][start:]:
                x = f.nodes.get(e)
                if x is a and self_overwrite:
                    return 'write', x
                if x is None or x is a:
                    continue
                if x.get('k') in ('Bin', 'Call') and (x.get('op') == '=' or x.get('opc') == '=') and x.get('c') and x['c'][0].get('k') == 'Ref' and x['c'][0].get('d') == d:
                    # the right-hand side is evaluated first: a read there counts
                    if any(y.get('k') == 'Ref' and y.get('d') == d for y in walk(x['c'][1])):
                        return 'read', x
                    return 'write', x
                if x.get('k') == 'Ref' and x.get('d') == d:
                    p_ = f.parent(x)
                    if p_ is not None and ((p_.get('k') == 'Bin' and p_.get('op') == '=') or (p_.get('k') == 'Call' and p_.get('opc') == '=')) and p_['c'][0] is x:
                        continue
                    return 'read', x
            return None, None
        r, x = scan(cfg.blocks[pos[0]], pos[1] + 1)
        if r == 'write':
            out.append((a, x))
            continue
        if r == 'read':
            continue
        seen = set()
        st = list(cfg.succ[pos[0]])
        hit = None
        while st and hit is None:
            b = st.pop()
            if b in seen:
                continue
            seen.add(b)
            r, x = scan(cfg.blocks[b], 0)
            if r == 'write':
                hit = x
            elif r is None:
                st.extend(cfg.succ[b])
        if hit is not None:
            out.append((a, hit))
    return out


def address_orderings(f):
    """Ordering comparisons (<, >, <=, >=) whose operands are pointers or smart pointers: their result depends on allocation addresses."""
    def ptr_t(t):
        t = (t or '').replace('const ', '').strip()
        return t.startswith('std::shared_ptr<') or t.startswith('std::weak_ptr<') or t.endswith('*')
    out = []
    for b in f.walk():
        op = b.get('op') or b.get('opc')
        if b.get('k') in ('Bin', 'Call') and op in ('<', '>', '<=', '>=') and len(b.get('c', [])) == 2:
            if all(ptr_t(x.get('t') or x.get('rt')) for x in b['c']):
                out.append(b)
    return out


def rule_address_order(F, rep, rid, pred, where_txt):
    from facts import AnalysisBroken, fixture_funcs
    rep.rule(rid, 'no decision in %s orders two objects by their addresses (p < q on pointers or shared_ptrs): which of two variables comes "first" would depend on the allocation history of the process, '
                  'so the same model could give different issue texts or results from one run (or one construction order) to the next' % where_txt)
    fx = fixture_funcs('addrorder')
    if len(address_orderings(fx['fixtureAddrOrderBad'])) != 1 or address_orderings(fx['fixtureAddrOrderGood']):
        raise AnalysisBroken('%s: the detector does not separate the two fixture functions (sa/fixtures/src/addrorder.cpp)' % rid)
    n = 0
    for g in F.funcs.values():
        if not pred(g):
            continue
        n += 1
        for b in address_orderings(g):
            rep.fail(rid, '%s|%s' % (g.short.split('::')[-1], render(b)[:40]), g.where(b), '%s orders two objects by address: `%s`' % (g.short, render(b)[:60]))
    rep.ok(rid, 'scan', None, 'no ordering of objects by address in %d functions of %s (fixture: 1 of 2 functions flagged, as expected)' % (n, where_txt))


def regex_unbounded(pattern):
    """Unescaped quantifiers of an ECMAScript regular expression that allow an unbounded (or large) number of repetitions: `*`, `+`, `{n,}`,
    `{n,m}` with m > 32.  Characters inside a class [...] and escaped characters are not quantifiers."""
    out = []
    i, n = 0, len(pattern)
    in_class = False
    while i < n:
        ch = pattern[i]
        if ch == '\\':
            i += 2
            continue
        if in_class:
            if ch == ']':
                in_class = False
            i += 1
            continue
        if ch == '[':
            in_class = True
            i += 1
            if i < n and pattern[i] == '^':
                i += 1
            if i < n and pattern[i] == ']':
                i += 1
            continue
        if ch in '*+':
            out.append(ch)
        elif ch == '{':
            j = pattern.find('}', i)
            body = pattern[i + 1:j] if j > 0 else ''
            parts = body.split(',')
            if len(parts) == 2 and (parts[1].strip() == '' or (parts[1].strip().isdigit() and int(parts[1]) > 32)):
                out.append('{' + body + '}')
            elif len(parts) == 1 and parts[0].strip().isdigit() and int(parts[0]) > 32:
                out.append('{' + body + '}')
        i += 1
    return out


def regex_sites(f):
    """std::regex objects constructed from a literal in f and the regex_match/search/replace calls that use them:
    [(Var node, pattern, [call nodes])]; a regex built from a non-literal yields pattern None."""
    out = []
    for v in f.walk():
        if v.get('k') == 'Var' and 'basic_regex' in (v.get('t') or '') and v.get('c'):
            lit = next((x for x in walk_x(f, v['c'][0]) if x.get('k') == 'Str'), None)     # also a pattern held in a named constant
            uses = [c for c in f.walk() if c.get('k') == 'Call' and (c.get('callee') or '').startswith(('std::regex_match', 'std::regex_search', 'std::regex_replace'))
                    and any(r.get('k') == 'Ref' and r.get('d') == v.get('d') for r in walk(c))]
            out.append((v, lit.get('v') if lit is not None else None, uses))
    # temporaries: std::regex_match(s, std::regex("..."))
    for c in f.walk():
        if c.get('k') == 'Call' and (c.get('callee') or '').startswith(('std::regex_match', 'std::regex_search', 'std::regex_replace')):
            for a in c.get('c', []):
                if a.get('k') != 'Ref':
                    for x in walk(a):
                        if x.get('k') == 'Construct' and x.get('cls') == 'std::basic_regex':
                            lit = next((y for y in walk(x) if y.get('k') == 'Str'), None)
                            out.append((x, lit.get('v') if lit is not None else None, [c]))
    return out


def rule_regex_depth(F, rep, rid, pred, exempt, floor, where_txt):
    from facts import AnalysisBroken, fixture_funcs
    rep.rule(rid, 'a std::regex that %s applies to text derived from its input has no unbounded repetition (*, +, {n,}): libstdc++ matches by recursive backtracking, one stack frame per repetition, so a few tens of '
                  'thousands of characters (a long digit string in a 64 KiB document) exhaust the stack inside regex_match/regex_search/regex_replace' % where_txt)
    fx = fixture_funcs('regexrep')
    bad = [(p_, regex_unbounded(p_)) for v, p_, u in regex_sites(fx['fixtureRegexBad'])]
    good = [(p_, regex_unbounded(p_)) for v, p_, u in regex_sites(fx['fixtureRegexGood'])]
    if len(bad) != 1 or not bad[0][1] or len(good) != 2 or any(q for p_, q in good):
        raise AnalysisBroken('%s: the detector does not separate the fixture functions (sa/fixtures/src/regexrep.cpp): %s %s' % (rid, bad, good))
    n = 0
    for g in F.funcs.values():
        if not pred(g):
            continue
        for v, pat, uses in regex_sites(g):
            n += 1
            key = '%s|%s' % (g.short.split('::')[-1], (pat if pat is not None else '<not a literal>')[:40])
            if (g.name, pat) in exempt:
                rep.exempt(rid, key, exempt[(g.name, pat)])
                continue
            if pat is None:
                rep.fail(rid, key, g.where(v), '%s builds a std::regex from a non-literal pattern: its repetition depth cannot be bounded' % g.short)
                continue
            q = regex_unbounded(pat)
            rep.check(not q, rid, key, g.where(v), '%s matches input text against `%s`, which repeats without bound (%s): the libstdc++ matcher recurses once per repetition and overflows the stack on a long run of matching characters' % (g.short, pat, ' '.join(q)),
                      'no unbounded repetition; used by %d call(s)' % len(uses))
    if n < floor:
        raise AnalysisBroken('%s: only %d std::regex objects found in %s (%d confirmed)' % (rid, n, where_txt, floor))


def use_facts(F, f, node):
    """Facts (text, truth) under which the VALUE of `node` is used.  Normally the branch facts at the node; when the node is an argument of a
    call to a local lambda or to a helper function with a body, the facts at the places where the callee uses that parameter outside a
    condition (e.g. appends it to the output), parameters replaced by the arguments, plus the facts at the call site:
        add(mModel->needX(), mProfile->xString())  with  add = [](bool need, const std::string &s) { if (need && !s.empty()) out += s; }
    yields (mModel->needX(), True) for the argument mProfile->xString()."""
    base = set(facts_x(F, f, node) or set())
    call = None
    child = node
    for a in f.ancestors(node):
        if a.get('k') in ('Cast', 'Temp', 'Bind', 'Paren', 'Construct') and len(a.get('c', [])) == 1:
            child = a
            continue
        if a.get('k') == 'Call':
            call = a
        break
    if call is None:
        return base
    params, body, owner, args = None, None, None, None
    c0 = call.get('c', [])
    if call.get('opc') == '()' and c0 and c0[0].get('k') == 'Ref' and c0[0].get('dk') == 'local':
        lam = single_def(f, c0[0].get('d'))
        while lam is not None and lam.get('k') in ('Cast', 'Temp', 'Bind', 'Paren', 'Construct') and len(lam.get('c', [])) == 1:
            lam = lam['c'][0]
        if lam is not None and lam.get('k') == 'Lambda':
            params, body, owner, args = lam.get('params', []), lam, f, c0[1:]
    elif not call.get('opc'):
        for ck in F.callee_keys(call):
            g = F.funcs.get(ck)
            if g is not None and g is not f and '/src/' in g.file and len(list(g.walk())) < 400:
                params, body, owner, args = g.params, g.body, g, (c0[1:] if call.get('mc') else c0)
                break
    if params is None or len(args) != len(params) or body is None:
        return base
    try:
        j = next(i for i, a in enumerate(args) if a is child or any(x is node for x in walk(a)))
    except StopIteration:
        return base
    sub = {p_['n']: render(a) for p_, a in zip(params, args) if p_.get('n')}
    uses = []
    for r in walk(body):
        if r.get('k') == 'Ref' and r.get('d') == params[j].get('d'):
            in_cond = False
            ch = r
            for a in owner.ancestors(r):
                if a.get('k') in ('If', 'While', 'For', 'Cond') and role(a, 'cond') is ch:
                    in_cond = True
                    break
                if a.get('k') == 'Bin' and a.get('op') in ('&&', '||'):
                    in_cond = True
                    break
                if a is body:
                    break
                ch = a
            if not in_cond:
                uses.append(r)
    if not uses:
        return base
    inner = None
    for r in uses:
        fx = {(subst_names(t, sub), tr) for t, tr in (facts_x(F, owner, r) or set())}
        inner = fx if inner is None else (inner & fx)
    return base | (inner or set())


def arm_disagreements(f):
    """Pairs of calls (one in each arm of the same if/else) to the same method on the same PARAMETER of f (the entity being filled in) that
    pass different sets of collected values (locals that are assigned inside a loop of f): [(if node, call a, call b, names only in a, names only in b)].
    Also returns the number of pairs compared."""
    loop_assigned = set()
    for L in f.walk():
        if L.get('k') in ('While', 'For', 'RangeFor', 'Do'):
            for a in walk(L):
                c = a.get('c', [])
                if ((a.get('k') == 'Call' and a.get('opc') == '=') or (a.get('k') == 'Bin' and a.get('op') == '=')) and c and c[0].get('k') == 'Ref' and c[0].get('dk') == 'local':
                    if any(y.get('k') == 'Ref' and y.get('d') == c[0]['d'] for y in walk(c[1])):
                        continue     # a cursor (x = x->next()), not a collected value
                    loop_assigned.add(c[0]['d'])
    out, n = [], 0

    def base(r):
        while r is not None and r.get('k') == 'Call' and r.get('opc') in ('->', '*') and r.get('c'):
            r = r['c'][0]
        while r is not None and r.get('k') in ('Cast', 'Paren') and len(r.get('c', [])) == 1:
            r = r['c'][0]
        return r

    def calls(arm):
        # the statements of the arm itself (not what is nested in further tests inside it)
        tops = arm.get('c', []) if arm.get('k') == 'Compound' else [arm]
        tops = [t_ for t_ in tops if t_.get('k') not in ('If', 'While', 'For', 'RangeFor', 'Do', 'Switch')]
        return [x for t_ in tops for x in walk(t_) if x.get('k') == 'Call' and x.get('mc') and not x.get('opc') and x.get('fn') and base(x['c'][0]) is not None and base(x['c'][0]).get('k') == 'Ref' and base(x['c'][0]).get('dk') == 'parm']
    for i_ in f.walk():
        if i_.get('k') != 'If' or f.enclosing_lambda(i_) is not None:
            continue
        th, el = role(i_, 'then'), role(i_, 'else')
        if th is None or el is None or el.get('k') == 'If':
            continue      # an else-if chain distinguishes cases (which attribute this is), it is not one decision with two arms
        for a in calls(th):
            for b in calls(el):
                if a.get('fn') != b.get('fn') or base(a['c'][0]).get('d') != base(b['c'][0]).get('d'):
                    continue
                n += 1
                la = {x['n'] for x in walk(a) if x.get('k') == 'Ref' and x.get('d') in loop_assigned}
                lb = {x['n'] for x in walk(b) if x.get('k') == 'Ref' and x.get('d') in loop_assigned}
                if la != lb:
                    out.append((i_, a, b, sorted(la - lb), sorted(lb - la)))
    return out, n


def rule_arm_agreement(F, rep, rid, pred, where_txt):
    from facts import AnalysisBroken, fixture_funcs
    rep.rule(rid, 'in %s, where both arms of a test (document version, mode) end by calling the same method of the entity being loaded, the two calls hand over the same collected values (locals filled in the attribute loop): '
                  'an arm that leaves one out (the id, say) loses that attribute for the documents that take this arm only' % where_txt)
    fx = fixture_funcs('armagree')
    bad, nb = arm_disagreements(fx['fixtureArmsBad'])
    good, ng = arm_disagreements(fx['fixtureArmsGood'])
    if len(bad) != 1 or bad[0][4] != ['id'] or good or ng < 1:
        raise AnalysisBroken('%s: the detector does not separate the two fixture functions (sa/fixtures/src/armagree.cpp): %s / %s' % (rid, [(x[3], x[4]) for x in bad], good))
    n = 0
    for g in F.funcs.values():
        if not pred(g):
            continue
        dis, k = arm_disagreements(g)
        n += k
        for i_, a, b, only_a, only_b in dis:
            rep.fail(rid, '%s|%s' % (g.short.split('::')[-1], render(a)[:50]), g.where(a), '%s: under `%s` the entity receives `%s`, otherwise `%s`: %s passed in one arm only' % (
                g.short, render(role(i_, 'cond'))[:40], render(a)[:70], render(b)[:70], ', '.join(only_a + only_b)))
    rep.ok(rid, 'scan', None, '%d pairs of sibling calls compared in %s (fixture: 1 of 2 functions flagged, as expected)' % (n, where_txt))


def walk_x(f, e, depth=0):
    """walk(e) that also descends into the initialiser of every local that is defined once (named sub-expressions): the nodes that make up
    the VALUE of e, however many locals it was spread over."""
    for x in walk(e):
        yield x
        if x.get('k') == 'Ref' and x.get('dk') in ('local', 'slocal') and depth < 5:
            i_ = single_def(f, x.get('d'))
            if i_ is not None:
                for y in walk_x(f, i_, depth + 1):
                    yield y


def value_of(f, e, depth=0):
    """e with parentheses/casts stripped and, when it is a local that is defined once, replaced by its initialiser (repeatedly)."""
    while e is not None and depth < 6:
        if e.get('k') in ('Paren', 'Cast', 'Temp', 'Bind') and len(e.get('c', [])) == 1:
            e = e['c'][0]
            continue
        if e.get('k') == 'Ref' and e.get('dk') in ('local', 'slocal'):
            i_ = single_def(f, e.get('d'))
            if i_ is not None:
                e = i_
                depth += 1
                continue
        break
    return e


def walk_pred(F, e):
    """walk(e) that also descends into the bodies of the functions NAMED in e (a predicate handed to an <algorithm> call by name instead of as a lambda)."""
    for x in walk(e):
        yield x
        if x.get('k') == 'Ref' and x.get('dk') == 'func' and x.get('ck') in F.funcs:
            g = F.funcs[x['ck']]
            if len(list(g.walk())) < 120:
                for y in g.walk():
                    yield y



# ----------------------------------------------------------------------------- sentinel answers used as keys
def sentinel_accessors(funcs):
    """Functions `std::string f(size_t index)` that answer an index out of range with the empty string (a literal "" returned under a condition
    on the index): {callee key: Func}."""
    out = {}
    for f in funcs:
        if len(f.params) != 1 or 'unsigned long' not in (f.params[0].get('t') or '') or 'basic_string' not in (f.j.get('ret') or ''):
            continue
        pd = f.params[0].get('d')
        for r in f.walk():
            if r.get('k') != 'Return' or not r.get('c'):
                continue
            v = r['c'][0]
            while v.get('k') in ('Construct', 'Temp', 'Bind', 'Cast', 'Paren') and len(v.get('c', [])) == 1:
                v = v['c'][0]
            empty = (v.get('k') == 'Str' and v.get('v') in ('', '""')) or (v.get('k') == 'Construct' and not v.get('c') and 'basic_string' in (v.get('t') or ''))
            if not empty:
                continue
            conds = [cn for cn, br, st in enclosing_conditions(f, r)]
            if any(x.get('k') == 'Ref' and x.get('d') == pd for cn in conds for x in walk(cn)) or not conds:
                out[f.key] = f
    return out


def _index_known_in_range(f, call, idx):
    t = render(idx)
    for cn, tr in (ff(f).conds_at(call) or []):
        if cn.get('k') == 'Bin' and cn.get('op') in ('<', '>=', '>', '<=') and len(cn.get('c', [])) == 2:
            l, r = render(cn['c'][0]), render(cn['c'][1])
            if (l == t and ((cn['op'] == '<' and tr) or (cn['op'] == '>=' and not tr))) or (r == t and ((cn['op'] == '>' and tr) or (cn['op'] == '<=' and not tr))):
                return True
    if idx.get('k') == 'Ref' or (idx.get('k') in ('Cast',) and idx.get('c')):
        d = next((x.get('d') for x in walk(idx) if x.get('k') == 'Ref'), None)
        for L in f.ancestors(call):
            if L.get('k') == 'For' and role(L, 'cond') is not None and any(v.get('k') == 'Var' and v.get('d') == d for v in walk(role(L, 'init') or {})):
                c_ = role(L, 'cond')
                return any(b.get('k') == 'Bin' and b.get('op') in ('<', '!=') and any(x.get('k') == 'Ref' and x.get('d') == d for x in walk(b['c'][0])) for b in walk(c_))
    return False


def sentinel_key_uses(f, sent_keys):
    """Calls in f that hand the answer of a sentinel accessor (directly, or through a local defined by it) to another function as an argument
    while the index is not known to be in range: [(user call, accessor call)]."""
    def user_of(n):
        ch, par = n, f.parent(n)
        while par is not None and par.get('k') in ('Paren', 'Cast', 'Temp', 'Bind', 'Construct') and len(par.get('c', [])) == 1:
            ch, par = par, f.parent(par)
        return ch, par
    out = []
    for c in f.walk():
        if c.get('k') != 'Call' or c.get('ck') not in sent_keys:
            continue
        idx = nth_arg(c, 0)
        if idx is None or _index_known_in_range(f, c, idx):
            continue
        ch, par = user_of(c)
        flows = []
        if par is not None and par.get('k') == 'Call' and not par.get('opc') and not (par.get('mc') and par['c'][0] is ch):
            flows.append(par)
        if par is not None and par.get('k') == 'Var':
            for r in f.walk():
                if r.get('k') == 'Ref' and r.get('d') == par.get('d'):
                    ch2, par2 = user_of(r)
                    if par2 is not None and par2.get('k') == 'Call' and not par2.get('opc') and not (par2.get('mc') and par2['c'][0] is ch2):
                        flows.append(par2)
        for u in flows:
            if (u.get('callee') or '').startswith('std::') and u.get('fn') not in ('find', 'count', 'at', 'erase', 'emplace', 'insert'):
                continue
            out.append((u, c))
    return out


def rule_sentinel_keys(F, rep, rid, floor=2):
    from facts import AnalysisBroken, fixture_funcs
    rep.rule(rid, 'an accessor that answers an index out of range with a sentinel (`std::string f(size_t)` returning "") never feeds a lookup: its answer is handed to another function only where the index is known to be in range '
                  '(a dominating bound test or a bounded loop) - "" is itself an admissible key (Importer::addModel accepts it), so `library(key(index))` returns the model registered under "" for every out-of-range index instead of null')
    fx = fixture_funcs('sentinel')
    fk = set(sentinel_accessors(fx.values()))
    got = {n: len(sentinel_key_uses(g, fk)) for n, g in fx.items()}
    want = {'fixtureSentinelBad': 1, 'fixtureSentinelBadLocal': 1, 'fixtureSentinelGood': 0, 'fixtureSentinelLoop': 0, 'fixtureSentinelTested': 0}
    if len(fk) != 1 or any(got.get(n) != v for n, v in want.items()):
        raise AnalysisBroken('%s: the detector does not separate the fixture functions (sa/fixtures/src/sentinel.cpp): %s' % (rid, got))
    lib = [g for g in F.funcs.values() if '/src/' in g.file]
    sk = sentinel_accessors(lib)
    if len(sk) < floor:
        raise AnalysisBroken('%s: %d sentinel accessors found (%d confirmed: Importer::key, Units::unitId)' % (rid, len(sk), floor))
    n = 0
    for g in lib:
        for u, c in sentinel_key_uses(g, set(sk)):
            n += 1
            rep.fail(rid, '%s|%s' % (g.short, render(u)[:50]), g.where(u), '%s hands `%s` (which is "" for an index out of range) to `%s` without knowing the index in range: the entry whose key really is "" is found' % (g.short, render(c)[:40], u.get('fn')))
    rep.ok(rid, 'scan', None, 'answers of %d sentinel accessors (%s) are not used as keys outside a bound (fixture: 2 of 5 functions flagged, as expected)' % (len(sk), ', '.join(sorted(f_.short for f_ in sk.values()))))


def whole_sequence_compares(g):
    """`==` / `!=` whose operands are sequences (std::vector/list/deque) or hold one (a map or pair of them): order-sensitive comparisons."""
    out = []
    for c in g.walk():
        if c.get('k') == 'Call' and c.get('opc') in ('==', '!=') and len(c.get('c', [])) == 2:
            ts = [(a.get('t') or a.get('rt') or '') for a in c['c']]
            if any(x in t_ for t_ in ts for x in ('std::vector<', 'std::list<', 'std::deque<')) and not any('iterator' in t_ for t_ in ts):
                out.append(c)
    return out


def last_seen_dedup(f):
    """Loops that decide "this group was handled already" by comparing a property of the current element with a scalar local that the guarded
    branch then sets to that same property (a memory of the LAST group only): [(loop, assignment, comparison)]."""
    out = []
    for L in f.walk():
        if L.get('k') not in ('RangeFor', 'For', 'While', 'Do'):
            continue
        body = role(L, 'body')
        if body is None:
            continue
        for a in walk(body):
            tgt = rhs = None
            if a.get('k') == 'Bin' and a.get('op') == '=':
                tgt, rhs = a['c'][0], a['c'][1]
            elif a.get('k') == 'Call' and a.get('opc') == '=' and len(a.get('c', [])) == 2:
                tgt, rhs = a['c'][0], a['c'][1]
            if tgt is None or tgt.get('k') != 'Ref' or tgt.get('dk') != 'local':
                continue
            decl = [v for v in f.walk() if v.get('k') == 'Var' and v.get('d') == tgt['d']]
            if not decl or any(x is decl[0] for x in walk(L)):
                continue
            rt = render(rhs)
            if not any(x.get('k') == 'Call' for x in walk(rhs)) and not any(x.get('k') == 'Member' for x in walk(rhs)):
                continue        # a plain counter / flag, not a property of the element
            for cn, br, st in enclosing_conditions(f, a):
                if not any(x is st for x in walk(body)):
                    continue
                for b in walk(cn):
                    if (b.get('k') == 'Bin' and b.get('op') in ('!=', '==')) or (b.get('k') == 'Call' and b.get('opc') in ('!=', '==')):
                        if len(b.get('c', [])) == 2 and {render(b['c'][0]), render(b['c'][1])} == {rt, render(tgt)}:
                            out.append((L, a, b))
    return out


def rule_last_seen(F, rep, rid, pred, where_txt):
    from facts import fixture_funcs
    rep.rule(rid, 'a loop in %s that handles each GROUP of elements once (the equations of one NLA system, ...) remembers every group it has handled, not only the last one: a guard `group(element) != lastHandled` with `lastHandled = group(element)` in the guarded branch '
                  'is right only if the members of a group are contiguous, which document order does not promise (A1 B1 A2 B2: both systems are emitted twice and the generated C does not compile)' % where_txt)
    fx = fixture_funcs('loopstate')
    if len(last_seen_dedup(fx['fixtureLastSeenBad'])) != 1 or last_seen_dedup(fx['fixtureLastSeenGood']):
        raise AnalysisBroken('%s: the detector does not separate the two fixture functions (sa/fixtures/src/loopstate.cpp)' % rid)
    n = 0
    for g in F.funcs.values():
        if not pred(g):
            continue
        n += 1
        for L, a, b in last_seen_dedup(g):
            rep.fail(rid, '%s|%s' % (g.short.split('::')[-1], render(b)[:50]), g.where(b), '%s decides whether a group was handled already by `%s` and then sets `%s`: only the last group is remembered' % (g.short, render(b)[:60], render(a)[:50]))
    if n < 20:
        raise AnalysisBroken('%s: only %d functions in scope' % (rid, n))
    rep.ok(rid, 'scan', None, 'no last-group-only memory in the loops of %d functions of %s (fixture: 1 of 2 functions flagged, as expected)' % (n, where_txt))


def _assigned_locals(n):
    out = set()
    for a in walk(n or {}):
        if a.get('k') == 'Bin' and a.get('op') == '=' and a['c'][0].get('k') == 'Ref' and a['c'][0].get('dk') == 'local':
            out.add(a['c'][0]['d'])
        elif a.get('k') == 'Call' and a.get('opc') == '=' and len(a.get('c', [])) == 2 and a['c'][0].get('k') == 'Ref' and a['c'][0].get('dk') == 'local':
            out.add(a['c'][0]['d'])
    return out


def fallback_guards(f):
    """`loop { v = ...; }  if (<something is empty / null>) { v = fallback; }` as adjacent statements: [(if-statement, guard mentions v?, v names)].
    The guard of such a fallback has to test the RESULT v: testing the collection that was searched lets an entry that yields an empty result
    suppress the fallback."""
    out = []
    for C in f.walk():
        if C.get('k') != 'Compound':
            continue
        items = C.get('c', [])
        for i, S in enumerate(items):
            if i == 0 or S.get('k') != 'If' or role(S, 'else') is not None or items[i - 1].get('k') not in ('RangeFor', 'For', 'While'):
                continue
            common = _assigned_locals(role(S, 'then')) & _assigned_locals(role(items[i - 1], 'body'))
            if not common:
                continue
            cnd = role(S, 'cond')
            # an emptiness / null / not-found test, not negated
            emptiness = False
            for x in walk(cnd):
                if x.get('k') == 'Call' and x.get('fn') == 'empty' and not any(u.get('k') == 'Un' and u.get('op') == '!' and any(y is x for y in walk(u)) for u in walk(cnd)):
                    emptiness = True
                if x.get('k') != 'Un' and null_test(x) is not None and null_test(x)[1] is False and not any(u.get('k') == 'Un' and u.get('op') == '!' and any(y is x for y in walk(u)) for u in walk(cnd)):
                    emptiness = True
                if x.get('k') == 'Un' and x.get('op') == '!' and x['c'][0].get('k') in ('Ref', 'Cast') and 'bool' in (x['c'][0].get('t') or 'bool'):
                    emptiness = True
            if not emptiness:
                continue
            mentions = any(x.get('k') == 'Ref' and x.get('d') in common for x in walk(cnd))
            names = sorted({x.get('n') for x in walk(role(S, 'then')) if x.get('k') == 'Ref' and x.get('d') in common})
            out.append((S, mentions, names))
    return out


def rule_fallback_guards(F, rep, rid, pred, where_txt, floor=1):
    from facts import fixture_funcs
    rep.rule(rid, 'in %s, a fallback that follows a search loop and fills in the same result (`for (...) v = ...;  if (<empty>) v = fallback;`) is guarded by the result being empty, not by the searched collection being empty: '
                  'a collection entry that yields an empty result (an indirectly equivalent pair that never had a connection id) must still fall back (else the id recorded on the pair itself is lost and printed connections lose their id)' % where_txt)
    fx = fixture_funcs('loopstate')
    b, g = fallback_guards(fx['fixtureFallbackBad']), fallback_guards(fx['fixtureFallbackGood'])
    if len(b) != 1 or b[0][1] or len(g) != 1 or not g[0][1]:
        raise AnalysisBroken('%s: the detector does not separate the two fixture functions (sa/fixtures/src/loopstate.cpp)' % rid)
    n = 0
    for g_ in F.funcs.values():
        if not pred(g_):
            continue
        for S, mentions, names in fallback_guards(g_):
            n += 1
            rep.check(mentions, rid, '%s|%s' % (g_.short, '+'.join(names)), g_.where(S),
                      '%s: the fallback for `%s` after the loop is guarded by `%s`, which does not look at `%s`: when the loop ran but produced an empty result the fallback is skipped' % (g_.short, '+'.join(names), render(role(S, 'cond'))[:50], '+'.join(names)),
                      'guard tests the result')
    if n < floor:
        raise AnalysisBroken('%s: %d fallbacks after a search loop found (%d confirmed)' % (rid, n, floor))
