"""E10: issue-site dataflow.  Every `Issue::IssueImpl::create()` result is tracked inside its function:
description, level, reference rule, and whether it reaches `addIssue` (or is returned) on every path."""
from facts import walk, render, is_call, strip_arrow, AnalysisBroken
from engines import ff, nth_arg

CREATE = 'libcellml::Issue::IssueImpl::create'


def must_pass(cfg, start, through_ids):
    """True iff every CFG path from AST node `start` to the exit evaluates one of the nodes in through_ids."""
    pos = cfg.block_of(start)
    if pos is None:
        return False
    b0, i0 = pos
    through = set(through_ids)

    def hits(blk, frm):
        for e in blk['el'][frm:]:
            if e in through:
                return True
        return False
    if hits(cfg.blocks[b0], i0 + 1):
        return True
    seen = set()
    st = list(cfg.succ[b0])
    while st:
        b = st.pop()
        if b in seen:
            continue
        seen.add(b)
        if b == cfg.exit:
            return False
        if hits(cfg.blocks[b], 0):
            continue
        st.extend(cfg.succ[b])
    return True


class IssueSite:
    def __init__(self, func, var, create):
        self.func = func
        self.var = var
        self.create = create
        self.desc = None
        self.level = None       # enumerator name or None (default ERROR)
        self.level_nodes = []
        self.rules = []
        self.rule_nodes = []
        self.add_nodes = []
        self.return_nodes = []
        self.item_setters = []
        self.other_uses = []

    @property
    def where(self):
        return self.func.where(self.create)

    @property
    def effective_level(self):
        return self.level or 'ERROR'


def _tail_call(func, ref):
    """For a use `issue->mPimpl->f(args)` return the call node f and its name."""
    n = ref
    chain = []
    while True:
        p = func.parent(n)
        if p is None:
            return None, chain
        k = p.get('k')
        if k == 'Call' and p.get('opc') in ('->', '*'):
            n = p
            continue
        if k == 'Member' and p.get('c') and p['c'][0] is n:
            chain.append(p['n'])
            n = p
            continue
        if k == 'Call' and p.get('mc') and p.get('c') and p['c'][0] is n:
            return p, chain
        return None, chain


def sites(F):
    out = []
    for f in F.funcs.values():
        for v in f.walk():
            if v.get('k') != 'Var' or not v.get('c'):
                continue
            init = v['c'][0]
            if not (init.get('k') == 'Call' and init.get('callee') == CREATE):
                continue
            s = IssueSite(f, v, init)
            d = v['d']
            for r in f.walk():
                if r.get('k') != 'Ref' or r.get('d') != d:
                    continue
                call, chain = _tail_call(f, r)
                if call is not None and chain and chain[0] == 'mPimpl':
                    fn = call.get('fn')
                    if fn == 'setDescription':
                        s.desc = nth_arg(call, 0)
                    elif fn == 'setLevel':
                        a = nth_arg(call, 0)
                        s.level_nodes.append(call)
                        if a is not None and a.get('k') == 'Ref' and a.get('dk') == 'enumc':
                            s.level = a['n']
                        else:
                            s.level = '?'
                    elif fn == 'setReferenceRule':
                        a = nth_arg(call, 0)
                        s.rule_nodes.append(a)
                        if a is not None and a.get('k') == 'Ref' and a.get('dk') == 'enumc':
                            s.rules.append(a['n'])
                        else:
                            s.rules.append('?' + render(a))
                    elif len(chain) >= 2 and chain[1] == 'mItem':
                        s.item_setters.append(call.get('fn'))
                    else:
                        s.other_uses.append(render(call))
                    continue
                p = f.parent(r)
                # argument of an addIssue-like call
                q = p
                while q is not None and q.get('k') == 'Construct' and len(q.get('c', [])) == 1:
                    q = f.parent(q)
                if q is not None and q.get('k') == 'Call' and q.get('fn') in ('addIssue',):
                    s.add_nodes.append(q)
                    continue
                if q is not None and q.get('k') == 'Return':
                    s.return_nodes.append(q)
                    continue
                s.other_uses.append(render(p) if p else '?')
            out.append(s)
    return out


def reaches_logger(site):
    """created => added-or-returned on every path to the function exit."""
    cfg = site.func.cfg_for(site.create)
    if cfg is None:
        return False
    ids = [n['i'] for n in site.add_nodes + site.return_nodes]
    return must_pass(cfg, site.create, ids)


def has_nonempty_literal(expr):
    if expr is None:
        return False
    for n in walk(expr):
        if n.get('k') == 'Str' and len(n.get('v', '').strip()) > 0:
            return True
    return False
