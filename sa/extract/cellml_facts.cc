// cellml_facts: libTooling fact extractor for the /verif static-analysis checks.
//
// Emits, for one translation unit, a JSON file with
//   - records (fields, bases, methods, overrides), enums, namespace/class scope variables with
//     their initialisers,
//   - every function defined under one of the --root directories: signature, a compact AST of its
//     body (implicit wrapper nodes made transparent) and clang's CFG (all sub-expressions added)
//     whose elements refer to the AST node ids.
// No verdict is computed here; all rules live in the Python engines.
//
// Build:  clang++ $(llvm-config-14 --cxxflags) -fno-rtti cellml_facts.cc -o cellml_facts \
//            /usr/lib/llvm-14/lib/libclang-cpp.so.14 /usr/lib/llvm-14/lib/libLLVM-14.so

#include "clang/AST/ASTConsumer.h"
#include "clang/AST/ASTContext.h"
#include "clang/AST/DeclCXX.h"
#include "clang/AST/DeclTemplate.h"
#include "clang/AST/ExprCXX.h"
#include "clang/AST/RecursiveASTVisitor.h"
#include "clang/AST/StmtCXX.h"
#include "clang/Analysis/CFG.h"
#include "clang/Frontend/CompilerInstance.h"
#include "clang/Frontend/FrontendAction.h"
#include "clang/Tooling/CommonOptionsParser.h"
#include "clang/Tooling/Tooling.h"
#include "llvm/Support/CommandLine.h"
#include "llvm/Support/JSON.h"
#include "llvm/Support/raw_ostream.h"

#include <map>
#include <set>
#include <string>
#include <vector>

using namespace clang;
using namespace clang::tooling;
namespace json = llvm::json;

static llvm::cl::OptionCategory Cat("cellml_facts options");
static llvm::cl::list<std::string> Roots("root", llvm::cl::desc("source root prefix (repeatable)"), llvm::cl::cat(Cat));
static llvm::cl::opt<std::string> OutFile("out", llvm::cl::desc("output JSON file"), llvm::cl::Required, llvm::cl::cat(Cat));

namespace {

struct Dumper
{
    ASTContext &Ctx;
    SourceManager &SM;
    PrintingPolicy PP;
    json::OStream &J;
    std::map<const Stmt *, int> StmtIds;
    std::map<const Decl *, int> DeclIds;
    int NextStmt = 1;
    int DefArgDepth = 0;

    Dumper(ASTContext &C, json::OStream &Out)
        : Ctx(C)
        , SM(C.getSourceManager())
        , PP(C.getLangOpts())
        , J(Out)
    {
        PP.SuppressTagKeyword = true;
        PP.Bool = true;
        PP.SuppressUnwrittenScope = true;
        PP.FullyQualifiedName = true;
    }

    // ---------------------------------------------------------------- helpers

    std::string fileOf(SourceLocation L) const
    {
        if (L.isInvalid()) {
            return "";
        }
        L = SM.getExpansionLoc(L);
        PresumedLoc P = SM.getPresumedLoc(L);
        if (P.isInvalid()) {
            return "";
        }
        return P.getFilename();
    }

    unsigned lineOf(SourceLocation L) const
    {
        if (L.isInvalid()) {
            return 0;
        }
        return SM.getExpansionLineNumber(L);
    }

    bool inRoots(SourceLocation L) const
    {
        std::string F = fileOf(L);
        if (F.empty()) {
            return false;
        }
        for (const auto &R : Roots) {
            if (F.compare(0, R.size(), R) == 0) {
                return true;
            }
        }
        return false;
    }

    std::string typeStr(QualType T) const
    {
        if (T.isNull()) {
            return "";
        }
        return T.getCanonicalType().getAsString(PP);
    }

    // Qualified name without template arguments.
    std::string qname(const NamedDecl *D) const
    {
        if (D == nullptr) {
            return "";
        }
        std::vector<std::string> Parts;
        if (D->getDeclName().isIdentifier()) {
            Parts.push_back(D->getName().str());
        } else {
            Parts.push_back(D->getDeclName().getAsString());
        }
        const DeclContext *DC = D->getDeclContext();
        while (DC != nullptr && !DC->isTranslationUnit()) {
            if (const auto *NS = dyn_cast<NamespaceDecl>(DC)) {
                if (!NS->isAnonymousNamespace() && !NS->isInline()) {
                    Parts.push_back(NS->getName().str());
                }
            } else if (const auto *RD = dyn_cast<RecordDecl>(DC)) {
                if (RD->getDeclName().isIdentifier() && !RD->getName().empty()) {
                    Parts.push_back(RD->getName().str());
                } else {
                    Parts.push_back("(anon)");
                }
            } else if (const auto *ED = dyn_cast<EnumDecl>(DC)) {
                if (ED->isScoped() || true) {
                    if (!ED->getName().empty()) {
                        Parts.push_back(ED->getName().str());
                    }
                }
            } else if (const auto *FD = dyn_cast<FunctionDecl>(DC)) {
                // local entity: qualify with the function name
                if (FD->getDeclName().isIdentifier()) {
                    Parts.push_back(FD->getName().str() + "()");
                } else {
                    Parts.push_back(FD->getDeclName().getAsString() + "()");
                }
            }
            DC = DC->getParent();
        }
        std::string R;
        for (auto It = Parts.rbegin(); It != Parts.rend(); ++It) {
            if (!R.empty()) {
                R += "::";
            }
            R += *It;
        }
        return R;
    }

    const FunctionDecl *patternOf(const FunctionDecl *FD) const
    {
        if (FD == nullptr) {
            return nullptr;
        }
        if (const FunctionDecl *P = FD->getTemplateInstantiationPattern()) {
            return P;
        }
        return FD;
    }

    std::string funcKey(const FunctionDecl *FD) const
    {
        FD = patternOf(FD);
        std::string K = qname(FD) + "(";
        bool First = true;
        for (const ParmVarDecl *P : FD->parameters()) {
            if (!First) {
                K += ",";
            }
            First = false;
            K += typeStr(P->getType());
        }
        K += ")";
        if (const auto *MD = dyn_cast<CXXMethodDecl>(FD)) {
            if (MD->isConst()) {
                K += " const";
            }
        }
        return K;
    }

    int declId(const Decl *D)
    {
        auto It = DeclIds.find(D);
        if (It != DeclIds.end()) {
            return It->second;
        }
        int Id = (int)DeclIds.size() + 1;
        DeclIds[D] = Id;
        return Id;
    }

    // ---------------------------------------------------------------- AST dump

    static const Expr *stripTransparent(const Expr *E)
    {
        while (E != nullptr) {
            if (const auto *X = dyn_cast<ImplicitCastExpr>(E)) {
                E = X->getSubExpr();
            } else if (const auto *X = dyn_cast<ParenExpr>(E)) {
                E = X->getSubExpr();
            } else if (const auto *X = dyn_cast<FullExpr>(E)) {
                E = X->getSubExpr();
            } else if (const auto *X = dyn_cast<MaterializeTemporaryExpr>(E)) {
                E = X->getSubExpr();
            } else if (const auto *X = dyn_cast<CXXBindTemporaryExpr>(E)) {
                E = X->getSubExpr();
            } else if (const auto *X = dyn_cast<CXXStdInitializerListExpr>(E)) {
                E = X->getSubExpr();
            } else if (const auto *X = dyn_cast<CXXConstructExpr>(E)) {
                const CXXConstructorDecl *CD = X->getConstructor();
                if (CD != nullptr && CD->isCopyOrMoveConstructor() && X->getNumArgs() == 1 && !isa<CXXTemporaryObjectExpr>(X)) {
                    E = X->getArg(0);
                } else {
                    break;
                }
            } else {
                break;
            }
        }
        return E;
    }

    void registerChain(const Stmt *S, int Id)
    {
        // Map every transparent wrapper on the way down to the same id.
        const Stmt *Cur = S;
        while (Cur != nullptr) {
            StmtIds[Cur] = Id;
            const Expr *E = dyn_cast<Expr>(Cur);
            if (E == nullptr) {
                break;
            }
            const Expr *Next = nullptr;
            if (const auto *X = dyn_cast<ImplicitCastExpr>(E)) {
                Next = X->getSubExpr();
            } else if (const auto *X = dyn_cast<ParenExpr>(E)) {
                Next = X->getSubExpr();
            } else if (const auto *X = dyn_cast<FullExpr>(E)) {
                Next = X->getSubExpr();
            } else if (const auto *X = dyn_cast<MaterializeTemporaryExpr>(E)) {
                Next = X->getSubExpr();
            } else if (const auto *X = dyn_cast<CXXBindTemporaryExpr>(E)) {
                Next = X->getSubExpr();
            } else if (const auto *X = dyn_cast<CXXStdInitializerListExpr>(E)) {
                Next = X->getSubExpr();
            } else if (const auto *X = dyn_cast<CXXConstructExpr>(E)) {
                const CXXConstructorDecl *CD = X->getConstructor();
                if (CD != nullptr && CD->isCopyOrMoveConstructor() && X->getNumArgs() == 1 && !isa<CXXTemporaryObjectExpr>(X)) {
                    Next = X->getArg(0);
                }
            }
            if (Next == nullptr) {
                break;
            }
            Cur = Next;
        }
    }

    void beginNode(const Stmt *Outer, const Stmt *Inner, const char *Kind)
    {
        int Id = NextStmt++;
        if (Outer != nullptr) {
            registerChain(Outer, Id);
        }
        if (Inner != nullptr) {
            StmtIds[Inner] = Id;
        }
        J.objectBegin();
        J.attribute("i", Id);
        J.attribute("k", Kind);
        const Stmt *L = Inner != nullptr ? Inner : Outer;
        if (L != nullptr) {
            J.attribute("l", (int64_t)lineOf(L->getBeginLoc()));
        }
    }

    void dumpVarDecl(const VarDecl *VD)
    {
        J.objectBegin();
        J.attribute("i", NextStmt++);
        J.attribute("k", "Var");
        J.attribute("l", (int64_t)lineOf(VD->getLocation()));
        J.attribute("n", VD->getName().str());
        J.attribute("d", declId(VD));
        J.attribute("t", typeStr(VD->getType()));
        if (VD->isStaticLocal()) {
            J.attribute("static", 1);
        }
        J.attributeBegin("c");
        J.arrayBegin();
        if (VD->hasInit()) {
            dumpStmt(VD->getInit());
        }
        J.arrayEnd();
        J.attributeEnd();
        J.objectEnd();
    }

    void dumpChildren(const Stmt *S)
    {
        J.attributeBegin("c");
        J.arrayBegin();
        for (const Stmt *C : S->children()) {
            if (C != nullptr) {
                dumpStmt(C);
            }
        }
        J.arrayEnd();
        J.attributeEnd();
    }

    void roles(std::initializer_list<const char *> R)
    {
        J.attributeBegin("r");
        J.arrayBegin();
        for (const char *X : R) {
            J.value(X);
        }
        J.arrayEnd();
        J.attributeEnd();
    }

    void dumpCallee(const FunctionDecl *FD)
    {
        const FunctionDecl *P = patternOf(FD);
        J.attribute("callee", qname(P));
        J.attribute("fn", P->getDeclName().getAsString());
        if (inRoots(P->getLocation())) {
            J.attribute("ck", funcKey(P));
        }
        J.attribute("rt", typeStr(FD->getReturnType()));
        if (const auto *MD = dyn_cast<CXXMethodDecl>(FD)) {
            if (MD->isVirtual()) {
                J.attribute("virt", 1);
            }
            if (MD->isStatic()) {
                J.attribute("smeth", 1);
            }
            J.attribute("cls", qname(MD->getParent()));
        }
    }

    void dumpStmt(const Stmt *S0)
    {
        if (S0 == nullptr) {
            return;
        }
        const Stmt *S = S0;
        if (const auto *E0 = dyn_cast<Expr>(S0)) {
            S = stripTransparent(E0);
        }

        // ----- statements
        if (const auto *X = dyn_cast<CompoundStmt>(S)) {
            beginNode(S0, S, "Compound");
            dumpChildren(X);
            J.objectEnd();
            return;
        }
        if (const auto *X = dyn_cast<DeclStmt>(S)) {
            beginNode(S0, S, "DeclStmt");
            J.attributeBegin("c");
            J.arrayBegin();
            for (const Decl *D : X->decls()) {
                if (const auto *VD = dyn_cast<VarDecl>(D)) {
                    dumpVarDecl(VD);
                }
            }
            J.arrayEnd();
            J.attributeEnd();
            J.objectEnd();
            return;
        }
        if (const auto *X = dyn_cast<IfStmt>(S)) {
            beginNode(S0, S, "If");
            std::vector<const char *> R;
            J.attributeBegin("c");
            J.arrayBegin();
            if (X->getInit() != nullptr) {
                dumpStmt(X->getInit());
                R.push_back("init");
            }
            if (X->getConditionVariableDeclStmt() != nullptr) {
                dumpStmt(X->getConditionVariableDeclStmt());
                R.push_back("var");
            }
            dumpStmt(X->getCond());
            R.push_back("cond");
            dumpStmt(X->getThen());
            R.push_back("then");
            if (X->getElse() != nullptr) {
                dumpStmt(X->getElse());
                R.push_back("else");
            }
            J.arrayEnd();
            J.attributeEnd();
            J.attributeBegin("r");
            J.arrayBegin();
            for (const char *Q : R) {
                J.value(Q);
            }
            J.arrayEnd();
            J.attributeEnd();
            J.objectEnd();
            return;
        }
        if (const auto *X = dyn_cast<ForStmt>(S)) {
            beginNode(S0, S, "For");
            std::vector<const char *> R;
            J.attributeBegin("c");
            J.arrayBegin();
            if (X->getInit() != nullptr) {
                dumpStmt(X->getInit());
                R.push_back("init");
            }
            if (X->getCond() != nullptr) {
                dumpStmt(X->getCond());
                R.push_back("cond");
            }
            if (X->getInc() != nullptr) {
                dumpStmt(X->getInc());
                R.push_back("inc");
            }
            dumpStmt(X->getBody());
            R.push_back("body");
            J.arrayEnd();
            J.attributeEnd();
            J.attributeBegin("r");
            J.arrayBegin();
            for (const char *Q : R) {
                J.value(Q);
            }
            J.arrayEnd();
            J.attributeEnd();
            J.objectEnd();
            return;
        }
        if (const auto *X = dyn_cast<WhileStmt>(S)) {
            beginNode(S0, S, "While");
            J.attributeBegin("c");
            J.arrayBegin();
            dumpStmt(X->getCond());
            dumpStmt(X->getBody());
            J.arrayEnd();
            J.attributeEnd();
            roles({"cond", "body"});
            J.objectEnd();
            return;
        }
        if (const auto *X = dyn_cast<DoStmt>(S)) {
            beginNode(S0, S, "Do");
            J.attributeBegin("c");
            J.arrayBegin();
            dumpStmt(X->getBody());
            dumpStmt(X->getCond());
            J.arrayEnd();
            J.attributeEnd();
            roles({"body", "cond"});
            J.objectEnd();
            return;
        }
        if (const auto *X = dyn_cast<CXXForRangeStmt>(S)) {
            beginNode(S0, S, "RangeFor");
            J.attributeBegin("c");
            J.arrayBegin();
            if (X->getLoopVariable() != nullptr) {
                // The loop variable's init is the desugared `*__begin`; do not descend.
                const VarDecl *VD = X->getLoopVariable();
                J.objectBegin();
                J.attribute("i", NextStmt++);
                J.attribute("k", "Var");
                J.attribute("l", (int64_t)lineOf(VD->getLocation()));
                J.attribute("n", VD->getName().str());
                J.attribute("d", declId(VD));
                J.attribute("t", typeStr(VD->getType()));
                J.attribute("loopvar", 1);
                J.attributeBegin("c");
                J.arrayBegin();
                J.arrayEnd();
                J.attributeEnd();
                J.objectEnd();
            }
            dumpStmt(X->getRangeInit());
            dumpStmt(X->getBody());
            J.arrayEnd();
            J.attributeEnd();
            roles({"var", "range", "body"});
            J.objectEnd();
            return;
        }
        if (const auto *X = dyn_cast<SwitchStmt>(S)) {
            beginNode(S0, S, "Switch");
            J.attribute("allEnumCovered", X->isAllEnumCasesCovered() ? 1 : 0);
            J.attributeBegin("c");
            J.arrayBegin();
            dumpStmt(X->getCond());
            dumpStmt(X->getBody());
            J.arrayEnd();
            J.attributeEnd();
            roles({"cond", "body"});
            J.objectEnd();
            return;
        }
        if (const auto *X = dyn_cast<CaseStmt>(S)) {
            beginNode(S0, S, "Case");
            J.attributeBegin("c");
            J.arrayBegin();
            dumpStmt(X->getLHS());
            dumpStmt(X->getSubStmt());
            J.arrayEnd();
            J.attributeEnd();
            roles({"val", "sub"});
            J.objectEnd();
            return;
        }
        if (const auto *X = dyn_cast<DefaultStmt>(S)) {
            beginNode(S0, S, "Default");
            J.attributeBegin("c");
            J.arrayBegin();
            dumpStmt(X->getSubStmt());
            J.arrayEnd();
            J.attributeEnd();
            roles({"sub"});
            J.objectEnd();
            return;
        }
        if (isa<ReturnStmt>(S)) {
            beginNode(S0, S, "Return");
            dumpChildren(S);
            J.objectEnd();
            return;
        }
        if (isa<BreakStmt>(S)) {
            beginNode(S0, S, "Break");
            J.objectEnd();
            return;
        }
        if (isa<ContinueStmt>(S)) {
            beginNode(S0, S, "Continue");
            J.objectEnd();
            return;
        }
        if (isa<NullStmt>(S)) {
            beginNode(S0, S, "Null");
            J.objectEnd();
            return;
        }
        if (const auto *X = dyn_cast<CXXTryStmt>(S)) {
            beginNode(S0, S, "Try");
            J.attributeBegin("c");
            J.arrayBegin();
            dumpStmt(X->getTryBlock());
            for (unsigned I = 0; I < X->getNumHandlers(); ++I) {
                dumpStmt(X->getHandler(I));
            }
            J.arrayEnd();
            J.attributeEnd();
            J.objectEnd();
            return;
        }
        if (const auto *X = dyn_cast<CXXCatchStmt>(S)) {
            beginNode(S0, S, "Catch");
            if (X->getExceptionDecl() != nullptr) {
                J.attribute("t", typeStr(X->getCaughtType()));
                J.attribute("q", qnameOfType(X->getCaughtType()));
            } else {
                J.attribute("t", "...");
                J.attribute("q", "...");
            }
            J.attributeBegin("c");
            J.arrayBegin();
            dumpStmt(X->getHandlerBlock());
            J.arrayEnd();
            J.attributeEnd();
            J.objectEnd();
            return;
        }

        // ----- expressions
        const Expr *E = dyn_cast<Expr>(S);
        if (E == nullptr) {
            beginNode(S0, S, "OtherStmt");
            J.attribute("cls", S->getStmtClassName());
            dumpChildren(S);
            J.objectEnd();
            return;
        }

        if (const auto *X = dyn_cast<StringLiteral>(E)) {
            beginNode(S0, S, "Str");
            if (X->getCharByteWidth() == 1) {
                J.attribute("v", json::fixUTF8(X->getString()));
            } else {
                J.attribute("v", "<wide>");
            }
            J.objectEnd();
            return;
        }
        if (const auto *X = dyn_cast<IntegerLiteral>(E)) {
            beginNode(S0, S, "Int");
            J.attribute("v", (int64_t)X->getValue().getLimitedValue());
            J.objectEnd();
            return;
        }
        if (const auto *X = dyn_cast<FloatingLiteral>(E)) {
            beginNode(S0, S, "Float");
            J.attribute("v", X->getValueAsApproximateDouble());
            J.objectEnd();
            return;
        }
        if (const auto *X = dyn_cast<CXXBoolLiteralExpr>(E)) {
            beginNode(S0, S, "Bool");
            J.attribute("v", X->getValue());
            J.objectEnd();
            return;
        }
        if (isa<CXXNullPtrLiteralExpr>(E) || isa<GNUNullExpr>(E)) {
            beginNode(S0, S, "Null_");
            J.objectEnd();
            return;
        }
        if (const auto *X = dyn_cast<CharacterLiteral>(E)) {
            beginNode(S0, S, "Char");
            J.attribute("v", (int64_t)X->getValue());
            J.objectEnd();
            return;
        }
        if (isa<CXXThisExpr>(E)) {
            beginNode(S0, S, "This");
            J.objectEnd();
            return;
        }
        if (const auto *X = dyn_cast<DeclRefExpr>(E)) {
            beginNode(S0, S, "Ref");
            const ValueDecl *D = X->getDecl();
            J.attribute("n", D->getDeclName().getAsString());
            J.attribute("t", typeStr(X->getType()));
            if (isa<ParmVarDecl>(D)) {
                J.attribute("dk", "parm");
                J.attribute("d", declId(D));
            } else if (const auto *VD = dyn_cast<VarDecl>(D)) {
                if (VD->isLocalVarDecl()) {
                    J.attribute("dk", VD->isStaticLocal() ? "slocal" : "local");
                    J.attribute("d", declId(D));
                } else {
                    J.attribute("dk", "global");
                    J.attribute("q", qname(VD));
                    J.attribute("qq", VD->getQualifiedNameAsString());
                }
            } else if (const auto *EC = dyn_cast<EnumConstantDecl>(D)) {
                J.attribute("dk", "enumc");
                J.attribute("q", qname(EC));
                J.attribute("v", (int64_t)EC->getInitVal().getExtValue());
            } else if (const auto *FD = dyn_cast<FunctionDecl>(D)) {
                J.attribute("dk", "func");
                J.attribute("q", qname(patternOf(FD)));
                if (inRoots(patternOf(FD)->getLocation())) {
                    J.attribute("ck", funcKey(FD));
                }
            } else if (const auto *BD = dyn_cast<BindingDecl>(D)) {
                J.attribute("dk", "binding");
                J.attribute("d", declId(D));
                // provenance of a structured binding: the decomposed variable, the position, and the member it names (pairs/structs)
                if (const auto *DD = dyn_cast_or_null<DecompositionDecl>(BD->getDecomposedDecl())) {
                    J.attribute("bof", declId(DD));
                    int ix = 0;
                    for (const auto *B : DD->bindings()) {
                        if (B == BD) {
                            break;
                        }
                        ++ix;
                    }
                    J.attribute("bix", ix);
                }
                if (const Expr *BE = BD->getBinding()) {
                    if (const auto *ME = dyn_cast<MemberExpr>(BE->IgnoreParenImpCasts())) {
                        J.attribute("bm", ME->getMemberDecl()->getDeclName().getAsString());
                    }
                }
            } else {
                J.attribute("dk", "other");
            }
            J.objectEnd();
            return;
        }
        if (const auto *X = dyn_cast<MemberExpr>(E)) {
            beginNode(S0, S, "Member");
            const ValueDecl *D = X->getMemberDecl();
            J.attribute("n", D->getDeclName().getAsString());
            J.attribute("q", qname(D));
            J.attribute("arrow", X->isArrow() ? 1 : 0);
            J.attribute("t", typeStr(X->getType()));
            if (isa<FieldDecl>(D)) {
                J.attribute("field", 1);
            }
            J.attributeBegin("c");
            J.arrayBegin();
            dumpStmt(X->getBase());
            J.arrayEnd();
            J.attributeEnd();
            J.objectEnd();
            return;
        }
        if (const auto *X = dyn_cast<CXXOperatorCallExpr>(E)) {
            beginNode(S0, S, "Call");
            J.attribute("opc", getOperatorSpelling(X->getOperator()));
            const FunctionDecl *FD = X->getDirectCallee();
            if (FD != nullptr) {
                dumpCallee(FD);
                if (isa<CXXMethodDecl>(FD)) {
                    J.attribute("mc", 1);
                }
            } else {
                J.attribute("callee", "?");
            }
            J.attributeBegin("c");
            J.arrayBegin();
            for (const Expr *A : X->arguments()) {
                dumpStmt(A);
            }
            J.arrayEnd();
            J.attributeEnd();
            J.objectEnd();
            return;
        }
        if (const auto *X = dyn_cast<CXXMemberCallExpr>(E)) {
            beginNode(S0, S, "Call");
            const CXXMethodDecl *MD = X->getMethodDecl();
            J.attribute("mc", 1);
            if (MD != nullptr) {
                dumpCallee(MD);
                if (isa<CXXConversionDecl>(MD)) {
                    J.attribute("conv", typeStr(cast<CXXConversionDecl>(MD)->getConversionType()));
                }
                if (const auto *ME = dyn_cast<MemberExpr>(X->getCallee()->IgnoreParenImpCasts())) {
                    if (ME->hasQualifier()) {
                        J.attribute("qualified", 1);
                    }
                    J.attribute("arrow", ME->isArrow() ? 1 : 0);
                }
            } else {
                J.attribute("callee", "?");
            }
            J.attributeBegin("c");
            J.arrayBegin();
            if (X->getImplicitObjectArgument() != nullptr) {
                dumpStmt(X->getImplicitObjectArgument());
            } else {
                J.objectBegin();
                J.attribute("i", NextStmt++);
                J.attribute("k", "NoObj");
                J.objectEnd();
            }
            for (const Expr *A : X->arguments()) {
                dumpStmt(A);
            }
            J.arrayEnd();
            J.attributeEnd();
            J.objectEnd();
            return;
        }
        if (const auto *X = dyn_cast<CallExpr>(E)) {
            beginNode(S0, S, "Call");
            const FunctionDecl *FD = X->getDirectCallee();
            bool Unresolved = false;
            if (FD != nullptr) {
                dumpCallee(FD);
            } else {
                J.attribute("callee", "?");
                Unresolved = true;
            }
            J.attributeBegin("c");
            J.arrayBegin();
            if (Unresolved) {
                dumpStmt(X->getCallee());
            }
            for (const Expr *A : X->arguments()) {
                dumpStmt(A);
            }
            J.arrayEnd();
            J.attributeEnd();
            if (Unresolved) {
                J.attribute("calleeExpr", 1);
            }
            J.objectEnd();
            return;
        }
        if (const auto *X = dyn_cast<CXXConstructExpr>(E)) {
            beginNode(S0, S, "Construct");
            J.attribute("t", typeStr(X->getType()));
            const CXXConstructorDecl *CD = X->getConstructor();
            if (CD != nullptr) {
                J.attribute("callee", qname(CD));
                if (inRoots(patternOf(CD)->getLocation())) {
                    J.attribute("ck", funcKey(CD));
                }
                J.attribute("cls", qname(CD->getParent()));
            }
            J.attributeBegin("c");
            J.arrayBegin();
            for (const Expr *A : X->arguments()) {
                if (!isa<CXXDefaultArgExpr>(A)) {
                    dumpStmt(A);
                }
            }
            J.arrayEnd();
            J.attributeEnd();
            J.objectEnd();
            return;
        }
        if (const auto *X = dyn_cast<BinaryOperator>(E)) {
            beginNode(S0, S, isa<CompoundAssignOperator>(X) ? "CAssign" : "Bin");
            J.attribute("op", X->getOpcodeStr().str());
            J.attributeBegin("c");
            J.arrayBegin();
            dumpStmt(X->getLHS());
            dumpStmt(X->getRHS());
            J.arrayEnd();
            J.attributeEnd();
            J.objectEnd();
            return;
        }
        if (const auto *X = dyn_cast<UnaryOperator>(E)) {
            beginNode(S0, S, "Un");
            J.attribute("op", UnaryOperator::getOpcodeStr(X->getOpcode()).str());
            if (X->isPostfix()) {
                J.attribute("postfix", 1);
            }
            J.attributeBegin("c");
            J.arrayBegin();
            dumpStmt(X->getSubExpr());
            J.arrayEnd();
            J.attributeEnd();
            J.objectEnd();
            return;
        }
        if (const auto *X = dyn_cast<ConditionalOperator>(E)) {
            beginNode(S0, S, "Cond");
            J.attributeBegin("c");
            J.arrayBegin();
            dumpStmt(X->getCond());
            dumpStmt(X->getTrueExpr());
            dumpStmt(X->getFalseExpr());
            J.arrayEnd();
            J.attributeEnd();
            J.objectEnd();
            return;
        }
        if (const auto *X = dyn_cast<ArraySubscriptExpr>(E)) {
            beginNode(S0, S, "Subscript");
            J.attributeBegin("c");
            J.arrayBegin();
            dumpStmt(X->getBase());
            dumpStmt(X->getIdx());
            J.arrayEnd();
            J.attributeEnd();
            J.objectEnd();
            return;
        }
        if (const auto *X = dyn_cast<ExplicitCastExpr>(E)) {
            beginNode(S0, S, "Cast");
            J.attribute("ck_", X->getStmtClassName());
            J.attribute("t", typeStr(X->getTypeAsWritten()));
            J.attributeBegin("c");
            J.arrayBegin();
            dumpStmt(X->getSubExpr());
            J.arrayEnd();
            J.attributeEnd();
            J.objectEnd();
            return;
        }
        if (const auto *X = dyn_cast<LambdaExpr>(E)) {
            beginNode(S0, S, "Lambda");
            J.attributeBegin("params");
            J.arrayBegin();
            if (X->getCallOperator() != nullptr) {
                for (const ParmVarDecl *P : X->getCallOperator()->parameters()) {
                    J.objectBegin();
                    J.attribute("n", P->getName().str());
                    J.attribute("d", declId(P));
                    J.attribute("t", typeStr(P->getType()));
                    J.objectEnd();
                }
            }
            J.arrayEnd();
            J.attributeEnd();
            J.attributeBegin("c");
            J.arrayBegin();
            if (X->getBody() != nullptr) {
                dumpStmt(X->getBody());
            }
            J.arrayEnd();
            J.attributeEnd();
            J.objectEnd();
            Lambdas.push_back(X);
            return;
        }
        if (const auto *X = dyn_cast<InitListExpr>(E)) {
            const InitListExpr *Sem = X->isSemanticForm() ? X : (X->getSemanticForm() != nullptr ? X->getSemanticForm() : X);
            beginNode(S0, S, "InitList");
            J.attribute("t", typeStr(Sem->getType()));
            J.attributeBegin("c");
            J.arrayBegin();
            for (const Expr *I : Sem->inits()) {
                if (I != nullptr) {
                    dumpStmt(I);
                }
            }
            J.arrayEnd();
            J.attributeEnd();
            J.objectEnd();
            return;
        }
        if (const auto *X = dyn_cast<CXXThrowExpr>(E)) {
            beginNode(S0, S, "Throw");
            dumpChildren(X);
            J.objectEnd();
            return;
        }
        if (const auto *X = dyn_cast<CXXNewExpr>(E)) {
            beginNode(S0, S, "New");
            J.attribute("t", typeStr(X->getAllocatedType()));
            J.attributeBegin("c");
            J.arrayBegin();
            if (X->getInitializer() != nullptr) {
                dumpStmt(X->getInitializer());
            }
            J.arrayEnd();
            J.attributeEnd();
            J.objectEnd();
            return;
        }
        if (const auto *X = dyn_cast<CXXDeleteExpr>(E)) {
            beginNode(S0, S, "Delete");
            J.attributeBegin("c");
            J.arrayBegin();
            dumpStmt(X->getArgument());
            J.arrayEnd();
            J.attributeEnd();
            J.objectEnd();
            return;
        }
        if (const auto *X = dyn_cast<CXXDefaultArgExpr>(E)) {
            // The callee's default argument expression is shown at the call site.
            beginNode(S0, S, "DefArg");
            J.attributeBegin("c");
            J.arrayBegin();
            if (X->getExpr() != nullptr && DefArgDepth < 2) {
                ++DefArgDepth;
                dumpStmt(X->getExpr());
                --DefArgDepth;
            }
            J.arrayEnd();
            J.attributeEnd();
            J.objectEnd();
            return;
        }
        if (const auto *X = dyn_cast<CXXDefaultInitExpr>(E)) {
            beginNode(S0, S, "DefInit");
            J.attribute("q", qname(X->getField()));
            J.objectEnd();
            return;
        }
        if (const auto *X = dyn_cast<UnaryExprOrTypeTraitExpr>(E)) {
            beginNode(S0, S, "SizeOf");
            (void)X;
            J.objectEnd();
            return;
        }
        if (const auto *X = dyn_cast<CXXDependentScopeMemberExpr>(E)) {
            beginNode(S0, S, "DepMember");
            J.attribute("n", X->getMember().getAsString());
            dumpChildren(X);
            J.objectEnd();
            return;
        }
        if (const auto *X = dyn_cast<UnresolvedLookupExpr>(E)) {
            beginNode(S0, S, "Unresolved");
            J.attribute("n", X->getName().getAsString());
            J.objectEnd();
            return;
        }
        if (const auto *X = dyn_cast<UnresolvedMemberExpr>(E)) {
            beginNode(S0, S, "UnresolvedMember");
            J.attribute("n", X->getMemberName().getAsString());
            dumpChildren(X);
            J.objectEnd();
            return;
        }
        if (const auto *X = dyn_cast<CXXScalarValueInitExpr>(E)) {
            beginNode(S0, S, "ValueInit");
            J.attribute("t", typeStr(X->getType()));
            J.objectEnd();
            return;
        }
        if (isa<ImplicitValueInitExpr>(E)) {
            beginNode(S0, S, "ValueInit");
            J.attribute("t", typeStr(E->getType()));
            J.objectEnd();
            return;
        }
        beginNode(S0, S, "OtherExpr");
        J.attribute("cls", S->getStmtClassName());
        J.attribute("t", typeStr(E->getType()));
        dumpChildren(S);
        J.objectEnd();
    }

    std::string qnameOfType(QualType T) const
    {
        T = T.getNonReferenceType().getUnqualifiedType();
        if (const auto *RD = T->getAsCXXRecordDecl()) {
            return qname(RD);
        }
        return typeStr(T);
    }

    // ---------------------------------------------------------------- CFG dump

    std::vector<const LambdaExpr *> Lambdas;

    int idOf(const Stmt *S) const
    {
        if (S == nullptr) {
            return 0;
        }
        auto It = StmtIds.find(S);
        if (It != StmtIds.end()) {
            return It->second;
        }
        return 0;
    }

    void dumpCFG(const Decl *D, const Stmt *Body, int RootId)
    {
        CFG::BuildOptions BO;
        BO.setAllAlwaysAdd();
        BO.AddEHEdges = false;
        BO.AddImplicitDtors = false;
        BO.AddTemporaryDtors = false;
        BO.AddInitializers = false;
        BO.PruneTriviallyFalseEdges = false;
        std::unique_ptr<CFG> G = CFG::buildCFG(D, const_cast<Stmt *>(Body), &Ctx, BO);
        J.objectBegin();
        J.attribute("root", RootId);
        if (!G) {
            J.attribute("failed", 1);
            J.objectEnd();
            return;
        }
        J.attribute("entry", (int64_t)G->getEntry().getBlockID());
        J.attribute("exit", (int64_t)G->getExit().getBlockID());
        J.attributeBegin("blocks");
        J.arrayBegin();
        for (const CFGBlock *B : *G) {
            J.objectBegin();
            J.attribute("id", (int64_t)B->getBlockID());
            J.attributeBegin("el");
            J.arrayBegin();
            int Last = 0;
            for (const CFGElement &El : *B) {
                if (auto CS = El.getAs<CFGStmt>()) {
                    int Id = idOf(CS->getStmt());
                    if (Id != 0 && Id != Last) {
                        J.value(Id);
                        Last = Id;
                    }
                }
            }
            J.arrayEnd();
            J.attributeEnd();
            if (const Stmt *T = B->getTerminatorStmt()) {
                J.attribute("term", idOf(T));
                J.attribute("tk", T->getStmtClassName());
                if (const Stmt *C = B->getTerminatorCondition(false)) {
                    J.attribute("tc", idOf(C));
                }
                if (const Expr *C = B->getLastCondition()) {
                    J.attribute("lc", idOf(C));
                }
            }
            if (const Stmt *L = B->getLabel()) {
                J.attribute("label", idOf(L));
            }
            if (B->hasNoReturnElement()) {
                J.attribute("noreturn", 1);
            }
            J.attributeBegin("succ");
            J.arrayBegin();
            for (auto I = B->succ_begin(); I != B->succ_end(); ++I) {
                const CFGBlock *SB = I->getReachableBlock();
                if (SB == nullptr) {
                    SB = I->getPossiblyUnreachableBlock();
                }
                if (SB != nullptr) {
                    J.value((int64_t)SB->getBlockID());
                } else {
                    J.value(nullptr);
                }
            }
            J.arrayEnd();
            J.attributeEnd();
            J.objectEnd();
        }
        J.arrayEnd();
        J.attributeEnd();
        J.objectEnd();
    }

    // ---------------------------------------------------------------- decl dumps

    void dumpFunction(const FunctionDecl *FD)
    {
        const Stmt *Body = FD->getBody();
        if (Body == nullptr) {
            return;
        }
        StmtIds.clear();
        Lambdas.clear();
        NextStmt = 1;
        J.objectBegin();
        J.attribute("key", funcKey(FD));
        J.attribute("qname", qname(FD));
        J.attribute("name", FD->getDeclName().getAsString());
        J.attribute("file", fileOf(FD->getLocation()));
        J.attribute("line", (int64_t)lineOf(FD->getBeginLoc()));
        J.attribute("endLine", (int64_t)lineOf(FD->getEndLoc()));
        J.attribute("ret", typeStr(FD->getReturnType()));
        const FunctionDecl *First = FD->getCanonicalDecl();
        J.attribute("declFile", fileOf(First->getLocation()));
        if (FD->isTemplated()) {
            J.attribute("templated", 1);
        }
        if (const auto *MD = dyn_cast<CXXMethodDecl>(FD)) {
            J.attribute("cls", qname(MD->getParent()));
            J.attribute("const", MD->isConst() ? 1 : 0);
            J.attribute("static", MD->isStatic() ? 1 : 0);
            J.attribute("virtual", MD->isVirtual() ? 1 : 0);
            J.attribute("access", (int64_t)First->getAccess());
            if (isa<CXXConstructorDecl>(MD)) {
                J.attribute("ctor", 1);
            }
            if (isa<CXXDestructorDecl>(MD)) {
                J.attribute("dtor", 1);
            }
        } else {
            J.attribute("static", FD->getStorageClass() == SC_Static || FD->isInAnonymousNamespace() ? 1 : 0);
        }
        J.attributeBegin("params");
        J.arrayBegin();
        for (const ParmVarDecl *P : FD->parameters()) {
            J.objectBegin();
            J.attribute("n", P->getName().str());
            J.attribute("d", declId(P));
            J.attribute("t", typeStr(P->getType()));
            if (P->hasDefaultArg()) {
                J.attribute("hasDefault", 1);
            }
            J.objectEnd();
        }
        J.arrayEnd();
        J.attributeEnd();
        if (const auto *CD = dyn_cast<CXXConstructorDecl>(FD)) {
            J.attributeBegin("inits");
            J.arrayBegin();
            for (const CXXCtorInitializer *I : CD->inits()) {
                if (!I->isWritten()) {
                    continue;
                }
                J.objectBegin();
                if (I->isAnyMemberInitializer()) {
                    J.attribute("field", qname(I->getAnyMember()));
                } else if (I->isBaseInitializer()) {
                    J.attribute("base", typeStr(QualType(I->getBaseClass(), 0)));
                }
                J.attributeBegin("init");
                dumpStmt(I->getInit());
                J.attributeEnd();
                J.objectEnd();
            }
            J.arrayEnd();
            J.attributeEnd();
        }
        J.attributeBegin("body");
        dumpStmt(Body);
        J.attributeEnd();
        J.attributeBegin("cfgs");
        J.arrayBegin();
        dumpCFG(FD, Body, 0);
        // Lambdas found while dumping (the list may grow: nested lambdas are dumped in the same pass).
        for (size_t I = 0; I < Lambdas.size(); ++I) {
            const LambdaExpr *L = Lambdas[I];
            if (L->getCallOperator() != nullptr && L->getBody() != nullptr) {
                dumpCFG(L->getCallOperator(), L->getBody(), idOf(L));
            }
        }
        J.arrayEnd();
        J.attributeEnd();
        J.objectEnd();
    }

    void dumpRecord(const CXXRecordDecl *RD)
    {
        J.objectBegin();
        J.attribute("qname", qname(RD));
        J.attribute("file", fileOf(RD->getLocation()));
        J.attribute("line", (int64_t)lineOf(RD->getLocation()));
        J.attributeBegin("bases");
        J.arrayBegin();
        for (const CXXBaseSpecifier &B : RD->bases()) {
            J.value(qnameOfType(B.getType()));
        }
        J.arrayEnd();
        J.attributeEnd();
        J.attributeBegin("fields");
        J.arrayBegin();
        for (const FieldDecl *F : RD->fields()) {
            StmtIds.clear();
            NextStmt = 1;
            J.objectBegin();
            J.attribute("n", F->getName().str());
            J.attribute("q", qname(F));
            J.attribute("t", typeStr(F->getType()));
            J.attribute("l", (int64_t)lineOf(F->getLocation()));
            if (F->hasInClassInitializer() && F->getInClassInitializer() != nullptr) {
                J.attributeBegin("init");
                dumpStmt(F->getInClassInitializer());
                J.attributeEnd();
            }
            J.objectEnd();
        }
        J.arrayEnd();
        J.attributeEnd();
        J.attributeBegin("methods");
        J.arrayBegin();
        for (const Decl *D : RD->decls()) {
            const CXXMethodDecl *MD = dyn_cast<CXXMethodDecl>(D);
            if (MD == nullptr) {
                if (const auto *FT = dyn_cast<FunctionTemplateDecl>(D)) {
                    MD = dyn_cast<CXXMethodDecl>(FT->getTemplatedDecl());
                }
            }
            if (MD == nullptr || MD->isImplicit()) {
                continue;
            }
            J.objectBegin();
            J.attribute("name", MD->getDeclName().getAsString());
            J.attribute("key", funcKey(MD));
            J.attribute("virtual", MD->isVirtual() ? 1 : 0);
            J.attribute("pure", MD->isPure() ? 1 : 0);
            J.attribute("const", MD->isConst() ? 1 : 0);
            J.attribute("static", MD->isStatic() ? 1 : 0);
            J.attribute("access", (int64_t)MD->getAccess());
            J.attribute("l", (int64_t)lineOf(MD->getLocation()));
            J.attribute("ret", typeStr(MD->getReturnType()));
            J.attributeBegin("params");
            J.arrayBegin();
            for (const ParmVarDecl *P : MD->parameters()) {
                J.objectBegin();
                J.attribute("n", P->getName().str());
                J.attribute("t", typeStr(P->getType()));
                J.objectEnd();
            }
            J.arrayEnd();
            J.attributeEnd();
            J.attributeBegin("overrides");
            J.arrayBegin();
            for (const CXXMethodDecl *O : MD->overridden_methods()) {
                J.value(funcKey(O));
            }
            J.arrayEnd();
            J.attributeEnd();
            J.objectEnd();
        }
        J.arrayEnd();
        J.attributeEnd();
        J.objectEnd();
    }

    void dumpEnum(const EnumDecl *ED)
    {
        J.objectBegin();
        J.attribute("qname", qname(ED));
        J.attribute("file", fileOf(ED->getLocation()));
        J.attribute("line", (int64_t)lineOf(ED->getLocation()));
        J.attributeBegin("enumerators");
        J.arrayBegin();
        for (const EnumConstantDecl *EC : ED->enumerators()) {
            J.objectBegin();
            J.attribute("n", EC->getName().str());
            J.attribute("v", (int64_t)EC->getInitVal().getExtValue());
            J.attribute("l", (int64_t)lineOf(EC->getLocation()));
            J.objectEnd();
        }
        J.arrayEnd();
        J.attributeEnd();
        J.objectEnd();
    }

    void dumpGlobal(const VarDecl *VD)
    {
        StmtIds.clear();
        NextStmt = 1;
        J.objectBegin();
        J.attribute("qname", qname(VD));
        J.attribute("n", VD->getName().str());
        J.attribute("file", fileOf(VD->getLocation()));
        J.attribute("line", (int64_t)lineOf(VD->getLocation()));
        J.attribute("t", typeStr(VD->getType()));
        if (VD->hasInit()) {
            J.attributeBegin("init");
            dumpStmt(VD->getInit());
            J.attributeEnd();
        }
        J.objectEnd();
    }
};

struct Collector : public RecursiveASTVisitor<Collector>
{
    Dumper &D;
    std::vector<const FunctionDecl *> Funcs;
    std::vector<const CXXRecordDecl *> Records;
    std::vector<const EnumDecl *> Enums;
    std::vector<const VarDecl *> Globals;

    explicit Collector(Dumper &Dm)
        : D(Dm)
    {
    }

    bool shouldVisitTemplateInstantiations() const { return false; }
    bool shouldVisitImplicitCode() const { return false; }
    bool shouldVisitLambdaBody() const { return false; }

    bool VisitFunctionDecl(FunctionDecl *FD)
    {
        if (FD->doesThisDeclarationHaveABody() && !FD->isImplicit() && D.inRoots(FD->getLocation())) {
            if (const auto *MD = dyn_cast<CXXMethodDecl>(FD)) {
                if (MD->getParent()->isLambda()) {
                    return true;
                }
            }
            Funcs.push_back(FD);
        }
        return true;
    }

    bool VisitCXXRecordDecl(CXXRecordDecl *RD)
    {
        if (RD->isThisDeclarationADefinition() && !RD->isLambda() && !RD->isImplicit() && D.inRoots(RD->getLocation())) {
            Records.push_back(RD);
        }
        return true;
    }

    bool VisitEnumDecl(EnumDecl *ED)
    {
        if (ED->isThisDeclarationADefinition() && D.inRoots(ED->getLocation())) {
            Enums.push_back(ED);
        }
        return true;
    }

    bool VisitVarDecl(VarDecl *VD)
    {
        if (!VD->isLocalVarDeclOrParm() && VD->isThisDeclarationADefinition() != VarDecl::DeclarationOnly && D.inRoots(VD->getLocation())) {
            if (!isa<ParmVarDecl>(VD)) {
                Globals.push_back(VD);
            }
        }
        return true;
    }
};

class Consumer : public ASTConsumer
{
public:
    void HandleTranslationUnit(ASTContext &Ctx) override
    {
        if (Ctx.getDiagnostics().hasErrorOccurred()) {
            llvm::errs() << "cellml_facts: parse errors, no facts written\n";
            return;
        }
        std::error_code EC;
        llvm::raw_fd_ostream OS(OutFile, EC);
        if (EC) {
            llvm::errs() << "cannot open " << OutFile << "\n";
            return;
        }
        json::OStream J(OS);
        Dumper D(Ctx, J);
        Collector C(D);
        C.TraverseDecl(Ctx.getTranslationUnitDecl());
        J.objectBegin();
        SourceManager &SM = Ctx.getSourceManager();
        if (const FileEntry *FE = SM.getFileEntryForID(SM.getMainFileID())) {
            J.attribute("unit", FE->getName().str());
        }
        J.attributeBegin("records");
        J.arrayBegin();
        for (const auto *R : C.Records) {
            D.dumpRecord(R);
        }
        J.arrayEnd();
        J.attributeEnd();
        J.attributeBegin("enums");
        J.arrayBegin();
        for (const auto *E : C.Enums) {
            D.dumpEnum(E);
        }
        J.arrayEnd();
        J.attributeEnd();
        J.attributeBegin("globals");
        J.arrayBegin();
        for (const auto *G : C.Globals) {
            D.dumpGlobal(G);
        }
        J.arrayEnd();
        J.attributeEnd();
        J.attributeBegin("functions");
        J.arrayBegin();
        for (const auto *F : C.Funcs) {
            D.dumpFunction(F);
        }
        J.arrayEnd();
        J.attributeEnd();
        J.objectEnd();
        OS << "\n";
    }
};

class Action : public ASTFrontendAction
{
public:
    std::unique_ptr<ASTConsumer> CreateASTConsumer(CompilerInstance &, llvm::StringRef) override
    {
        return std::make_unique<Consumer>();
    }
};

} // namespace

int main(int argc, const char **argv)
{
    auto Expected = CommonOptionsParser::create(argc, argv, Cat);
    if (!Expected) {
        llvm::errs() << llvm::toString(Expected.takeError());
        return 2;
    }
    CommonOptionsParser &OP = Expected.get();
    ClangTool Tool(OP.getCompilations(), OP.getSourcePathList());
    int R = Tool.run(newFrontendActionFactory<Action>().get());
    return R == 0 ? 0 : 2;
}
