// Fixture for the take-while loop rule.
#include <memory>
#include <vector>

int fixtureTakeWhileBad(const std::vector<std::weak_ptr<int>> &items)
{
    int n = 0;
    for (auto it = items.begin(); (it != items.end()) && !it->expired(); ++it) { // stops at the first expired entry
        ++n;
    }
    return n;
}

int fixtureTakeWhileGood(const std::vector<std::weak_ptr<int>> &items)
{
    int n = 0;
    bool found = false;
    for (auto it = items.begin(); (it != items.end()) && !found; ++it) {
        if (!it->expired()) {
            ++n;
        }
    }
    return n;
}
