// Fixture for the arm-agreement rule (C14.V1): both arms of a test hand the collected values to the same method of the entity being loaded.
#include <string>

struct Target
{
    void add(const std::string &ref, const std::string &prefix, const std::string &id = "");
};
struct Cursor
{
    bool is(const char *n) const;
    std::string value() const;
    Cursor *next() const;
};
std::string convert(const std::string &s);

void fixtureArmsBad(Target *target, Cursor *attribute, bool oldVersion)
{
    std::string ref, prefix, id;
    while (attribute != nullptr) {
        if (attribute->is("ref")) {
            ref = attribute->value();
        } else if (attribute->is("prefix")) {
            prefix = attribute->value();
        } else if (attribute->is("id")) {
            id = attribute->value();
        }
        attribute = attribute->next();
    }
    if (oldVersion) {
        target->add(convert(ref), prefix); // id dropped in this arm only
    } else {
        target->add(ref, prefix, id);
    }
}

void fixtureArmsGood(Target *target, Cursor *attribute, bool oldVersion)
{
    std::string ref, prefix, id;
    while (attribute != nullptr) {
        if (attribute->is("ref")) {
            ref = attribute->value();
        } else if (attribute->is("prefix")) {
            prefix = attribute->value();
        } else if (attribute->is("id")) {
            id = attribute->value();
        }
        attribute = attribute->next();
    }
    if (oldVersion) {
        target->add(convert(ref), prefix, id);
    } else {
        target->add(ref, prefix, id);
    }
}
