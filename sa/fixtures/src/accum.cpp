// Fixture for the accumulating-flag rule.
#include <vector>

bool fixtureAccumGood(const std::vector<int> &items)
{
    bool found = false;
    for (const auto &item : items) {
        if (item == 3) {
            found = true;
        }
    }
    return found;
}

bool fixtureAccumBad(const std::vector<int> &items)
{
    bool found = false;
    for (const auto &item : items) {
        found = item == 3; // the last element decides
    }
    return found;
}
