// Fixture for the sentinel-as-key rule (engines.rule_sentinel_keys): an accessor that answers an out-of-range index with "" must not feed a lookup by key.
#include <cstddef>
#include <map>
#include <string>

struct FixtureLibrary
{
    std::map<std::string, int *> mLibrary;

    std::string key(const size_t &index) const
    {
        if (index >= mLibrary.size()) {
            return "";
        }
        auto it = mLibrary.begin();
        for (size_t i = 0; i < index; ++i) {
            ++it;
        }
        return it->first;
    }

    int *byKey(const std::string &k)
    {
        auto it = mLibrary.find(k);
        return (it == mLibrary.end()) ? nullptr : it->second;
    }

    int *fixtureSentinelBad(const size_t &index)
    {
        return byKey(key(index)); // "" is a legal key: an out-of-range index finds the entry registered under ""
    }

    int *fixtureSentinelBadLocal(const size_t &index)
    {
        auto k = key(index);
        return byKey(k);
    }

    int *fixtureSentinelGood(const size_t &index)
    {
        if (index >= mLibrary.size()) {
            return nullptr;
        }
        return byKey(key(index));
    }

    int fixtureSentinelLoop()
    {
        int n = 0;
        for (size_t i = 0; i < mLibrary.size(); ++i) {
            n += (byKey(key(i)) != nullptr) ? 1 : 0;
        }
        return n;
    }

    bool fixtureSentinelTested(const size_t &index) const
    {
        return key(index).empty();
    }
};
