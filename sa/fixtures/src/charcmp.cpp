// Fixture for zero-instance rules: one conforming and one violating instance each (parsed by the extractor on every run).
#include <string>

std::string fixtureEscapeGood(const std::string &text)
{
    std::string res;
    for (const char c : text) {
        if (c == '&') {
            res += "&amp;";
        } else if (static_cast<unsigned char>(c) < 0x20) {
            res += ' ';
        } else {
            res += c;
        }
    }
    return res;
}

std::string fixtureEscapeBad(const std::string &text)
{
    std::string res;
    for (const char c : text) {
        if (c < 0x20) { // non-ASCII bytes are negative: they match as well
            res += ' ';
        } else {
            res += c;
        }
    }
    return res;
}

#include <map>
#include <vector>

std::map<std::string, int> fixtureMergeGood(const std::map<std::string, int> &a)
{
    std::map<std::string, int> res;
    res.insert(a.begin(), a.end());
    return res;
}

std::map<std::string, int> fixtureMergeBad(const std::map<std::string, int> &a)
{
    std::map<std::string, int> res;
    res.insert(a.begin(), a.begin()); // empty range: nothing is merged
    return res;
}

#include <memory>

struct FixtureNode;
using FixtureNodePtr = std::shared_ptr<FixtureNode>;
struct FixtureNode
{
    std::vector<FixtureNodePtr> mChildren;
    size_t componentCount() const { return mChildren.size(); }
    FixtureNodePtr component(size_t i) const { return mChildren.at(i); }
    void addComponent(const FixtureNodePtr &c) { mChildren.push_back(c); }
};

void fixtureMoveBad(const FixtureNodePtr &from, const FixtureNodePtr &to)
{
    for (size_t i = 0; i < from->componentCount(); ++i) {
        to->addComponent(from->component(i)); // if adding detaches the child from `from`, every second child is skipped
    }
}

void fixtureMoveGood(const FixtureNodePtr &from, const FixtureNodePtr &to)
{
    while (from->componentCount() > 0) {
        to->addComponent(from->component(0));
    }
}
